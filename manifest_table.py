"""Source of truth for MANIFEST.json (regenerate with bin/mkmanifest)."""

ENGINES = [
    dict(name='symx', path='/verif/symx',
         serves_properties=['C01', 'C02', 'C03', 'C04', 'C05', 'C06', 'C07', 'C08', 'C09', 'C10', 'C11', 'C12', 'C13', 'C14', 'C15', 'C16', 'C17', 'C18', 'C19', 'C20'],
         kind_free_text='symbolic execution of the real emsarray functions on numpy/xarray object arrays of z3-backed '
                        'scalars; fork-by-re-execution path explorer; every path closed by z3 verdict queries and a '
                        'concrete replay of a model on the unmodified stack'),
    dict(name='smtre+astsym', path='/verif/symx/smtre.py /verif/symx/astsym.py',
         serves_properties=['C17', 'C20'],
         kind_free_text='direct SMT encodings regenerated from the live objects on every run: Python regex parse tree -> z3 '
                        'regular expression; AST slice of a real function interpreted over z3 Ints / digit cells'),
]

_UNDER = 'check not built yet in this round (see DESIGN.md section 4 for the plan); no claim is made'

CHECKS = {
    'C01': dict(
        engine='symx',
        technique='symbolic execution of the real index code with z3 (unbounded Int indexes), bounded grid shapes',
        text='For every enumerated convention/grid kind/shape, z3 shows for ALL integers n and all native components '
             '(unbounded) that wind/ravel round-trip, are row-major, reject exactly the out-of-range indexes, and that '
             'grid_size counts the addressable locations; counterexamples are replayed on the unpatched stack.',
        design_ref='DESIGN.md section 4, C01',
        note='numpy.ravel_multi_index/unravel_index are replaced by their documented contract (mode/order honoured, '
             'conformance-tested against real numpy each run); grid shapes are enumerated up to 3x3 (quick) / 6x6 (thorough).',
    ),
    'C03': dict(
        engine='symx',
        technique='symbolic execution of the real ravel/wind code on object arrays of z3 reals (value+NaN flag); z3 decides term identity per element',
        text='For each enumerated layout (convention, grid kind, 0-3 extra dimensions, permutation, winding mode) every data '
             'value is an arbitrary real-or-NaN; z3 shows each output element is the input element the reference layout puts '
             'there, for ravel, wind(ravel) and ravel(wind); off-grid variables are refused; find_unused_dimension over all '
             'subsets of an 8-name universe.',
        design_ref='DESIGN.md section 4, C03',
        note='No stubs. Dimension sizes are concrete (grid 2x3 / mesh tqp, extras 4,5,1). Object-array movement is assumed to '
             'equal float64 movement; one float witness per path is replayed on the unmodified stack.',
    ),
    'C07': dict(
        engine='symx',
        technique='symbolic execution of the real mask primitives on arrays of z3 Bools (all arrays of a shape in one query); '
                  'solver-guided enumeration of hit subsets behind an STRtree contract',
        text='smear_mask / c_mask_from_centres: one unsat query per shape covers every boolean array up to 4x4; blur_mask: '
             'all arrays up to 3x3 (quick) / 4x4 (thorough), size 0..3; make_clip_mask on every convention: all hit subsets, '
             'buffers 0..3, incl. edge/node masks and mesh renumbering; monotonicity on the reference formulas.',
        design_ref='DESIGN.md section 4, C07',
        note='GEOS intersects is abstracted to a symbolic hit set per cell (STRtree contract: exactly the positions with '
             'geometry that satisfy the predicate, any order); counterexamples are realised with several real geometries '
             'and replayed on the unpatched stack.',
    ),
    'C02': dict(
        engine='symx',
        technique='symbolic execution of the real polygon/ravel/select pipeline on object arrays of z3 reals (value+NaN flag) behind shapely/STRtree contracts; z3 decides corner and value term identity per cell',
        text='Every coordinate, bounds, node and data value is an arbitrary real (NaN where holes are allowed). For each '
             'enumerated convention/shape/layout and every NaN pattern (forked) z3 shows: polygon n = corners of the cell with '
             'native index wind_index(n), centre n = its centre, ravel(v)[n] = select_index(idx)[v] = v[idx], the spatial index '
             'is built over all slots, holes are kept in place; a lookup that hits position n reports cell n; reading the geometry '
             'leaves the dataset as it was (symbolic snapshot) and a convention bound afterwards sees the same polygons.',
        design_ref='DESIGN.md section 4, C02',
        note='shapely.polygons / is_valid(=True) / STRtree construction are contracts; floats are reals + NaN flag; shapes are '
             'small and enumerated; each path witness is replayed on real shapely/STRtree.',
    ),
    'C06': dict(
        engine='symx',
        technique='symbolic execution of the real bounds/polygon/extent code with z3 (linear real arithmetic; nlsat for polygon validity conditions over symbolic corners)',
        text='All coordinates symbolic. z3 shows each polygon ring equals the reference cell (midpoint-derived or stored bounds, '
             'four bounds corners, four surrounding nodes, face nodes in listed order), missing coordinates <=> no polygon <=> '
             'mask False, invalid cells (decided from the symbolic corners) dropped with one warning, read-only array, bounds = '
             'bounding box of existing polygons, geometry = their union (point-membership query for the CFGrid1D box); bounds may be '
             'asked for before the polygons; the dataset is left as it was.',
        design_ref='DESIGN.md section 4, C06',
        note='GEOS validity is sandwiched between strictly-convex (valid) and bow-tie/collinear/zero-area (invalid); other cells '
             'are pruned. For rectangles validity is exact and linear. Axes stored in an integer dtype are symbolic Ints whose '
             'dtype-dependent arithmetic is seen by the replayed witness only. Two genuine defects are listed in known_findings.json '
             '(CFGrid1D.geometry with non-contiguous stored bounds; fast-path bounds include dropped invalid cells); one more '
             '(1-D bounds held as coordinates ignored) was repaired in /repo.',
    ),
    'C04': dict(
        engine='symx',
        technique='symbolic execution of the real point-lookup code with a symbolic query point; z3 (linear real arithmetic) partitions the plane via half-plane tests and enumerates hit orders',
        text='The query point is an arbitrary point of the plane and the spatial index may report hits in any order. On every '
             'feasible region (interiors, shared edges and vertices, holes, outside) z3 shows the result is None iff no cell with '
             'geometry contains/touches the point, otherwise the lowest-indexed such cell with consistent linear index, native '
             'index and polygon; select_point raises exactly on a miss; the same after an arbitrary earlier lookup (second symbolic '
             'point) on the same convention; the dataset is left as it was.',
        design_ref='DESIGN.md section 4, C04',
        note='STRtree.query is a contract over the concrete convex cell polygons (closed half-plane tests, arbitrary report '
             'order; the same contract answers polygon.intersects(point) asked directly); GEOS itself and non-convex cells are '
             'outside; CF 1-D cell polygons are first compared with midpoint rectangles; every path witness is replayed with the real STRtree.',
    ),
    'C05': dict(
        engine='symx',
        technique='symbolic execution of the real selection / point-extraction code on object arrays of z3 reals; requested indexes and lookup outcomes are z3 Ints enumerated by forking',
        text='All stored values symbolic (NaN included). For every index list up to length 3 on every grid kind and every '
             'hit/miss outcome vector of up to 3 points under each policy, z3 shows each output entry is the stored term of '
             'the requested cell, in request order, other dimensions intact, other-grid and geometry variables absent, and the '
             'error/drop/fill contracts on positions; points on shared boundaries (two hits reported in the wrong order) denote '
             'the lowest cell; a selection made after in-place edits of the dataset returns the edited values.',
        design_ref='DESIGN.md section 4, C05',
        note='Request vectors are enumerated via the solver (values stay symbolic). The spatial lookup is a contract (miss or '
             'one cell per request; boundary hits are C04). Each path is replayed with real points on float arrays.',
    ),
    'C12': dict(
        engine='symx',
        technique='symbolic execution of the real ocean_floor code (through xarray cumsum/argmax/isel/merge) on object arrays of z3 reals with symbolic NaN flags; z3 decides the deepest-valid-layer postcondition per column',
        text='The sea-floor shape (a dry flag per layer and location), all data values and the depth values are symbolic. For '
             'every orientation (positive up/down x storage order), depth-dimension position and convention layout z3 shows '
             'each output value is the term of the deepest layer that holds data (NaN for an all-dry column), the depth '
             'dimension and coordinate are gone and everything else is unchanged; several depth coordinates, also through '
             'Convention.ocean_floor (which finds them itself).',
        design_ref='DESIGN.md section 4, C12',
        note='xarray runs unmodified on object arrays except duck_array_ops.pandas_isnull (taught the symbolic NaN flag); '
             'static sea floor (flags shared by variables and times) as the property states; 2-4 layers x 2 locations.',
    ),
    'C13': dict(
        engine='symx',
        technique='symbolic execution of the real normalize_depth_variables on object arrays of z3 reals; z3 decides sign/order/bounds/data alignment on every branch of the ordering test',
        text='Depth values (any strictly monotonic reals), bounds and data are symbolic. For all 9 option combinations, '
             'attribute spellings, layouts and with/without bounds z3 shows: attribute and values agree with the requested '
             'sign, requested order holds, bounds and data stay attached to their physical level, None leaves the aspect '
             'untouched, the input is unmodified (snapshot of every variable) and a second application is the identity; two depth '
             'coordinates on one dimension; the same through Convention.normalize_depth_variables.',
        design_ref='DESIGN.md section 4, C13',
        note='When the positive attribute is absent the depth values are concrete sign patterns (the sign guess indexes an '
             'array with a comparison result). 2-4 levels. One genuine defect (case-sensitive attribute) was repaired in /repo.',
    ),
    'C17': dict(
        engine='smtre+astsym',
        technique='AST slice of the real offset formatter interpreted symbolically (z3 Int offset, digit-cell text); z3 decides read-back equality against a model of the cftime reader; symx for the fill-value logic',
        text='For every UTC offset in [-1440, 1440] minutes z3 shows that the offset text emitted by the current source of '
             'format_time_units_for_ems is in the grammar of the live cftime TIMEZONE_REGEX and is read back as the same offset '
             '(hence the same reference instant); disable_default_fill_value is explored over symbolic _FillValue membership. '
             'Real save/reopen round trips per convention are validated on witnesses.',
        design_ref='DESIGN.md section 4, C17',
        note='The cftime reader value function is a model, diffed against cftime._parse_date on 11k strings each run; the '
             'date-time digits come from strftime (outside); netCDF rewrite and xarray decoding on witnesses only.',
        category='model_checking',
    ),
    'C20': dict(
        engine='smtre+astsym',
        technique='z3 regular-language inclusion between the translated live bounds_re (with the call-site match method read from the AST) and reference grammars; symx for the error-to-exit-status mapping; in-process CLI runs on witnesses',
        text='z3 decides, over all ASCII strings, L(accepted as bounds) <= {four numerals with optional blanks} and '
             '{four plain numerals} <= L(accepted); every solver string is pushed through the real function; exit-status '
             'mapping for a symbolic CommandException code; clip / extract-points / export-geometry compared with the '
             'library in process on real files for three convention families; extract-points for every vector of per-row outcomes '
             '(hit cell n / miss) under every policy; guess_format for every extension (unbounded z3 string).',
        design_ref='DESIGN.md section 4, C20',
        note='Whole-command equivalence is validated on witnesses only (file I/O); non-ASCII input and shapefile export are '
             'outside. Two genuine defects (prefix match; integer fill encoding of extract-points) were repaired in /repo.',
        category='model_checking',
    ),
    'C10': dict(
        engine='symx',
        technique='solver-guided enumeration: node ids of the face-node table are z3 Ints under distinctness and canonical-labelling constraints, so z3 enumerates every mesh topology once up to node renaming; the real derivation code runs on each',
        text='For every topology of 2-3 faces (sizes 3-5) the real Mesh2DTopology derivations are compared with reference '
             'definitions (edges = consecutive node pairs, ring closed, no duplicates; face-edge in ring order; edge-face; '
             'symmetric face-face). Fixed meshes are rebuilt in every encoding chosen by the solver (0/1-based, NaN / '
             '_FillValue / none, transposed, supplied-table subsets, edge renumbering, coordinates as xarray coordinates): '
             'identical normalised tables, polygons, centres and geometry inventory.',
        design_ref='DESIGN.md section 4, C10',
        note='Degenerates to enumeration once ids are fixed (hash/sort-based algorithms need concrete ids); numpy dtype '
             'dispatch in _to_index_array is exercised concretely per encoding. Meshes without an edge dimension cannot '
             'derive edge tables (documented NoEdgeDimensionException). One genuine defect repaired in /repo.',
    ),
    'C16': dict(
        engine='symx',
        technique='symbolic execution of the real hashing code with a recording hash object on a dataset stand-in whose geometry bytes are z3 BitVec(8) terms; z3 decides single-edit sensitivity and determinism of the byte stream',
        text='The real hash_geometry / make_cache_key / hash_string / hash_int / hash_attributes build the stream from '
             'symbolic names, dtype names, data and marshalled attributes (lengths enumerated by forking). z3 shows that '
             'equal streams force the edited field (name, dtype, one value, shape with the same bytes, attributes) to be '
             'equal, that the convention class changes the stream, and that the tail is module/class/version. Real '
             'datasets: non-geometry edits keep the key, geometry edits change it, other hash seeds agree.',
        design_ref='DESIGN.md section 4, C16',
        note='blake2b collision resistance and marshal injectivity are assumed. marshal.dumps is modelled as value + '
             'unconstrained sharing context; the resulting determinism counterexample reproduces on real datasets and is a '
             'known finding.',
    ),
    'C11': dict(
        engine='symx',
        technique='symbolic execution of the real registry / detectors / binding code: specificities are unbounded z3 Ints (the sort forks on comparisons), attribute strings range over finite universes, histories are chosen by symbolic selectors',
        text='Registry: for every registration order of up to 3+3 conventions, each matching or not with any Int specificity, '
             'z3 shows the chosen class is a maximal match, manual registrations win ties, the choice is repeatable and '
             'unaffected by non-matching registrations, none => None. Detectors: UGRID iff marker and mesh role and '
             'topology_dimension == 2 (any Int); CF iff latitude and longitude identifiable; SHOC over CF. Binding: all '
             'histories of length 3-4 over the five operations.',
        design_ref='DESIGN.md section 4, C11',
        note='String attributes range over finite spelling universes; entry points are stubbed in the registry part. The '
             'history part has a tiny state space: the solver only drives the case split.',
    ),
    'C14': dict(
        engine='symx',
        technique='symbolic execution of the real fan and ear-clipping kernels on symbolic vertex coordinates; z3 nonlinear real arithmetic (nlsat) decides area and orientation identities; GEOS ear predicates are symbolic Bools',
        text='Fan: for n = 3..8 and arbitrary real vertices z3 shows n-2 triangles (v0, vi, vi+1), signed areas adding up, '
             'and for strictly convex polygons every triangle oriented like the polygon. Ear clipping: for every pattern '
             'of accepted ears z3 shows n-2 triangles of consecutive ring vertices, the ring shrinking, areas adding up. '
             'triangulate_dataset is validated with an exact-cover oracle on real meshes and grids (holes, concave, '
             'collinear, cw/ccw, 3..8 sides).',
        design_ref='DESIGN.md section 4, C14',
        note='That an accepted ear lies inside a concave cell (GEOS) and the pandas de-duplication / join are validated on '
             'witnesses only. Two-ears theorem assumed.',
    ),
    'C08': dict(
        engine='symx',
        technique='symbolic execution of the real clipping code on object arrays of z3 reals with a symbolic hit set; the per-variable netCDF round trip is an in-memory store contract; z3 decides value identity / blanking per cell',
        text='All float values symbolic; every subset of intersecting cells (forked) x buffers; z3 shows that after clip / '
             'apply_clip_mask every selected cell keeps every value in the original relative order, every remaining '
             'unselected cell is missing (NaN, or the fill value for integers with _FillValue / missing_value), '
             'unmaskable integers are cropped to a window of the original, non-spatial variables, order and attributes '
             'pass through; on meshes exactly the selected faces / edges / nodes remain in original order; the same mask applied '
             'twice gives the same result and neither the mask nor the input dataset is modified (symbolic snapshots); fill values 0.',
        design_ref='DESIGN.md section 4, C08',
        note='The netCDF write / open_mfdataset round trip, on-disk dtypes and the saved-and-reloaded mask are validated on '
             'witnesses (every path is replayed on real files). Three genuine defects were repaired in /repo.',
    ),
    'C09': dict(
        engine='symx',
        technique='same symbolic clip as C08 (z3-backed values, symbolic hit set, in-memory round-trip contract) with geometric postconditions; symbolic subset choice for select_variables',
        text='For every hit subset and buffer: the result is detected as the same convention, each selected cell has its '
             'original polygon and no new polygon appears; on meshes every connectivity variable of the input is present, '
             'renumbered consistently (face-node, edge-node, face-edge, edge-face, face-face agree), keeps start_index, '
             'integer type and dimension order; select_variables over every subset of the data variables leaves all '
             'polygons identical. Includes one-based tables with fill value 0, meshes described through face_edge / edge_face only, '
             'and node coordinates held as xarray coordinates.',
        design_ref='DESIGN.md section 4, C09',
        note='Geometry coordinates are concrete here (symbolic coordinates are C02/C06); reopening saved results happens in '
             'replay on real files only.',
    ),
    'C15': dict(
        engine='symx',
        technique='symbolic execution of the real exporters on the symbolic polygon array (z3 reals, forked hole pattern) with recording serializers; z3 decides index and coordinate identity per feature',
        text='For every hole pattern and all coordinates z3 shows that what reaches each serializer (GeoJSON features, '
             'Shapefile records+shapes, the WKT/WKB MultiPolygon) is exactly the cells with polygons, in linear order, with '
             'identical coordinate terms, and that linear_index / index (JSON-encoded for Shapefile) identify that cell '
             '(ravel_index(index) == linear_index), also after another dataset with the same source path was exported. Every path '
             'is replayed by writing and re-reading real files.',
        design_ref='DESIGN.md section 4, C15',
        note="The serializers' own encodings are validated on witnesses only. Known finding: the geojson package rounds "
             'coordinates to 6 decimals. One genuine defect (null Shapefile linear index) repaired in /repo.',
    ),
    'C19': dict(
        engine='symx',
        technique='symbolic execution of the real make_poly_collection / make_quiver on z3-backed values and coordinates with recording matplotlib constructors; z3 decides pairing and colour-limit postconditions',
        text='For every hole pattern, all values (NaN included) and coordinates: one patch per cell with geometry in linear '
             'order with that cell ring and value; default clim contains every plotted value and both limits are plotted '
             'values; user array/clim/transform pass through; data_array+array => TypeError; leftover dimensions => '
             'ValueError; quiver x,y are the face centres and u,v the components of the same cell. Replay builds real '
             'matplotlib artists.',
        design_ref='DESIGN.md section 4, C19',
        note='Rendering and animate_on_figure are outside; datasets without any cell geometry are excluded.',
    ),
    'C18': dict(
        engine='symx',
        technique='symbolic execution of the real Transect.segments / transect_dataset / prepare_data_array_for_transect with abstract GEOS/PROJ contracts: intersection kinds chosen by the solver, along-path distances are z3 Reals (the sorts fork on comparisons)',
        text='For a path meeting up to 3 cells, every combination of intersection kinds (piece, two pieces, piece + touching '
             'point, point only, nothing) and all along-path distances, z3 shows: one segment per line piece and none for '
             'points, each naming its cell (linear index, native index, polygon), start <= end with matching end points, '
             'segments sorted by (start, end), the linear_index coordinate in that order, and prepared data holding the '
             'values of each segment cell at every depth with depth and index last. Real polylines over real grids and a '
             'concave mesh face are checked with a geometric oracle (inside its cell, lengths add up, path order).',
        design_ref='DESIGN.md section 4, C18',
        note='That a piece lies within its polygon and that lengths add up are GEOS / PROJ facts: validated on the real '
             'polylines only. cfunits (absent system library) is replaced by a stand-in module, as the property notes.',
    ),
}

NOT_APPLICABLE = {p: _UNDER for p in [f'C{i:02d}' for i in range(1, 21)] if p not in CHECKS}


# Sentences appended to the `text` of a check (what later rounds added to its oracle; see DESIGN.md section 8).
ADDENDA = {
    'C01': 'Also after the convention went through pickle / copy / deepcopy, and with Arakawa C indexes written through the grid kind call helper.',
    'C02': 'Mesh configurations include unsigned connectivity tables whose all-ones fill value is kept as an attribute.',
    'C03': 'The winding axis is also given as a numpy integer.',
    'C05': 'Indexes outside the grid are refused (symbolic overshoot); tables with an index other than 0..n-1 are answered row by row; '
           "the 'fill' result is also saved and read back for six encodings (real files).",
    'C06': 'Conventions built with caller-given coordinate names are included.',
    'C07': 'Masks are boolean arrays; a second mask from the same convention for another symbolic hit set owes nothing to the first, '
           'which stays what it was.',
    'C08': 'Attributes of every variable and coordinate pass through (decoded fill / packing attributes may move to the encoding); '
           'fill values given as plain Python numbers are honoured.',
    'C09': 'Connectivity tables built in memory as int64 / int16 keep their type.',
    'C12': 'Variables along the depth axis only go with the dimension; an integer variable on the layers stays integer; stored cell bounds '
           'and the encoding of reduced variables are untouched.',
    'C13': 'Options given as numpy booleans / ints mean what Python booleans mean; a layer dimension may have an index coordinate of its own.',
    'C14': 'Includes a one-based in-memory mesh with attribute fill values, and a second call after the caller overwrote the first answer.',
    'C15': 'The shapefile target is also a path object with dots in its name: the files written are the ones named.',
    'C16': 'Real datasets: chunked (dask) twins get the same key; a dataset derived from one that was hashed before, with another type and '
           'the same bytes, gets another key.',
    'C17': 'Round trips include time bounds variables, the calendar names standard / gregorian / proleptic_gregorian and scalar time.',
    'C19': 'A leftover dimension of length one is refused like any other.',
    'C20': 'extract-points is also run with -d / --point-dimension.',
}

# round 9
for _k, _v in {
    'C01': ' Look-alike variables (same standard names, other dimensions) and a second mesh topology variable are present in some configurations.',
    'C02': ' Integer-typed axes are included; in the replay every corner of every cell is looked up with real GEOS and found in a cell that touches it.',
    'C03': ' Includes an extra dimension exactly as long as the flattened grid and a mesh whose declared edge dimension no variable uses.',
    'C04': ' Includes integer-typed axes and mesh files whose Conventions attribute lists several conventions (detected by the library itself).',
    'C05': ' Integer-typed axes and range-indexed tables (strided slices) are included.',
    'C06': ' Rotated-pole look-alike axes ahead of the true 2-D coordinates are included.',
    'C07': ' blur_mask is also given column-major and transposed arrays; meshes with a supplied face-face table and int8 tables on a 25-node mesh are included.',
    'C08': ' A packed (int16 + scale factor) variable on the mesh keeps its values.',
    'C09': ' Bounds variables that repeat the CF attributes of their coordinate, and a mesh node that no face uses, are included.',
    'C10': ' Encodings include 64-bit fills beyond 32 bits and tables that count from different bases.',
    'C11': ' A thin subclass of a built-in convention (only topology_class swapped) is registered and detected.',
    'C12': ' Integer (also unsigned) depth coordinates are included.',
    'C13': ' Integer depth coordinates with fractional float bounds are included.',
    'C14': ' Integer-typed axes are included.',
    'C15': ' Integer-typed axes, and exporting from a second Dataset object that shares the arrays of the first, are included.',
    'C16': ' Real datasets: array-valued attributes (tenth digit, middle of 1500 elements), byte-swapped arrays keyed twice.',
    'C17': ' Time held as a data variable with its bounds first; never-decoded variables with missing_value.',
    'C18': ' A north-to-south latitude axis and a path with z values are in the real-geometry suite (reference geometry checked first).',
    'C19': ' Integer-typed axes; animated values of the size of epoch seconds.',
    'C20': ' An unsigned variable is extracted under every policy.',
}.items():
    ADDENDA[_k] = ADDENDA.get(_k, '') + _v

# round 10
for _k, _v in {
    'C01': ' One coordinate name given by the caller next to a look-alike of another size.',
    'C02': ' Caller-named coordinates; every cell selected in one call.',
    'C03': ' Grid dimensions are compared with a reference table; a mesh without edges; caller-named coordinates.',
    'C04': ' start_index stored as text; 2-D bounds stored (x, y, 4) are ignored in favour of derived cells.',
    'C05': " An existing 'point' dimension; transposed edge tables.",
    'C07': ' A zero-based table without start_index next to one-based faces.',
    'C08': ' A series of datasets clipped with one mask into one working directory keeps its own coordinates.',
    'C09': ' start_index stored as text; a mask made from a face list that names a face twice.',
    'C10': ' start_index stored as text; tables stored in different orientations.',
    'C11': ' Registration after detection has been used; SHOC detection after a dataset was opened with caller-given names.',
    'C12': ' Each documented depth marker alone is enough for the convention to find the coordinate.',
    'C13': ' A second depth axis with a dimension coordinate of its own.',
    'C15': ' A bow-tie cell after holes; a square connectivity table stored transposed (reference geometry in the replay).',
    'C16': ' Key before and after the polygons were worked out; a geometry variable with a record dimension.',
    'C17': ' cftime calendars and epochs before 1582 / before the year 1000 in the round trip.',
    'C19': ' Caller-given colour limits that contain a zero; longitude stored (x, y).',
    'C20': ' A clip of 140 variables through the command line.',
}.items():
    ADDENDA[_k] = ADDENDA.get(_k, '') + _v

# round 11
for _k, _v in {
    'C01': ' Indexes beyond 32 bits; a SHOC dataset opened earlier with caller-given names.',
    'C02': ' A 200 x 300 grid with native indexes held in narrow integer types; refusals before valid use.',
    'C03': ' After other short-lived datasets in the same process; after refusals of variables on no grid.',
    'C04': ' A reference native index; SHOC files with face longitude stored (i, j); a 33,000-node mesh stored as shorts.',
    'C05': ' One station list in two models (fresh processes, 14 environments); a refused request corrected in place.',
    'C06': ' A strict first attempt (invalid-polygon warning as error), then again.',
    'C07': ' After other short-lived meshes; renumbering tables exact for every 32-bit number.',
    'C08': ' A mask file name used before for another mask; clip-save-reopen in 14 process environments.',
    'C09': ' Clip-save-reopen in 14 process environments (hash seeds, time zones, locale).',
    'C10': ' Mixed-orientation tables in 14 process environments; a 50,000-node mesh.',
    'C11': ' Detection with 1-D axes and 2-D fields in 14 process environments; refused, completed in place, detected.',
    'C12': ' 160 layers (33,000 thorough); asked again through the convention after an in-place edit.',
    'C13': ' Six depth coordinates by name in 14 process environments (keep_attrs=False among them).',
    'C14': ' 70,000 cells of one shape; after other short-lived datasets.',
    'C15': ' A file with staggered-grid axes exported in 14 process environments.',
    'C16': ' A mesh refused, corrected in place and keyed; SHOC key after another dataset was opened with caller-given names.',
    'C17': ' Saving with several date-time coordinates and the formatter in 14 process environments; decode after a failed save.',
    'C18': ' A path through 1,200 cells.',
    'C19': ' After other short-lived plots; one-based meshes with attribute fill values.',
    'C20': ' clip from the command line in 14 process environments.',
}.items():
    ADDENDA[_k] = ADDENDA.get(_k, '') + _v

# round 12
for _k, _v in {
    'C02': ' The deprecated spatial index is compared in the replay.',
    'C03': ' Transposed mesh tables; coordinate variables not named after their dimensions.',
    'C04': ' Rotated-pole look-alike axes and a second mesh through autodetection.',
    'C05': ' Axes stored north to south; 2-D bounds stored (x, y, 4).',
    'C07': " The file's own edge numbering is the reference; a transposed edge table numbered in reverse.",
    'C09': ' A size-two dimension called nv next to a length-two time dimension.',
    'C10': ' Implied edge dimensions from a single edge table.',
    'C11': ' A copy with another convention bound by hand is detected by its content.',
    'C12': " SHOC simple / standard through the conventions' own depth coordinate lookup (coordinate or plain variable).",
    'C13': ' SHOC simple through the alias; one marker only with a guessed sign.',
    'C14': ' Stored 1-D bounds with gaps; 2-D bounds stored (x, y, 4).',
    'C16': ' Two Unicode spellings of a name; a mesh stored transposed with every optional table.',
    'C17': ' A SHOC standard file opened without decoding times; a duration variable.',
    'C18': ' Variables stored (x, y, depth) and column-major; a curvilinear grid with misordered bounds.',
    'C19': ' An array derived from a dataset variable (same name, other values); caller-named coordinates.',
    'C20': ' A static file and a no-leap calendar among the command-line datasets.',
}.items():
    ADDENDA[_k] = ADDENDA.get(_k, '') + _v

# round 13 (concrete cases beyond the symbolic bounds; they run first)
for _k, _v in {
    'C01': ' A concrete sweep of every cell of grids with row lengths 49 to 1,117.',
    'C02': ' A 257 x 258 grid and faces with 9 and 12 nodes.',
    'C03': ' Dimensions of several hundred elements; many taken dimension names.',
    'C04': ' Grids up to 257 x 258, a 33,000-node mesh, faces with 9 and 12 nodes.',
    'C05': ' 2,500 and 1,001 points on 101 x 100 and 5 x 6 grids.',
    'C06': ' Grids up to 257 x 256, a 5,000-face mesh, faces with 3 to 12 nodes.',
    'C07': ' Masks up to 260 x 4 and 2 x 515; a node shared by nine faces.',
    'C08': ' A 260 x 4 grid clipped near row 255; a ring of 65,540 nodes clipped across its seam; int8 / int16 tables near the limits of the type.',
    'C09': ' Quadrilateral meshes in int8 / int16 tables near the limits of the type, clipped, saved and reopened.',
    'C10': ' A 50,000-node strip with derived tables.',
    'C11': ' Fourteen to twenty matching registered conventions; look-alike names longer than the expected ones.',
    'C12': ' 160 to 33,000 layers; 257- to 66,000-column grids whose last rows are the deepest.',
    'C13': ' 129 and 200 layers; eleven guessed levels.',
    'C14': ' Convex cells with 3 to 20 sides, star-shaped cells with 9 to 14 corners; more than 2**16 cells.',
    'C15': ' More than 2**16 cells; faces with 9 and 12 nodes.',
    'C16': ' Names of 257 to 1,000 characters; face-edge fill values between the counts.',
    'C17': ' 300 time steps; variable names of more than 32 characters.',
    'C18': ' Paths of 11 to 41 vertices over a 3 x 12 grid.',
    'C19': ' More than 2**16 cells; faces with 9 and 12 nodes.',
    'C20': ' A 2,500-row station table; box arguments written with 70 digits.',
}.items():
    ADDENDA[_k] = ADDENDA.get(_k, '') + _v

# round 14 (special values)
for _k, _v in {
    'C01': ' Sizes as indexes (Python and numpy integers); native indexes with a fractional component.',
    'C04': ' Points exactly on cell corners and sides, the outer border included.',
    'C07': ' Geometries that meet the dataset only along its outer border or at a corner.',
    'C08': ' Fill values at the limits of the stored integer type (int64, int32, unsigned bytes).',
    'C09': ' Fill values at the limits of the stored integer type; a bounds attribute padded with blanks.',
    'C10': ' Supplied tables whose fill value is the element count, rows written from the closing edge.',
    'C11': ' An ems_version attribute that is empty or zero; rotated-pole axes ahead of the true coordinates.',
    'C12': ' Zero, negative zero, numbers equal to the remembered fill value and beyond single precision at the sea floor.',
    'C13': ' Unsigned and narrow signed depth coordinates with steps that do not fit the type; one known finding (negation that does not fit).',
    'C14': ' A face whose row of the table is padding only.',
    'C15': ' The only invalid cell is the first one.',
    'C16': ' Face coordinates named with other white space; empty selections along one axis.',
    'C17': ' No and one time step.',
    'C18': ' Paths that stay in cell 0; a grid of 0.001 degree cells at 150 E.',
    'C19': ' The only invalid cell is the first one; missing centres in the second and the last row of a column.',
    'C20': " The format choice 'auto' written out; text cells with leading blanks.",
}.items():
    ADDENDA[_k] = ADDENDA.get(_k, '') + _v
