"""Source of truth for MANIFEST.json (regenerate with bin/mkmanifest)."""

ENGINES = [
    dict(name='symx', path='/verif/symx',
         serves_properties=['C01'],
         kind_free_text='symbolic execution of the real emsarray functions on numpy/xarray object arrays of z3-backed '
                        'scalars; fork-by-re-execution path explorer; every path closed by z3 verdict queries and a '
                        'concrete replay of a model on the unmodified stack'),
]

_UNDER = 'check not built yet in this round (see DESIGN.md section 4 for the plan); no claim is made'

CHECKS = {
    'C01': dict(
        engine='symx',
        technique='symbolic execution of the real index code with z3 (unbounded Int indexes), bounded grid shapes',
        text='For every enumerated convention/grid kind/shape, z3 shows for ALL integers n and all native components '
             '(unbounded) that wind/ravel round-trip, are row-major, reject exactly the out-of-range indexes, and that '
             'grid_size counts the addressable locations; counterexamples are replayed on the unpatched stack.',
        design_ref='DESIGN.md section 4, C01',
        note='numpy.ravel_multi_index/unravel_index are replaced by their documented contract (mode/order honoured, '
             'conformance-tested against real numpy each run); grid shapes are enumerated up to 3x3 (quick) / 6x6 (thorough).',
    ),
}

NOT_APPLICABLE = {p: _UNDER for p in [f'C{i:02d}' for i in range(1, 21)] if p not in CHECKS}
