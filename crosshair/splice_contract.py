"""Contract wrapper around the real emsarray.utils.splice_tuple for CrossHair (E2, cross-check of C03)."""
from emsarray.utils import splice_tuple


def check_splice(t: tuple[int, ...], index: int, values: tuple[int, ...]) -> tuple:
    """
    pre: 0 <= index < len(t) and len(t) <= 4 and len(values) <= 3
    post: len(__return__) == len(t) - 1 + len(values)
    post: __return__[:index] == t[:index]
    post: __return__[index:index + len(values)] == values
    post: __return__[index + len(values):] == t[index + 1:]
    """
    return splice_tuple(t, index, values)
