"""Environment seen by the emsarray functions under symbolic execution.

Nothing in /repo is edited.  For the duration of one symbolic run the module
level names ``numpy`` / ``shapely`` / ... *inside the emsarray module under
test* are rebound to forwarding proxies: every attribute is the real library's,
except the few entry points that must inspect a symbolic scalar (``isnan``,
``isfinite``, ``any`` ...) or that cross into GEOS.  A few builtins (``int``)
are shadowed by adding a module global of the same name.
"""
from __future__ import annotations

import contextlib
import itertools

import numpy
import z3

from .core import (
    HarnessError, SymBool, SymInt, SymReal, ctx, has_sym, is_sym,
)


class Proxy:
    """Forward everything to `real` except the names in `overrides`."""

    def __init__(self, real, overrides):
        object.__setattr__(self, '_real', real)
        object.__setattr__(self, '_over', overrides)

    def __getattr__(self, name):
        over = object.__getattribute__(self, '_over')
        if name in over:
            return over[name]
        return getattr(object.__getattribute__(self, '_real'), name)


@contextlib.contextmanager
def patched(*triples):
    """patched((module, 'name', value), ...) - set module globals, restore after."""
    saved = []
    missing = object()
    try:
        for mod, name, value in triples:
            saved.append((mod, name, mod.__dict__.get(name, missing)))
            setattr(mod, name, value)
        yield
    finally:
        for mod, name, old in reversed(saved):
            if old is missing:
                delattr(mod, name)
            else:
                setattr(mod, name, old)


# ---------------------------------------------------------------------------
# builtin shadows

def sym_int(x=0, *a):
    if isinstance(x, SymInt):
        return x
    if isinstance(x, SymBool):
        return SymInt(z3.If(x.z, 1, 0))
    return int(x, *a)


def sym_float(x=0.0):
    if isinstance(x, (SymReal,)):
        return x
    if isinstance(x, SymInt):
        return SymReal.lift(x)
    return float(x)


def sym_bool(x=False):
    if isinstance(x, SymBool):
        return x
    return bool(x)


# ---------------------------------------------------------------------------
# numpy entry points that must look inside symbolic scalars

def _objarr(x):
    return isinstance(x, numpy.ndarray) and x.dtype == object


def _elementwise_bool(x, f):
    """Fork on f(element) for each element; returns a real bool array."""
    a = numpy.asarray(x, dtype=object) if not isinstance(x, numpy.ndarray) else x
    out = numpy.empty(a.shape, dtype=bool)
    flat_out = out.reshape(-1)
    for i, el in enumerate(a.reshape(-1)):
        flat_out[i] = f(el)
    return out


def _isnan_el(el):
    if isinstance(el, SymReal):
        return bool(SymBool(el.nan))       # forks
    if isinstance(el, (SymInt, SymBool)):
        return False
    if el is None:
        raise TypeError('isnan(None)')
    return bool(numpy.isnan(el))


def np_isnan(x, *a, **k):
    if is_sym(x):
        return _isnan_el(x)
    if _objarr(x) or (isinstance(x, (list, tuple)) and has_sym(x)):
        return _elementwise_bool(x, _isnan_el)
    return numpy.isnan(x, *a, **k)


def np_isfinite(x, *a, **k):
    if is_sym(x):
        return not _isnan_el(x)
    if _objarr(x) or (isinstance(x, (list, tuple)) and has_sym(x)):
        return _elementwise_bool(x, lambda el: not _isnan_el(el))
    return numpy.isfinite(x, *a, **k)


def np_any(x, *a, **k):
    if _objarr(x) and not a and not k:
        els = list(x.reshape(-1))
        if any(isinstance(e, SymBool) for e in els):
            zs = []
            for e in els:
                b = SymBool.lift(e)
                if b is None:
                    raise HarnessError(f'numpy.any over non-boolean object {e!r}')
                zs.append(b.z)
            return SymBool(z3.Or(*zs)) if zs else False
    return numpy.any(x, *a, **k)


def np_all(x, *a, **k):
    if _objarr(x) and not a and not k:
        els = list(x.reshape(-1))
        if any(isinstance(e, SymBool) for e in els):
            zs = []
            for e in els:
                b = SymBool.lift(e)
                if b is None:
                    raise HarnessError(f'numpy.all over non-boolean object {e!r}')
                zs.append(b.z)
            return SymBool(z3.And(*zs)) if zs else True
    return numpy.all(x, *a, **k)


def np_nditer(op, flags=None, *a, **k):
    if _objarr(op):
        flags = list(flags or [])
        if 'refs_ok' not in flags:
            flags.append('refs_ok')
    return numpy.nditer(op, flags, *a, **k)


def _nan_reduce(els, pick):
    """min/max ignoring NaN over a list of SymReal-liftable scalars.
    Forks only on the NaN flags; the comparison itself is an ite chain."""
    vals = []
    for e in els:
        r = SymReal.lift(e)
        if r is None:
            raise HarnessError(f'nanmin/nanmax over {e!r}')
        if not _isnan_el(r):
            vals.append(r.v)
    if not vals:
        return SymReal(z3.RealVal(0), z3.BoolVal(True))
    acc = vals[0]
    for v in vals[1:]:
        acc = z3.If(pick(v, acc), v, acc)
    return SymReal(acc)


def np_nanmin(x, *a, **k):
    arr = x.values if hasattr(x, 'values') and not isinstance(x, numpy.ndarray) else x
    if _objarr(numpy.asarray(arr, dtype=object)) and has_sym(arr) and not a and not k:
        return _nan_reduce(list(numpy.asarray(arr, dtype=object).reshape(-1)), lambda v, acc: v < acc)
    if isinstance(arr, numpy.ndarray) and arr.dtype == object:
        x = arr.astype(float)        # an object array that holds plain floats only (e.g. every value missing)
    return numpy.nanmin(x, *a, **k)


def np_nanmax(x, *a, **k):
    arr = x.values if hasattr(x, 'values') and not isinstance(x, numpy.ndarray) else x
    if _objarr(numpy.asarray(arr, dtype=object)) and has_sym(arr) and not a and not k:
        return _nan_reduce(list(numpy.asarray(arr, dtype=object).reshape(-1)), lambda v, acc: v > acc)
    if isinstance(arr, numpy.ndarray) and arr.dtype == object:
        x = arr.astype(float)        # an object array that holds plain floats only (e.g. every value missing)
    return numpy.nanmax(x, *a, **k)


def np_nanmean(x, axis=None, **k):
    """numpy.nanmean contract: mean of the non-NaN entries along `axis`;
    NaN where every entry is NaN."""
    arr = numpy.asarray(x, dtype=object) if isinstance(x, (list, tuple)) else x
    if _objarr(arr) and has_sym(arr):
        if axis != 0 or k:
            raise HarnessError('nanmean stub only models axis=0')
        out = numpy.empty(arr.shape[1:], dtype=object)
        for idx in numpy.ndindex(*arr.shape[1:]):
            vals = []
            for j in range(arr.shape[0]):
                r = SymReal.lift(arr[(j,) + idx])
                if not _isnan_el(r):
                    vals.append(r.v)
            if vals:
                out[idx] = SymReal(z3.Sum(*vals) / len(vals) if len(vals) > 1 else vals[0])
            else:
                out[idx] = SymReal(z3.RealVal(0), z3.BoolVal(True))
        return out
    return numpy.nanmean(x, axis=axis, **k)


def np_ravel_multi_index(multi_index, dims, mode='raise', order='C'):
    """Contract from the numpy documentation, honouring mode and order."""
    if not any(isinstance(i, SymInt) for i in multi_index):
        return numpy.ravel_multi_index(multi_index, dims, mode=mode, order=order)
    dims = [int(d) for d in dims]
    if len(multi_index) != len(dims):
        raise ValueError('parameter multi_index must be a sequence of length %d' % len(dims))
    modes = [mode] * len(dims) if isinstance(mode, str) else list(mode)
    idx = []
    c = ctx()
    for i, d, m in zip(multi_index, dims, modes):
        i = SymInt.lift(i)
        if i is None:
            raise TypeError('only int indices permitted')
        if m == 'raise':
            if not c.decide(z3.And(i.z >= 0, i.z < d)):
                raise ValueError('invalid entry in coordinates array')
            idx.append(i.z)
        elif m == 'wrap':
            idx.append(i.z % d)
        elif m == 'clip':
            idx.append(z3.If(i.z < 0, 0, z3.If(i.z >= d, d - 1, i.z)))
        else:
            raise ValueError('bad mode')
    if order == 'F':
        idx, dims = idx[::-1], dims[::-1]
    elif order != 'C':
        raise ValueError('bad order')
    acc = z3.IntVal(0)
    for i, d in zip(idx, dims):
        acc = acc * d + i
    return SymInt(z3.simplify(acc))


def np_unravel_index(indices, shape, order='C'):
    if not isinstance(indices, SymInt):
        return numpy.unravel_index(indices, shape, order=order)
    shape = [int(d) for d in shape]
    size = 1
    for d in shape:
        size *= d
    c = ctx()
    if not c.decide(z3.And(indices.z >= 0, indices.z < size)):
        raise ValueError('index out of bounds for array')
    dims = shape if order == 'C' else shape[::-1]
    out = []
    rest = indices.z
    for d in reversed(dims):
        out.append(SymInt(rest % d))
        rest = rest / d
    out = out[::-1]
    if order == 'F':
        out = out[::-1]
    elif order != 'C':
        raise ValueError('bad order')
    return tuple(out)


def np_prod(x, *a, **k):
    return numpy.prod(x, *a, **k)


NUMPY_OVERRIDES = dict(
    isnan=np_isnan, isfinite=np_isfinite, any=np_any, all=np_all, nditer=np_nditer,
    nanmin=np_nanmin, nanmax=np_nanmax, nanmean=np_nanmean,
    ravel_multi_index=np_ravel_multi_index, unravel_index=np_unravel_index,
)


def numpy_proxy(**extra):
    over = dict(NUMPY_OVERRIDES)
    over.update(extra)
    return Proxy(numpy, over)


def conformance_ravel():
    """Stub conformance: the ravel/unravel contracts equal real numpy on small domains."""
    from .core import SymCtx, set_ctx, Stats
    n = 0
    for shape in [(1,), (3,), (2, 3), (3, 1), (1, 4), (2, 2)]:
        size = int(numpy.prod(shape))
        for mode in ('raise', 'wrap', 'clip'):
            for order in ('C', 'F'):
                for idx in itertools.product(*[range(-2, d + 2) for d in shape]):
                    try:
                        real = int(numpy.ravel_multi_index(idx, shape, mode=mode, order=order))
                    except ValueError:
                        real = 'ValueError'
                    c = SymCtx()
                    set_ctx(c)
                    try:
                        syms = tuple(SymInt(z3.IntVal(i) + z3.Int('zero')) for i in idx)
                        c.solver.add(z3.Int('zero') == 0)
                        try:
                            got = np_ravel_multi_index(syms, shape, mode=mode, order=order)
                            got = c.solver.check() and c.solver.model().eval(got.z, model_completion=True).as_long()
                        except ValueError:
                            got = 'ValueError'
                    finally:
                        set_ctx(None)
                    if got != real:
                        raise HarnessError(f'ravel_multi_index stub disagrees with numpy: {idx} {shape} {mode} {order}: {got} != {real}')
                    n += 1
        for order in ('C', 'F'):
            for lin in range(-2, size + 2):
                try:
                    real = tuple(int(v) for v in numpy.unravel_index(lin, shape, order=order))
                except ValueError:
                    real = 'ValueError'
                c = SymCtx()
                set_ctx(c)
                try:
                    c.solver.add(z3.Int('zero') == 0)
                    try:
                        got = np_unravel_index(SymInt(z3.IntVal(lin) + z3.Int('zero')), shape, order=order)
                        c.solver.check()
                        m = c.solver.model()
                        got = tuple(m.eval(g.z, model_completion=True).as_long() for g in got)
                    except ValueError:
                        got = 'ValueError'
                finally:
                    set_ctx(None)
                if got != real:
                    raise HarnessError(f'unravel_index stub disagrees with numpy: {lin} {shape} {order}: {got} != {real}')
                n += 1
    return n
