"""Translate a compiled Python regular expression into a z3 regular expression
(ASCII alphabet), from the parse tree of its *current* pattern."""
from __future__ import annotations

try:
    import re._parser as sre_parse
    import re._constants as sre_c
except ImportError:  # pragma: no cover
    import sre_parse
    import sre_constants as sre_c

import z3

from .core import HarnessError

STR = z3.StringSort()
RE = z3.ReSort(STR)

ASCII_WS = ' \t\n\r\x0b\x0c'


def _chars(chars):
    parts = [z3.Re(c) for c in chars]
    return z3.Union(*parts) if len(parts) > 1 else parts[0]


def any_ascii():
    return z3.Range(chr(0), chr(127))


def category(cat):
    name = str(cat)
    if name.endswith('CATEGORY_DIGIT'):
        return z3.Range('0', '9')
    if name.endswith('CATEGORY_NOT_DIGIT'):
        return z3.Intersect(any_ascii(), z3.Complement(z3.Range('0', '9')))
    if name.endswith('CATEGORY_SPACE'):
        return _chars(ASCII_WS)
    if name.endswith('CATEGORY_NOT_SPACE'):
        return z3.Intersect(any_ascii(), z3.Complement(_chars(ASCII_WS)))
    if name.endswith('CATEGORY_WORD'):
        return z3.Union(z3.Range('0', '9'), z3.Range('a', 'z'), z3.Range('A', 'Z'), z3.Re('_'))
    raise HarnessError(f'regex category {name} not modelled')


def translate(parsed):
    """parsed: re._parser.SubPattern (or list of (op, arg))."""
    parts = []
    for op, arg in parsed:
        name = str(op)
        if name == 'LITERAL':
            if arg > 127:
                raise HarnessError('non-ASCII literal in pattern')
            parts.append(z3.Re(chr(arg)))
        elif name == 'NOT_LITERAL':
            parts.append(z3.Intersect(any_ascii(), z3.Complement(z3.Re(chr(arg)))))
        elif name == 'ANY':
            parts.append(z3.Intersect(any_ascii(), z3.Complement(z3.Re('\n'))))
        elif name == 'IN':
            negate = False
            alts = []
            for iop, iarg in arg:
                iname = str(iop)
                if iname == 'NEGATE':
                    negate = True
                elif iname == 'LITERAL':
                    alts.append(z3.Re(chr(iarg)))
                elif iname == 'RANGE':
                    alts.append(z3.Range(chr(iarg[0]), chr(min(iarg[1], 127))))
                elif iname == 'CATEGORY':
                    alts.append(category(iarg))
                else:
                    raise HarnessError(f'regex set item {iname} not modelled')
            u = z3.Union(*alts) if len(alts) > 1 else alts[0]
            parts.append(z3.Intersect(any_ascii(), z3.Complement(u)) if negate else u)
        elif name in ('MAX_REPEAT', 'MIN_REPEAT', 'POSSESSIVE_REPEAT'):
            lo, hi, sub = arg
            inner = translate(sub)
            if hi == sre_c.MAXREPEAT:
                if lo == 0:
                    parts.append(z3.Star(inner))
                elif lo == 1:
                    parts.append(z3.Plus(inner))
                else:
                    parts.append(z3.Concat(z3.Loop(inner, lo, lo), z3.Star(inner)))
            else:
                parts.append(z3.Option(inner) if (lo, hi) == (0, 1) else z3.Loop(inner, lo, hi))
        elif name == 'SUBPATTERN':
            parts.append(translate(arg[3]))
        elif name == 'BRANCH':
            alts = [translate(a) for a in arg[1]]
            parts.append(z3.Union(*alts) if len(alts) > 1 else alts[0])
        elif name == 'AT':
            an = str(arg)
            if an.endswith('AT_BEGINNING') or an.endswith('AT_BEGINNING_STRING'):
                if parts:
                    raise HarnessError('anchor ^ in the middle of a pattern not modelled')
                parts.append(z3.Re(''))
            elif an.endswith('AT_END') or an.endswith('AT_END_STRING'):
                parts.append(('END',))
            else:
                raise HarnessError(f'regex anchor {an} not modelled')
        else:
            raise HarnessError(f'regex construct {name} not modelled')
    # an END anchor is only supported in last position ($ also allows a trailing newline)
    out = []
    for i, p in enumerate(parts):
        if isinstance(p, tuple):
            if i != len(parts) - 1:
                raise HarnessError('anchor $ in the middle of a pattern not modelled')
            out.append(('END',))
        else:
            out.append(p)
    ended = bool(out) and isinstance(out[-1], tuple)
    if ended:
        out = out[:-1]
    r = z3.Concat(*out) if len(out) > 1 else (out[0] if out else z3.Re(''))
    if ended:
        r = ('ANCHORED_END', r)
    return r


def accepted_language(compiled, method):
    """Language of strings s for which compiled.<method>(s) is not None (ASCII)."""
    if compiled.flags & ~(32 | 0):   # re.UNICODE is the default flag (32)
        raise HarnessError(f'regex flags {compiled.flags} not modelled')
    r = translate(sre_parse.parse(compiled.pattern))
    anchored_end = isinstance(r, tuple)
    if anchored_end:
        r = r[1]
    anything = z3.Star(any_ascii())
    if method == 'fullmatch':
        return r
    if method == 'match':
        return r if anchored_end else z3.Concat(r, anything)
    if method == 'search':
        return z3.Concat(anything, r) if anchored_end else z3.Concat(anything, r, anything)
    raise HarnessError(f'unknown regex method {method}')
