"""
"In whatever process": run one concrete scenario of the real library in fresh interpreters under several process
environments (hash seeds, time zones, locales, numpy print options ...) and compare what comes out.

A scenario is a function in harness/scenarios.py returning something JSON can hold.  The property says the result is
a function of the dataset alone, so every environment must give what the reference environment gives (and the
caller checks the reference result against its own expectation).
"""
import json
import os
import subprocess
import sys
from concurrent.futures import ThreadPoolExecutor

VERIF = os.path.dirname(os.path.dirname(os.path.abspath(__file__)))

ENVIRONMENTS = (
    [dict(PYTHONHASHSEED=str(s)) for s in (0, 1, 2, 3, 5, 8, 11, 13)] +
    [dict(PYTHONHASHSEED='0', TZ='Australia/Hobart'), dict(PYTHONHASHSEED='4', TZ='America/St_Johns'),
     dict(PYTHONHASHSEED='0', LANG='de_DE.UTF-8', LC_ALL='de_DE.UTF-8'), dict(PYTHONHASHSEED='0', SCENARIO_TWEAK='printoptions'),
     dict(PYTHONHASHSEED='0', SCENARIO_TWEAK='keep_attrs_false')]
    # (warnings turned into errors are not among them: with the installed numpy 2.5 / netCDF4 pair every netCDF write
    #  raises a DeprecationWarning from inside netCDF4 - the reason 25 tests of the repository fail in this sandbox)
)

_CHILD = r'''
import json, os, sys, warnings
sys.path.insert(0, {verif!r}); sys.path.insert(0, {repo_src!r}); sys.path.append({deps!r})
tweak = os.environ.get('SCENARIO_TWEAK')
import numpy, xarray
if tweak == 'printoptions':
    numpy.set_printoptions(precision=2, threshold=5, edgeitems=1)
if tweak == 'keep_attrs_false':
    xarray.set_options(keep_attrs=False)
warnings.simplefilter('ignore')
import dask
dask.config.set(scheduler='synchronous')
import harness.scenarios as S
try:
    out = dict(ok=True, value=getattr(S, {name!r})())
except BaseException as e:
    out = dict(ok=False, value=type(e).__name__ + ': ' + str(e)[:300])
print('@@RESULT@@' + json.dumps(out, sort_keys=True, default=str))
'''


def run_scenario(name, environments=ENVIRONMENTS, timeout=300):
    """Returns [(environment, result)]; result = dict(ok=bool, value=...)."""
    import emsarray
    repo_src = os.path.dirname(os.path.dirname(os.path.abspath(emsarray.__file__)))
    code = _CHILD.format(verif=VERIF, repo_src=repo_src, deps=os.path.join(VERIF, '.deps'), name=name)

    def one(envx):
        env = dict(os.environ)
        env.pop('SCENARIO_TWEAK', None)
        env.update(TZ='UTC', MPLBACKEND='Agg', PYTHONDONTWRITEBYTECODE='1')
        env.update(envx)
        try:
            p = subprocess.run([sys.executable, '-c', code], env=env, capture_output=True, text=True, timeout=timeout)
        except subprocess.TimeoutExpired:
            return envx, dict(ok=False, value='timeout')
        for line in p.stdout.splitlines():
            if line.startswith('@@RESULT@@'):
                return envx, json.loads(line[len('@@RESULT@@'):])
        return envx, dict(ok=False, value=f'no result (exit {p.returncode}): {p.stderr[-400:]}')
    with ThreadPoolExecutor(max_workers=8) as ex:
        return list(ex.map(one, environments))


def check_scenario(name, prop_label, expect=None, environments=ENVIRONMENTS):
    """-> (violations, note).  `expect(value) -> bool` judges the reference result; all environments must agree with it."""
    results = run_scenario(name, environments)
    ref_env, ref = results[0]
    viol = []

    def V(label, detail, env):
        viol.append(dict(case=f'process-environment:{name}', label=label, inputs=dict(environment=env), detail=str(detail)[:1200],
                         how='the same scenario run in fresh interpreters under different process environments'))
    if not ref['ok']:
        V(prop_label, f'reference environment failed: {ref["value"]}', ref_env)
        return viol, f'{name}: failed'
    if expect is not None and not expect(ref['value']):
        V(prop_label, f'unexpected result in the reference environment: {json.dumps(ref["value"])[:800]}', ref_env)
    for envx, r in results[1:]:
        if r != ref:
            V(f'{prop_label} - in whatever process it is computed', f'{json.dumps(r)[:500]} != {json.dumps(ref)[:500]}', envx)
            break
    return viol, f'{name}: {len(results)} environments'


def late(specs, only=None):
    """specs: [(scenario name, label, expect or None)] -> a late_checks callable for runner.main_run (None when a
    development run is restricted to some cases)."""
    if only:
        return None

    def run():
        viol, notes = [], []
        for name, label, expect in specs:
            v, note = check_scenario(name, label, expect)
            viol += v
            notes.append(note)
        return viol, [], dict(process_environments=notes)
    return run
