"""
"The operation left its input alone": snapshot a dataset before the code under test runs, compare after.

Works on datasets whose arrays hold z3-backed scalars (object arrays: element-wise `same`, the result may be a
symbolic condition) and on ordinary numeric arrays (bit-for-bit, NaN == NaN).  The snapshot copies the arrays, so
an in-place update of the dataset's own buffers (`values -= start_index`, `values *= -1`,
`masked_invalid(values, copy=False)` ...) shows up as a difference.
"""
import numpy

from .core import And, same


def _copy(values):
    a = numpy.asarray(values)
    if isinstance(a, numpy.ma.MaskedArray):
        return numpy.ma.array(a, copy=True)
    return numpy.array(a, copy=True)


def snapshot(dataset):
    snap = {}
    for name, var in dataset.variables.items():
        snap[name] = (tuple(var.dims), _copy(var.values), dict(var.attrs),
                      {k: v for k, v in var.encoding.items()})
    return {'vars': snap, 'attrs': dict(dataset.attrs), 'coords': set(dataset.coords)}


def _attrs_equal(a, b):
    if set(a) != set(b):
        return False
    for k in a:
        x, y = a[k], b[k]
        try:
            if isinstance(x, numpy.ndarray) or isinstance(y, numpy.ndarray):
                if not numpy.array_equal(numpy.asarray(x), numpy.asarray(y)):
                    return False
            elif not (x == y or (x != x and y != y)):
                return False
        except Exception:
            return False
    return True


def _values_same(old, new):
    old, new = numpy.asarray(old), numpy.asarray(new)
    if old.shape != new.shape:
        return False
    if old.dtype != new.dtype:
        return False
    if old.dtype == object:
        conds = []
        for x, y in zip(old.ravel(), new.ravel()):
            if x is y:
                continue
            if x is None or y is None:
                return False
            conds.append(same(x, y))
        return And(*conds) if conds else True
    if old.dtype.kind in 'fc':
        return bool(numpy.array_equal(old, new, equal_nan=True))
    return bool(numpy.array_equal(old, new))


def unchanged(dataset, snap, what=('values', 'dims', 'attrs', 'encoding', 'names')):
    """Condition (bool or SymBool): `dataset` still is what `snapshot` saw."""
    conds = []
    if 'names' in what:
        if set(dataset.variables) != set(snap['vars']) or set(dataset.coords) != snap['coords']:
            return False
        if not _attrs_equal(dataset.attrs, snap['attrs']):
            return False
    for name, (dims, values, attrs, encoding) in snap['vars'].items():
        if name not in dataset.variables:
            return False
        var = dataset.variables[name]
        if 'dims' in what and tuple(var.dims) != dims:
            return False
        if 'attrs' in what and not _attrs_equal(dict(var.attrs), attrs):
            return False
        if 'encoding' in what and not _attrs_equal(dict(var.encoding), encoding):
            return False
        if 'values' in what:
            c = _values_same(values, var.values)
            if c is False:
                return False
            if c is not True:
                conds.append(c)
    return And(*conds) if conds else True
