"""Entry point: symx/cli.py <ID> [--tier quick|thorough] [--replay file]."""
import argparse
import importlib
import os
import subprocess
import sys

VERIF = os.path.dirname(os.path.dirname(os.path.abspath(__file__)))


def main():
    ap = argparse.ArgumentParser()
    ap.add_argument('prop')
    ap.add_argument('--tier', default=os.environ.get('VERIF_TIER', 'quick'), choices=['quick', 'thorough'])
    ap.add_argument('--replay')
    ap.add_argument('--procs', type=int, default=None)
    ap.add_argument('--only', default=None, help='regex on case names (debugging)')
    args = ap.parse_args()

    if not os.path.isdir(os.path.join(VERIF, '.deps', 'z3')):
        subprocess.check_call([os.path.join(VERIF, 'bin', 'setup')])
    # solver stack goes last so that it never shadows the repository's own environment
    sys.path.append(os.path.join(VERIF, '.deps'))
    sys.path.insert(0, VERIF)
    # the code under test always comes from the working tree
    # (SYMX_DEV_REPO: development aid only - points the run at a scratch worktree and, together with SYMX_DEV_OUT,
    # keeps its evidence / replay files out of /verif; no registered command sets it)
    repo_src = os.path.join(os.environ.get('SYMX_DEV_REPO', '/repo'), 'src')
    sys.path.insert(0, repo_src)
    import emsarray
    if not os.path.abspath(emsarray.__file__).startswith(repo_src + '/'):
        print(f'emsarray imported from {emsarray.__file__}, not {repo_src}', file=sys.stderr)
        sys.exit(2)
    # netCDF4/HDF5 is not thread safe and emsarray reads multi-file datasets with lock=False;
    # like the repository's own test-suite (tests/conftest.py: disable_dask_threads) every check
    # runs dask synchronously so that file-based witness replays are deterministic.
    import dask
    dask.config.set(scheduler='synchronous')
    seed = int(os.environ.get('VERIF_SEED', '0') or 0)
    mod = importlib.import_module(f'harness.{args.prop.lower()}')
    try:
        code = mod.run(tier=args.tier, seed=seed, replay=args.replay, procs=args.procs, only=args.only)
    except SystemExit:
        raise
    except BaseException as e:  # harness crash: never a verdict
        import traceback
        traceback.print_exc()
        print(f'HARNESS-ERROR: {type(e).__name__}: {e}', file=sys.stderr)
        code = 2
    sys.stdout.flush()
    sys.exit(code)


if __name__ == '__main__':
    main()
