"""Path explorer, parallel runner, evidence / replay / known-finding plumbing."""
from __future__ import annotations

import contextlib
import hashlib
import inspect
import json
import multiprocessing
import os
import re
import sys
import time
import traceback
import warnings

from . import core
from .core import (
    ConCtx, ConcreteViolation, Counterexample, HarnessError, PathAbort, Stats,
    SymCtx, set_ctx,
)

VERIF = os.path.dirname(os.path.dirname(os.path.abspath(__file__)))
OUT = os.environ.get('SYMX_DEV_OUT', VERIF)     # evidence / replays (development runs against a scratch worktree write elsewhere)
EXIT_OK, EXIT_VIOLATION, EXIT_HARNESS = 0, 1, 2


class Case:
    """One enumerated configuration: a body explored over all symbolic paths.

    body(ctx, **params) runs in both symbolic and concrete mode.
    patches: callable returning a context manager, applied in symbolic mode only.
    validate: replay a witness of every completed path on the unmodified stack.
    """

    def __init__(self, name, body, params=None, patches=None, validate=True,
                 max_paths=200000, split=0, twin=True, solver='default'):
        self.solver = solver
        self.name = name
        self.body = body
        self.params = params or {}
        self.patches = patches
        self.validate = validate
        self.max_paths = max_paths
        self.split = split
        self.twin = twin


@contextlib.contextmanager
def _nullctx():
    yield


LAST_SOFT = []

PATH_TIMEOUT = float(os.environ.get('SYMX_PATH_TIMEOUT', '240'))       # one symbolic path (each solver call has its own limit)
REPLAY_TIMEOUT = float(os.environ.get('SYMX_REPLAY_TIMEOUT', '120'))   # one concrete run of a harness body on the real stack


class DidNotTerminate(Exception):
    """The code under test was still running when the watchdog fired (bodies are small: this means a loop
    that does not end, and is reported like any other exception - after it reproduced on the real stack)."""


@contextlib.contextmanager
def _watchdog(seconds, what):
    import signal
    import threading
    if threading.current_thread() is not threading.main_thread() or not hasattr(signal, 'setitimer'):
        yield
        return

    def fire(signum, frame):
        raise DidNotTerminate(f'{what} still running after {seconds:.0f} s')
    old = signal.signal(signal.SIGALRM, fire)
    signal.setitimer(signal.ITIMER_REAL, seconds)
    try:
        yield
    finally:
        signal.setitimer(signal.ITIMER_REAL, 0)
        signal.signal(signal.SIGALRM, old)


def run_concrete(case, inputs, want_label=None):
    """Run the body on the unmodified stack. Returns (ok, label, detail)."""
    c = ConCtx(inputs)
    set_ctx(None)
    try:
        with warnings.catch_warnings(), _watchdog(REPLAY_TIMEOUT, 'the harness body on the real stack'):
            warnings.simplefilter('ignore')
            case.body(c, **case.params)
        global LAST_SOFT
        LAST_SOFT = list(dict.fromkeys(c.soft))
        if c.soft:
            label = want_label if want_label in c.soft else c.soft[0]
            return False, label, 'soft check failed; all failing soft checks: ' + '; '.join(LAST_SOFT)
        return True, None, ''
    except ConcreteViolation as v:
        return False, v.label, v.detail
    except HarnessError:
        raise
    except Exception as e:  # the real code crashed on a concrete valid input
        tb = traceback.format_exc(limit=6)
        return False, f'exception:{type(e).__name__}', f'{e}\n{tb}'


def run_path(case, prefix, stats, probe=False):
    """Execute one symbolic path.  Returns (ctx, outcome) where outcome is
    ('ok', None) | ('abort', msg) | ('cex', Counterexample) | ('exc', Exception)."""
    core.SOLVER_KIND = getattr(case, 'solver', 'default')
    c = SymCtx(prefix, stats)
    set_ctx(c)
    patches = case.patches() if case.patches else _nullctx()
    try:
        with patches, warnings.catch_warnings(), _watchdog(PATH_TIMEOUT, 'one symbolic path'):
            warnings.simplefilter('ignore')
            case.body(c, **case.params)
        out = ('ok', None)
    except PathAbort as a:
        out = ('abort', str(a))
    except Counterexample as ce:
        out = ('cex', ce)
    except HarnessError:
        raise
    except Exception as e:
        out = ('exc', (e, traceback.format_exc(limit=8)))
    finally:
        set_ctx(None)
    return c, out


def explore(case, roots=((),), deadline=None, budget=None):
    stats = Stats()
    res = dict(case=case.name, paths=0, aborted=0, validated=0, violations=[],
               errors=[], samples=[], labels=set())
    stack = [list(r) for r in roots]
    seen_viol = set()
    done = 0
    while stack:
        if budget is not None and done >= budget:
            break
        prefix = stack.pop()
        done += 1
        if res['paths'] >= case.max_paths:
            res['errors'].append(f'{case.name}: path bound {case.max_paths} exceeded')
            break
        if deadline and time.time() > deadline:
            res['errors'].append(f'{case.name}: time budget exceeded')
            break
        try:
            c, (kind, payload) = run_path(case, prefix, stats)
        except HarnessError as e:
            res['errors'].append(f'{case.name}: {e}')
            continue
        stack.extend(c.forks)
        # counterexamples of soft checks are replayed like any other, the path itself goes on
        for ce in getattr(c, 'soft', []):
            try:
                ok, label, detail = run_concrete(case, ce.inputs, want_label=ce.label)
                res['validated'] += 1
                if ok:
                    res['errors'].append(f'{case.name}: solver counterexample for {ce.label!r} does not reproduce on the real stack: '
                                         f'{json.dumps(ce.inputs)[:300]}')
                else:
                    _add_violation(res, seen_viol, case, label, ce.inputs, detail, f'solver counterexample for {ce.label!r}')
            except HarnessError as e:
                res['errors'].append(f'{case.name}: {e}')
        if kind == 'abort':
            res['aborted'] += 1
            continue
        res['paths'] += 1
        res['labels'].update(c.labels)
        try:
            if kind == 'ok':
                if case.validate:
                    w = c.witness()
                    ok, label, detail = run_concrete(case, w)
                    res['validated'] += 1
                    if not ok:
                        for lb in ([label] + [x for x in LAST_SOFT if x != label] if detail.startswith('soft check failed') else [label]):
                            _add_violation(res, seen_viol, case, lb, w, detail,
                                           'witness of a path the solver passed fails on the real stack')
                    if len(res['samples']) < 2:
                        res['samples'].append(dict(case=case.name, decisions=len(c.decisions),
                                                   witness=w, notes=c.notes))
                elif len(res['samples']) < 2:
                    res['samples'].append(dict(case=case.name, decisions=len(c.decisions), notes=c.notes))
            elif kind == 'cex':
                ce = payload
                ok, label, detail = run_concrete(case, ce.inputs)
                res['validated'] += 1
                if ok:
                    res['errors'].append(
                        f'{case.name}: solver counterexample for {ce.label!r} does not reproduce '
                        f'on the real stack (encoding or stub wrong): {json.dumps(ce.inputs)[:400]}')
                else:
                    _add_violation(res, seen_viol, case, label, ce.inputs, detail,
                                   f'solver counterexample for {ce.label!r}')
            elif kind == 'exc':
                e, tb = payload
                w = c.witness()
                ok, label, detail = run_concrete(case, w)
                res['validated'] += 1
                if isinstance(e, DidNotTerminate):
                    stack.clear()       # do not sit through the same endless loop on every remaining path of this case
                if ok:
                    res['errors'].append(
                        f'{case.name}: {type(e).__name__} on a symbolic path does not reproduce '
                        f'concretely: {e}\n{tb}')
                else:
                    _add_violation(res, seen_viol, case, label, w, detail,
                                   f'{type(e).__name__} on a symbolic path: {e}')
        except HarnessError as e:
            res['errors'].append(f'{case.name}: {e}')
        except PathAbort:
            res['aborted'] += 1
    res['remaining'] = stack if (budget is not None and stack) else []
    res['decisions'] = stats.decisions
    res['queries'] = stats.queries
    res['solver_time'] = stats.solver_time
    res['obligations'] = stats.obligations
    res['labels'] = sorted(res['labels'])
    return res


def _add_violation(res, seen, case, label, inputs, detail, how):
    key = (case.name, label)
    if key in seen and len(res['violations']) >= 3:
        return
    seen.add(key)
    res['violations'].append(dict(case=case.name, label=label, inputs=inputs,
                                  detail=detail[:2000], how=how))


def split_roots(case, target):
    """Breadth-first expansion of the decision tree into >= target sub-trees."""
    # The sub-tree under prefix p = the single path run with p (a leaf, named
    # by its full decision list) + the sub-trees under each fork it found.
    frontier = [[]]
    leaves = []
    stats = Stats()
    while frontier and len(frontier) + len(leaves) < target:
        p = frontier.pop(0)
        c, _ = run_path(case, p, stats)
        leaves.append(list(c.decisions))
        frontier.extend(c.forks)
    return frontier + leaves


def _iso_child(fn, conn):
    try:
        conn.send(('ok', fn()))
    except BaseException as e:      # noqa
        conn.send(('exc', f'{type(e).__name__}: {e}\n{traceback.format_exc(limit=8)}'))
    finally:
        conn.close()


def run_isolated(fn, attempts=3):
    """Run fn() in a forked child (netCDF/HDF5/GEOS state never leaks into or out of it).
    A child that dies abnormally (a crash inside a C library) is retried; it is never a verdict."""
    mp = multiprocessing.get_context('fork')
    last = ''
    for k in range(attempts):
        parent, child = mp.Pipe(duplex=False)
        pr = mp.Process(target=_iso_child, args=(fn, child))
        pr.start()
        child.close()
        res = None
        try:
            if parent.poll(3000):
                res = parent.recv()
        except EOFError:
            res = None
        pr.join(30)
        if pr.is_alive():
            pr.kill()
        if res is not None and res[0] == 'ok':
            return res[1]
        last = res[1] if res else f'child exited with code {pr.exitcode}'
        print(f'[runner] isolated step failed (attempt {k + 1}): {last[:300]}', file=sys.stderr)
    return [], [f'file-based checks could not be completed: {last[:500]}'], {}


BUDGET = 150      # paths explored per task of a splittable case before the rest of its stack is handed back


def _requeue(r, pending, deadline, cases, per_case_paths, errors):
    """work sharing: the unexplored prefixes of a task come back and are spread over the pool"""
    idx = r.get('idx')
    if idx is None:
        return
    per_case_paths[idx] += r['paths']
    rem = r.get('remaining') or []
    if not rem:
        return
    if per_case_paths[idx] > cases[idx].max_paths:
        errors.append(f'{cases[idx].name}: path bound {cases[idx].max_paths} exceeded')
        return
    k = max(1, min(8, len(rem)))
    for j in range(k):
        chunk = rem[j::k]
        if chunk:
            pending.append((idx, chunk, deadline, BUDGET))


_CASES = []


def _work(task):
    idx, roots, deadline, budget = task
    case = _CASES[idx]
    t = time.time()
    try:
        r = explore(case, roots, deadline, budget)
    except BaseException as e:  # never lose a worker silently
        r = dict(case=case.name, paths=0, aborted=0, validated=0, violations=[],
                 errors=[f'{case.name}: worker crashed: {type(e).__name__}: {e}\n{traceback.format_exc(limit=8)}'],
                 samples=[], labels=[], decisions=0, queries=0, solver_time=0.0, obligations=0, remaining=[])
    r['wall'] = time.time() - t
    r['idx'] = idx
    return r


def source_fingerprint(objs):
    out = []
    for o in objs:
        try:
            src = inspect.getsource(o)
            name = getattr(o, '__qualname__', getattr(o, '__name__', str(o)))
            mod = getattr(o, '__module__', '')
            out.append(dict(function=f'{mod}.{name}', sha256=hashlib.sha256(src.encode()).hexdigest()[:16]))
        except Exception as e:  # pragma: no cover
            out.append(dict(function=str(o), error=str(e)))
    return out


def load_known(prop):
    path = os.path.join(VERIF, 'known_findings.json')
    if not os.path.exists(path):
        return []
    with open(path) as f:
        data = json.load(f)
    return [k for k in data.get('findings', []) if k.get('property') == prop and k.get('status') == 'known']


def match_known(known, viol):
    for k in known:
        m = k.get('match', {})
        if 'case' in m and not re.search(m['case'], viol['case']):
            continue
        if 'label' in m and not re.search(m['label'], viol['label'] or ''):
            continue
        if 'detail' in m and not re.search(m['detail'], viol.get('detail', '')):
            continue
        return k
    return None


def main_run(prop, tier, cases, *, functions=(), bounds=None, stubs=(), assumptions=(),
             level='model_checking', extra_evidence=None, extra_errors=(), extra_violations=(),
             seed=0, procs=None, time_budget=None, explanation=None, late_checks=None):
    """Run all cases, write evidence, print verdict lines, return exit code."""
    global _CASES
    t0 = time.time()
    cases = list(cases)
    _CASES = cases
    # a run that is still exploring after this long is reported as inconclusive (exit 2) instead of running on:
    # realistic changes to the code can turn linear path conditions into polynomial ones
    if not time_budget:
        time_budget = float(os.environ.get('SYMX_TIME_BUDGET', '900' if tier == 'quick' else '5400'))
    deadline = (t0 + time_budget) if time_budget else None
    pre_errors = []
    import collections
    import random
    pending = collections.deque((i, [[]], deadline, (BUDGET if c.split else None)) for i, c in enumerate(cases))
    if seed:
        tmp = list(pending)
        random.Random(seed).shuffle(tmp)      # the seed only perturbs the order in which cases are explored
        pending = collections.deque(tmp)
    procs = procs or min(16, max(1, len(pending)))
    results = []
    per_case_paths = collections.Counter()
    # once this many reproduced violations that no known finding explains are in hand the verdict is settled:
    # the remaining cases are not explored (never happens on a tree where the property holds)
    stop_after = int(os.environ.get('SYMX_STOP_AFTER', '40'))
    known_now = load_known(prop)
    stop = dict(new=0, stopped=False)

    def _note(r):
        stop['new'] += sum(1 for v in r['violations'] if match_known(known_now, v) is None)
        if stop['new'] >= stop_after and not stop['stopped']:
            stop['stopped'] = True
            pending.clear()
    if pending:
        if procs == 1:
            while pending:
                r = _work(pending.popleft())
                results.append(r)
                _note(r)
                if not stop['stopped']:
                    _requeue(r, pending, deadline, cases, per_case_paths, pre_errors)
        else:
            mp = multiprocessing.get_context('fork')
            with mp.Pool(procs) as pool:
                inflight = []
                while pending or inflight:
                    while pending and len(inflight) < procs * 2:
                        inflight.append(pool.apply_async(_work, (pending.popleft(),)))
                    still = []
                    progressed = False
                    for a in inflight:
                        if a.ready():
                            r = a.get()
                            results.append(r)
                            _note(r)
                            if not stop['stopped']:
                                _requeue(r, pending, deadline, cases, per_case_paths, pre_errors)
                            progressed = True
                        else:
                            still.append(a)
                    inflight = still
                    if not progressed:
                        time.sleep(0.01)

    # checks that touch netCDF/HDF5 files or threads run only after the worker pool has been forked and joined
    if late_checks is not None:
        lv, le, lev = run_isolated(late_checks)
        extra_violations = list(extra_violations) + list(lv)
        extra_errors = list(extra_errors) + list(le)
        extra_evidence = dict(extra_evidence or {}, **(lev or {}))
    agg = dict(paths=0, aborted=0, validated=0, decisions=0, queries=0, solver_time=0.0, obligations=0)
    violations, errors, samples = list(extra_violations), list(extra_errors) + pre_errors, []
    per_case = {}
    for r in results:
        for k in agg:
            agg[k] += r[k]
        violations += r['violations']
        errors += r['errors']
        if len(samples) < 6:
            samples += r['samples'][:1]
        pc = per_case.setdefault(r['case'], dict(paths=0, labels=set()))
        pc['paths'] += r['paths']
        pc['labels'].update(r['labels'])
    # vacuity guard: every case must complete at least one path and state at least one obligation
    for c in ([] if stop['stopped'] else cases):
        pc = per_case.get(c.name)
        if c.twin and (pc is None or pc['paths'] == 0 or not pc['labels']):
            if not any(v['case'] == c.name for v in violations) and not any(e.startswith(c.name + ':') for e in errors):
                errors.append(f'{c.name}: vacuous - no completed path reached a postcondition')

    known = load_known(prop)
    known_hit, new_viol = {}, []
    for v in violations:
        k = match_known(known, v)
        if k is not None:
            known_hit.setdefault(k['id'], (k, []))[1].append(v)
        else:
            new_viol.append(v)

    os.makedirs(os.path.join(OUT, 'replays', prop), exist_ok=True)
    lines = []
    for kid, (k, vs) in known_hit.items():
        lines.append(f"KNOWN-FINDING: property={prop} {k['description']} ({len(vs)} reproduced case(s), e.g. {vs[0]['case']})")
    replay_paths = []
    seen = set()
    # clear stale replay files of earlier runs of this property
    for old in os.listdir(os.path.join(OUT, 'replays', prop)):
        if old.endswith('.json'):
            os.unlink(os.path.join(OUT, 'replays', prop, old))
    per_label = {}
    for v in new_viol:
        key = (v['case'], v['label'])
        if key in seen:
            continue
        seen.add(key)
        per_label[v['label']] = per_label.get(v['label'], 0) + 1
        if per_label[v['label']] > 2 or len(replay_paths) >= 12:
            continue
        digest = hashlib.sha256(json.dumps([v['case'], v['label'], v['inputs']], sort_keys=True).encode()).hexdigest()[:12]
        path = os.path.join(OUT, 'replays', prop, f'{digest}.json')
        with open(path, 'w') as f:
            json.dump(dict(property=prop, case=v['case'], label=v['label'], inputs=v['inputs'],
                           how=v['how'], detail=v['detail']), f, indent=1)
        replay_paths.append(path)
        lines.append(f'VIOLATION property={prop} replay={path}')
        lines.append(f"  case={v['case']} label={v['label']} how={v['how']}")

    wall = time.time() - t0
    cov = dict(
        states=max(agg['paths'], 0),
        transitions=agg['decisions'] + agg['obligations'],
        traces_validated_against_impl=agg['validated'],
        samples=samples or [dict(note='no path sample recorded')],
        cases=len(cases),
        feasible_paths=agg['paths'],
        infeasible_paths_pruned=agg['aborted'],
        branch_decisions=agg['decisions'],
        verdict_queries=agg['obligations'],
        solver_queries=agg['queries'],
        solver_time_s=round(agg['solver_time'], 3),
        unknown=0 if not errors else len(errors),
        functions_encoded=source_fingerprint(functions),
        bounds=bounds or {},
        stubs=list(stubs),
        exhaustive_within_bounds=not errors and not stop['stopped'],
        stopped_early=stop['stopped'],
        known_findings_reproduced=sorted(known_hit),
        harness_errors=errors[:10],
    )
    if explanation:
        cov['explanation'] = explanation
    if extra_evidence:
        cov.update(extra_evidence)
    ev = dict(property_id=prop, tier=tier, seed=seed, level=level, coverage=cov,
              assumptions=list(assumptions), wall_s=round(wall, 2), violations=len(new_viol))
    if cov['states'] < 1:
        cov['states'] = 0
    os.makedirs(os.path.join(OUT, 'evidence'), exist_ok=True)
    with open(os.path.join(OUT, 'evidence', f'{prop}.json'), 'w') as f:
        json.dump(ev, f, indent=1, default=str)

    for ln in lines:
        print(ln)
    print(f'[{prop}/{tier}] cases={len(cases)} paths={agg["paths"]} decisions={agg["decisions"]} '
          f'verdict_queries={agg["obligations"]} solver_queries={agg["queries"]} '
          f'solver_time={agg["solver_time"]:.1f}s validated={agg["validated"]} wall={wall:.1f}s '
          f'violations={len(new_viol)} known={len(known_hit)} errors={len(errors)}')
    for e in errors[:10]:
        print('HARNESS-ERROR:', e, file=sys.stderr)
    if new_viol:
        return EXIT_VIOLATION
    if errors:
        return EXIT_HARNESS
    return EXIT_OK


def replay_file(path, cases):
    with open(path) as f:
        data = json.load(f)
    if str(data.get('case', '')).startswith('process-environment:'):
        # a scenario run in fresh interpreters: run it again under every environment and show what comes out; the
        # result of the reference environment is judged by the full check (bin/check <ID>), differences between
        # environments are judged here
        from . import envsweep
        name = data['case'].split(':', 1)[1]
        results = envsweep.run_scenario(name)
        for envx, r in results:
            print(json.dumps(envx), '->', json.dumps(r)[:600])
        if any(r != results[0][1] for _, r in results[1:]) or not results[0][1]['ok']:
            print(f'VIOLATION property={data["property"]} replay={path}')
            return EXIT_VIOLATION
        print('replay: every environment agrees with the reference environment; run the full check to judge the reference result')
        return EXIT_HARNESS
    by_name = {c.name: c for c in cases}
    case = by_name.get(data['case'])
    if case is None:
        print(f'replay: case {data["case"]!r} not found in this tier', file=sys.stderr)
        return EXIT_HARNESS
    ok, label, detail = run_concrete(case, data['inputs'])
    if ok:
        print(f'replay: property holds on this input ({data["case"]})')
        return EXIT_OK
    print(f'VIOLATION property={data["property"]} replay={path}')
    print(f'  case={data["case"]} label={label}\n  {detail[:1500]}')
    return EXIT_VIOLATION
