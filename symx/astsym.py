"""A small symbolic interpreter for straight-line integer / f-string code, used
to turn a slice of a real function's *current* AST into symbolic values.

Integers are SymInt (z3 Int).  Strings are `Text`: a list of cells, each either
a literal character or a decimal digit whose value is a z3 Int term.  Rendering
an integer forks (through the current symx context) on its sign and on its
number of digits, so every path has text of a known shape.
"""
from __future__ import annotations

import ast

import z3

from .core import HarnessError, SymBool, SymInt, ctx


class Text:
    def __init__(self, cells=()):
        self.cells = list(cells)      # ('lit', ch) | ('digit', z3 Int term) | ('opaque', name)

    @staticmethod
    def lit(s):
        return Text([('lit', c) for c in s])

    def __add__(self, other):
        return Text(self.cells + as_text(other).cells)

    def __radd__(self, other):
        return Text(as_text(other).cells + self.cells)

    def representative(self, digit='7'):
        out = []
        for kind, v in self.cells:
            if kind == 'lit':
                out.append(v)
            elif kind == 'digit':
                out.append(digit)
            else:
                raise HarnessError('opaque cell has no representative')
        return ''.join(out)

    def number(self, start, stop):
        """z3 Int value of the digit cells [start, stop)."""
        acc = z3.IntVal(0)
        for kind, v in self.cells[start:stop]:
            if kind == 'digit':
                acc = acc * 10 + v
            elif kind == 'lit' and v.isdigit():
                acc = acc * 10 + int(v)
            else:
                raise HarnessError('non-digit cell inside a number')
        return acc

    def __repr__(self):
        return 'Text(' + ''.join(v if k == 'lit' else ('#' if k == 'digit' else '{' + v + '}') for k, v in self.cells) + ')'


def as_text(x):
    if isinstance(x, Text):
        return x
    if isinstance(x, str):
        return Text.lit(x)
    raise HarnessError(f'cannot treat {x!r} as text')


def render_int(v, spec):
    """format(v, spec) for a symbolic int: forks on sign and digit count. Supports '', 'd', '+d', '0Nd', '+0Nd', 'Nd'."""
    c = ctx()
    v = SymInt.lift(v)
    sp = spec[:-1] if spec.endswith('d') else spec
    plus = sp.startswith('+')
    if plus:
        sp = sp[1:]
    zero = sp.startswith('0') and len(sp) > 1
    if zero:
        sp = sp[1:]
    width = 0
    if sp:
        if not sp.isdigit():
            raise HarnessError(f'format spec {spec!r} not modelled')
        width = int(sp)
    neg = c.decide(v.z < 0)
    mag = -v.z if neg else v.z
    nd = None
    for k in range(1, 8):
        if c.decide(mag < 10 ** k):
            nd = k
            break
    if nd is None:
        raise HarnessError('integer with more than 7 digits in render_int')
    digits = [('digit', (mag / (10 ** (nd - 1 - k))) % 10) for k in range(nd)]
    sign = [('lit', '-')] if neg else ([('lit', '+')] if plus else [])
    if width and zero:
        pad = max(0, width - len(sign) - nd)
        return Text(sign + [('lit', '0')] * pad + digits)
    cells = sign + digits
    if width and len(cells) < width:
        cells = [('lit', ' ')] * (width - len(cells)) + cells
    return Text(cells)


class Opaque:
    """A value the slice does not compute (a datetime, a period string...). An attribute of it (`.year`) is opaque too
    and reports how it is formatted to its owner, as '{attr:spec}'."""
    def __init__(self, name, owner=None, attr=None):
        self.name = name
        self.formats = []
        self.owner, self.attr = owner, attr


class Interp:
    def __init__(self, env):
        self.env = dict(env)
        self.format_specs = []

    def run(self, stmts):
        for st in stmts:
            if isinstance(st, ast.Assign):
                val = self.eval(st.value)
                for tgt in st.targets:
                    self.assign(tgt, val)
            elif isinstance(st, ast.AnnAssign) and st.value is not None:
                self.assign(st.target, self.eval(st.value))
            elif isinstance(st, ast.Expr):
                continue
            else:
                raise HarnessError(f'statement {type(st).__name__} not modelled in the slice')

    def assign(self, tgt, val):
        if isinstance(tgt, ast.Name):
            self.env[tgt.id] = val
        elif isinstance(tgt, (ast.Tuple, ast.List)):
            if not isinstance(val, tuple) or len(val) != len(tgt.elts):
                raise HarnessError('tuple assignment shape')
            for t, v in zip(tgt.elts, val):
                self.assign(t, v)
        else:
            raise HarnessError(f'assignment target {type(tgt).__name__} not modelled')

    def truth(self, v):
        if isinstance(v, SymBool):
            return bool(v)      # forks
        return bool(v)

    def eval(self, e):
        if isinstance(e, ast.Constant):
            if isinstance(e.value, (bool, int)):
                return e.value
            if isinstance(e.value, str):
                return Text.lit(e.value)
            raise HarnessError(f'constant {e.value!r} not modelled')
        if isinstance(e, ast.Name):
            if e.id not in self.env:
                raise HarnessError(f'name {e.id!r} is not defined in the slice')
            return self.env[e.id]
        if isinstance(e, ast.Subscript):
            key = ast.unparse(e)
            if key in self.env:
                return self.env[key]
            raise HarnessError(f'subscript {key} not modelled')
        if isinstance(e, ast.Tuple):
            return tuple(self.eval(x) for x in e.elts)
        if isinstance(e, ast.UnaryOp):
            v = self.eval(e.operand)
            if isinstance(e.op, ast.USub):
                return -v
            if isinstance(e.op, ast.UAdd):
                return v
            if isinstance(e.op, ast.Not):
                return not self.truth(v)
            raise HarnessError('unary op')
        if isinstance(e, ast.BinOp):
            a, b = self.eval(e.left), self.eval(e.right)
            if isinstance(e.op, ast.Add):
                return a + b
            if isinstance(e.op, ast.Sub):
                return a - b
            if isinstance(e.op, ast.Mult):
                return a * b
            if isinstance(e.op, ast.FloorDiv):
                return a // b
            if isinstance(e.op, ast.Mod):
                return a % b
            raise HarnessError(f'binary op {type(e.op).__name__} not modelled')
        if isinstance(e, ast.BoolOp):
            vals = [self.eval(v) for v in e.values]
            res = None
            for v in vals:
                t = self.truth(v)
                if isinstance(e.op, ast.And) and not t:
                    return False
                if isinstance(e.op, ast.Or) and t:
                    return True
            return isinstance(e.op, ast.And)
        if isinstance(e, ast.Compare):
            if len(e.ops) != 1:
                raise HarnessError('chained comparison')
            a, b = self.eval(e.left), self.eval(e.comparators[0])
            op = type(e.ops[0])
            return {ast.Lt: lambda: a < b, ast.LtE: lambda: a <= b, ast.Gt: lambda: a > b, ast.GtE: lambda: a >= b,
                    ast.Eq: lambda: a == b, ast.NotEq: lambda: a != b}[op]()
        if isinstance(e, ast.IfExp):
            return self.eval(e.body) if self.truth(self.eval(e.test)) else self.eval(e.orelse)
        if isinstance(e, ast.Call):
            fname = ast.unparse(e.func)
            args = [self.eval(a) for a in e.args]
            if fname == 'int' and len(args) == 1:
                return args[0]
            if fname == 'abs' and len(args) == 1:
                return -args[0] if self.truth(args[0] < 0) else args[0]
            if fname == 'divmod' and len(args) == 2:
                return (args[0] // args[1], args[0] % args[1])
            if fname == 'str' and len(args) == 1:
                return render_int(args[0], 'd') if isinstance(args[0], (SymInt, int)) else as_text(args[0])
            raise HarnessError(f'call {fname} not modelled in the slice')
        if isinstance(e, ast.Attribute):
            base = self.eval(e.value)
            if isinstance(base, Opaque) and base.owner is None:
                return Opaque(base.name, owner=base, attr=e.attr)
            raise HarnessError(f'attribute {ast.unparse(e)} not modelled in the slice')
        if isinstance(e, ast.JoinedStr):
            out = Text()
            for v in e.values:
                if isinstance(v, ast.Constant):
                    out = out + Text.lit(v.value)
                elif isinstance(v, ast.FormattedValue):
                    spec = ''
                    if v.format_spec is not None:
                        if not all(isinstance(x, ast.Constant) for x in v.format_spec.values):
                            raise HarnessError('dynamic format spec')
                        spec = ''.join(x.value for x in v.format_spec.values)
                    val = self.eval(v.value)
                    self.format_specs.append((ast.unparse(v.value), spec))
                    if isinstance(val, Opaque) and val.owner is not None:
                        val.owner.formats.append('{%s:%s}' % (val.attr, spec))
                        out = out + Text([('opaque', val.name)])
                    elif isinstance(val, Opaque):
                        val.formats.append(spec)
                        out = out + Text([('opaque', val.name)])
                    elif isinstance(val, Text):
                        if spec:
                            raise HarnessError('format spec on a string')
                        out = out + val
                    elif isinstance(val, (SymInt, int)):
                        out = out + render_int(val, spec)
                    else:
                        raise HarnessError('cannot format this value')
                else:
                    raise HarnessError('f-string piece')
            return out
        raise HarnessError(f'expression {type(e).__name__} not modelled in the slice')
