"""Contracts for the GEOS-backed entry points (shapely), used in symbolic mode.

In concrete (replay) mode none of this is used: the real shapely runs.
"""
from __future__ import annotations

import fractions
import itertools

import numpy
import shapely
import z3

from .core import HarnessError, SymBool, SymInt, SymReal, ctx, is_sym


class SymPoly:
    """What ``shapely.polygons`` would have built: the exterior ring coordinates
    (open ring, as passed in), kept as symbolic terms."""

    def __init__(self, coords):
        self.coords = [tuple(c) for c in coords]

    def __repr__(self):
        return f'SymPoly({len(self.coords)} vertices)'


def poly_coords(p):
    """Open exterior ring of a SymPoly or of a real shapely polygon."""
    if isinstance(p, SymPoly):
        return list(p.coords)
    return [tuple(c) for c in p.exterior.coords[:-1]]


def shapely_polygons(geometries, holes=None, indices=None, out=None, **kwargs):
    """Contract of shapely.polygons(coords, indices=, out=): one polygon per
    row of `coords`; with `indices` and `out`, polygon k is written to
    out[indices[k]] and out is returned."""
    arr = numpy.asarray(geometries, dtype=object) if not isinstance(geometries, numpy.ndarray) else geometries
    if arr.dtype != object:
        return shapely.polygons(geometries, holes=holes, indices=indices, out=out, **kwargs)
    if holes is not None or kwargs:
        raise HarnessError('shapely.polygons stub: holes/kwargs not modelled')
    if arr.ndim != 3 or arr.shape[-1] != 2:
        raise ValueError('shapely.polygons: expected (n, m, 2) coordinates')
    polys = [SymPoly([(row[k, 0], row[k, 1]) for k in range(arr.shape[1])]) for row in arr]
    if indices is None:
        res = numpy.empty(len(polys), dtype=object)
        for k, p in enumerate(polys):
            res[k] = p
        return res
    if out is None:
        raise HarnessError('shapely.polygons stub: indices= without out= not modelled')
    indices = numpy.asarray(indices)
    if len(indices) != len(polys):
        raise ValueError('shapely.polygons: indices length mismatch')
    for k, p in zip(indices, polys):
        out[int(k)] = p
    return out


class StubTree:
    """Contract of shapely.STRtree for query(geometry, predicate=...):
    returns exactly the positions i (into the array the tree was built from)
    with geoms[i] is not None and predicate(geometry, geoms[i]).

    Which cells satisfy each predicate is a symbolic Bool per (predicate, cell);
    the only axioms are  touches => intersects,  contains/within/covers/
    covered_by/overlaps/crosses => intersects.  The report order is a fixed
    non-sorted permutation chosen by `order` (callers that depend on order
    enumerate several).
    """

    IMPLIES_INTERSECTS = ('touches', 'contains', 'within', 'covers', 'covered_by',
                          'overlaps', 'crosses', 'contains_properly')

    def __init__(self, geoms, hit_vars, order='reverse', tag='q'):
        self.geometries = numpy.asarray(geoms, dtype=object)
        self.hit_vars = hit_vars      # {position: SymBool} for 'intersects'
        self.order = order
        self.tag = tag
        self.queries = []
        self._other = {}

    def _var(self, predicate, i):
        if predicate in ('intersects', None):
            return self.hit_vars[i]
        key = (predicate, i)
        if key not in self._other:
            c = ctx()
            v = c.bool(f'{self.tag}_{predicate}_{i}')
            if predicate in self.IMPLIES_INTERSECTS:
                c.solver.add(z3.Implies(v.z, self.hit_vars[i].z))
            self._other[key] = v
        return self._other[key]

    def query(self, geometry, predicate=None, distance=None):
        self.queries.append(predicate)
        hits = []
        for i, g in enumerate(self.geometries):
            if g is None:
                continue
            if isinstance(geometry, SymClip) and geometry.is_empty:
                continue                          # an empty geometry intersects nothing
            if bool(self._var(predicate, i)):     # forks
                hits.append(i)
        if self.order == 'reverse':
            hits = hits[::-1]
        elif self.order == 'rotate' and len(hits) > 1:
            hits = hits[1:] + hits[:1]
        elif isinstance(self.order, (list, tuple)):
            hits = [hits[k] for k in self.order if k < len(hits)] if len(self.order) >= len(hits) else hits[::-1]
        return numpy.array(hits, dtype=numpy.intp)


def realise_hits(polygons, chosen):
    """Concrete geometries whose `intersects` set over `polygons` is exactly
    `chosen` (verified with real GEOS).  Several shapes are returned because the
    real STRtree reports hits in an order that depends on the query geometry."""
    chosen = list(chosen)
    want = set(chosen)
    if not chosen:
        return [shapely.Point(-1000.0, -1000.0)]
    pts = [polygons[n].representative_point() for n in chosen]
    cands = [shapely.MultiPoint(pts), shapely.MultiPoint(pts[::-1])]
    eps = 1e-3
    cands.append(shapely.MultiPolygon([shapely.box(p.x - eps, p.y - eps, p.x + eps, p.y + eps) for p in pts]))
    if len(pts) >= 2:
        cands.append(shapely.LineString([(p.x, p.y) for p in pts]))
        cands.append(shapely.MultiPoint(pts).convex_hull)
        cands.append(shapely.MultiPoint(pts).envelope)
    out = []
    for g in cands:
        got = {n for n, p in enumerate(polygons) if p is not None and p.intersects(g)}
        if got == want:
            out.append(g)
    return out


class SymClip:
    """A clip geometry known only through what it intersects (the hit pattern of the STRtree contract) and
    whether it covers the whole dataset (`covers_all`, a Bool the harness ties to the hits: covering the
    bounding box of the dataset implies intersecting every cell).  Predicates the code under test may ask of it
    directly - covers / contains (of the dataset's box), intersects / disjoint (of one cell polygon) - answer from
    those; anything else is reported as not modelled."""
    geom_type = 'Polygon'

    def __init__(self, polygons, hits, covers_all, areal=True, is_empty=False):
        self.polygons, self.hits, self.covers_all = polygons, hits, covers_all
        self.areal = areal          # Bool: the geometry has an area (polygons) or not (points, lines)
        self.is_empty = is_empty

    def buffer(self, distance, *a, **k):
        if distance != 0:
            raise HarnessError('SymClip.buffer(d != 0) is not modelled')
        # a zero-width buffer returns an areal geometry as it is and turns points and lines into the empty polygon
        if bool(self.areal):
            return self
        return SymClip(self.polygons, [False] * len(self.hits), False, True, is_empty=True)

    def _cell(self, other):
        for n, p in enumerate(self.polygons):
            if p is other and p is not None:
                return n
        return None

    def covers(self, other):
        n = self._cell(other)
        if n is not None:
            raise HarnessError('SymClip.covers(cell) is not modelled')
        return bool(self.covers_all)

    contains = covers
    contains_properly = covers

    def intersects(self, other):
        n = self._cell(other)
        if n is None:
            raise HarnessError('SymClip.intersects of something that is not a cell polygon is not modelled')
        return False if self.is_empty else bool(self.hits[n])

    def disjoint(self, other):
        return not self.intersects(other)

    def __getattr__(self, name):
        raise HarnessError(f'SymClip.{name} is not modelled')


def of_dimension(clips, areal):
    """the realisations of a hit pattern that have an area (boxes, hulls) or that have none (points, lines)"""
    keep = [c for c in clips if (c.area > 0) == bool(areal)]
    return keep or clips


def covering_geometry(polygons):
    """A real geometry that covers the bounding box of every polygon (with room to spare)."""
    bs = numpy.array([p.bounds for p in polygons if p is not None])
    return shapely.box(bs[:, 0].min() - 1.0, bs[:, 1].min() - 1.0, bs[:, 2].max() + 1.0, bs[:, 3].max() + 1.0)


class SymPoint:
    """A query point with symbolic coordinates (stands in for shapely.Point)."""
    geom_type = 'Point'

    def __init__(self, x, y):
        self.x, self.y = x, y

    @property
    def wkt(self):
        return f'POINT ({self.x} {self.y})'


def convex_contains(poly, px, py):
    """Closed point-in-convex-polygon test as a z3 formula (polygon concrete,
    point symbolic): the point is on the inner side of, or on, every edge."""
    import fractions
    ring = [(fractions.Fraction(x), fractions.Fraction(y)) for x, y in poly.exterior.coords[:-1]]
    area2 = sum(a[0] * b[1] - b[0] * a[1] for a, b in zip(ring, ring[1:] + ring[:1]))
    if area2 < 0:
        ring = ring[::-1]
    conds = []
    for a, b in zip(ring, ring[1:] + ring[:1]):
        ex, ey = b[0] - a[0], b[1] - a[1]
        # cross((b-a),(p-a)) >= 0
        conds.append(z3.RealVal(str(ex)) * (py.v - z3.RealVal(str(a[1]))) - z3.RealVal(str(ey)) * (px.v - z3.RealVal(str(a[0]))) >= 0)
    return z3.And(*conds)


class PointTree:
    """STRtree contract for a symbolic query point over concrete convex polygons:
    query(point, predicate='intersects') returns exactly the positions whose polygon
    (closed) contains the point - decided by linear half-plane tests, one fork per
    cell - in an order chosen by `perm` (an integer selecting one of the k! orders).
    Other predicates on a point: within/covered_by = same as intersects minus/plus
    boundary, touches = boundary only, contains/covers/overlaps/crosses = never
    (a point cannot contain a polygon)."""

    def __init__(self, geoms, perm=0):
        self.geometries = numpy.asarray(geoms, dtype=object)
        self.perm = perm
        self.queries = []

    def _interior(self, poly, p):
        import fractions
        ring = [(fractions.Fraction(x), fractions.Fraction(y)) for x, y in poly.exterior.coords[:-1]]
        area2 = sum(a[0] * b[1] - b[0] * a[1] for a, b in zip(ring, ring[1:] + ring[:1]))
        if area2 < 0:
            ring = ring[::-1]
        conds = []
        for a, b in zip(ring, ring[1:] + ring[:1]):
            ex, ey = b[0] - a[0], b[1] - a[1]
            conds.append(z3.RealVal(str(ex)) * (p.y.v - z3.RealVal(str(a[1]))) - z3.RealVal(str(ey)) * (p.x.v - z3.RealVal(str(a[0]))) > 0)
        return z3.And(*conds)

    def query(self, geometry, predicate=None, distance=None):
        self.queries.append(predicate)
        if not isinstance(geometry, SymPoint):
            raise HarnessError('PointTree expects a SymPoint')
        c = ctx()
        hits = []
        for i, g in enumerate(self.geometries):
            if g is None:
                continue
            closed = convex_contains(g, geometry.x, geometry.y)
            if predicate is None:
                # no predicate: every geometry whose bounding box contains the point
                x0, y0, x1, y1 = [z3.RealVal(str(fractions.Fraction(v))) for v in g.bounds]
                cond = z3.And(geometry.x.v >= x0, geometry.x.v <= x1, geometry.y.v >= y0, geometry.y.v <= y1)
            elif predicate in ('intersects', 'covered_by'):
                cond = closed
            elif predicate == 'within':
                cond = self._interior(g, geometry)
            elif predicate == 'touches':
                cond = z3.And(closed, z3.Not(self._interior(g, geometry)))
            elif predicate in ('contains', 'covers', 'overlaps', 'crosses', 'contains_properly'):
                cond = z3.BoolVal(False)
            else:
                raise HarnessError(f'PointTree: predicate {predicate!r} not modelled')
            if c.decide(cond):
                hits.append(i)
        k = len(hits)
        if k > 1:
            perms = list(itertools.permutations(range(k)))
            sel = self.perm
            if isinstance(sel, SymInt):
                c.assume(SymBool(z3.And(sel.z >= 0, sel.z < len(perms)))) if False else None
                which = None
                for pi in range(len(perms)):
                    if c.decide(sel.z % len(perms) == pi):
                        which = pi
                        break
                hits = [hits[j] for j in perms[which]]
            else:
                hits = [hits[j] for j in perms[int(sel) % len(perms)]]
        return numpy.array(hits, dtype=numpy.intp)


def point_predicate_patches():
    """Patch triples that make the binary predicates of a *concrete* shapely geometry accept a SymPoint
    (`polygon.intersects(point)` written directly in the code under test rather than through the STRtree):
    same half-plane contract as PointTree, one fork per call."""
    from shapely.geometry.base import BaseGeometry
    tree = PointTree([])

    def make(name, orig):
        def method(self, other, *a, **k):
            if not isinstance(other, SymPoint):
                return orig(self, other, *a, **k)
            closed = convex_contains(self, other.x, other.y)
            if name in ('intersects', 'covers'):
                cond = closed
            elif name in ('contains', 'contains_properly'):
                cond = tree._interior(self, other)
            elif name == 'touches':
                cond = z3.And(closed, z3.Not(tree._interior(self, other)))
            elif name == 'disjoint':
                cond = z3.Not(closed)
            else:
                raise HarnessError(f'predicate {name} on a symbolic point is not modelled')
            return bool(ctx().decide(cond))
        return method
    names = ('intersects', 'covers', 'contains', 'contains_properly', 'touches', 'disjoint')
    return [(BaseGeometry, n, make(n, getattr(BaseGeometry, n))) for n in names]


class _Exterior:
    def __init__(self, poly):
        self.coords = list(poly.coords) + [poly.coords[0]]      # closed ring, as shapely exposes it


SymPoly.exterior = property(lambda self: _Exterior(self))
