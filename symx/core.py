"""symx core: z3-backed scalars that live inside *real* numpy / xarray object
arrays, and a fork-by-re-execution path explorer.

A harness body is an ordinary Python function ``body(ctx)``.  It asks the
context for inputs (``ctx.real('x')``, ``ctx.int('n')``, ``ctx.bool('b')``),
runs the real emsarray code on them and states its postconditions with
``ctx.check(cond, label)``.

The same body runs in two modes:

* ``SymCtx``: inputs are solver variables.  Every branch taken on a symbolic
  value is a solver query; when both outcomes are feasible the alternative is
  queued and explored by re-execution.  ``check`` asks z3 whether
  ``path-condition AND NOT cond`` is satisfiable.
* ``ConCtx``: inputs are concrete numbers taken from a z3 model.  The body
  then runs the completely unmodified stack (real numpy floats, real shapely)
  and ``check`` is an ordinary assertion.  This is how counterexamples are
  replayed and how every explored path is validated against the
  implementation.
"""
from __future__ import annotations

import fractions
import math
import time

import numpy
import z3


class PathAbort(BaseException):
    """Path condition became infeasible (not an error)."""


class HarnessError(Exception):
    """Machinery problem / inconclusive solver answer.  Never a verdict."""


class Counterexample(BaseException):
    def __init__(self, label, inputs, note=''):
        super().__init__(label)
        self.label = label
        self.inputs = inputs
        self.note = note


class ConcreteViolation(BaseException):
    def __init__(self, label, detail=''):
        super().__init__(f'{label}: {detail}')
        self.label = label
        self.detail = detail


_CTX = None
import os as _os
_DEBUG = bool(_os.environ.get('SYMX_DEBUG'))


def ctx():
    if _CTX is None:
        raise HarnessError('symbolic value used outside of an exploration context')
    return _CTX


def set_ctx(c):
    global _CTX
    _CTX = c


# ---------------------------------------------------------------------------
# helpers

def _is_num(x):
    return isinstance(x, (int, float, fractions.Fraction, numpy.integer, numpy.floating, numpy.bool_, bool))


def _z3num(x):
    """Python / numpy number -> z3 Real value (must not be NaN)."""
    if isinstance(x, (bool, numpy.bool_)):
        return z3.RealVal(int(x))
    if isinstance(x, (int, numpy.integer)):
        return z3.RealVal(int(x))
    if isinstance(x, fractions.Fraction):
        return z3.RealVal(str(x))
    f = float(x)
    if math.isinf(f):
        raise HarnessError('infinity is outside the real+NaN abstraction')
    return z3.RealVal(str(fractions.Fraction(f)))


class SymBool:
    __slots__ = ('z',)
    __array_priority__ = 1000

    def __init__(self, z):
        if isinstance(z, SymBool):
            z = z.z
        elif isinstance(z, (bool, numpy.bool_)):
            z = z3.BoolVal(bool(z))
        self.z = z

    @staticmethod
    def lift(x):
        if isinstance(x, SymBool):
            return x
        if isinstance(x, (bool, numpy.bool_)):
            return SymBool(z3.BoolVal(bool(x)))
        if isinstance(x, (int, numpy.integer)) and int(x) in (0, 1):
            return SymBool(z3.BoolVal(bool(x)))
        if isinstance(x, z3.BoolRef):
            return SymBool(x)
        return None

    def __bool__(self):
        return ctx().decide(self.z)

    def __and__(self, o):
        o = SymBool.lift(o)
        if o is None:
            return NotImplemented
        return SymBool(z3.And(self.z, o.z))
    __rand__ = __and__

    def __or__(self, o):
        o = SymBool.lift(o)
        if o is None:
            return NotImplemented
        return SymBool(z3.Or(self.z, o.z))
    __ror__ = __or__

    def __xor__(self, o):
        o = SymBool.lift(o)
        if o is None:
            return NotImplemented
        return SymBool(z3.Xor(self.z, o.z))
    __rxor__ = __xor__

    def __invert__(self):
        return SymBool(z3.Not(self.z))

    def __eq__(self, o):
        o = SymBool.lift(o)
        if o is None:
            return False
        return SymBool(self.z == o.z)

    def __ne__(self, o):
        o = SymBool.lift(o)
        if o is None:
            return True
        return SymBool(self.z != o.z)

    __hash__ = None

    def __repr__(self):
        return f'SymBool({z3.simplify(self.z)})'


class SymInt:
    __slots__ = ('z',)
    __array_priority__ = 1000

    def __init__(self, z):
        if isinstance(z, (int, numpy.integer)):
            z = z3.IntVal(int(z))
        self.z = z

    @staticmethod
    def lift(x):
        if isinstance(x, SymInt):
            return x
        if isinstance(x, (bool, numpy.bool_)):
            return SymInt(z3.IntVal(int(x)))
        if isinstance(x, (int, numpy.integer)):
            return SymInt(z3.IntVal(int(x)))
        return None

    def _bin(self, o, f):
        oi = SymInt.lift(o)
        if oi is None:
            if isinstance(o, (float, numpy.floating, SymReal)):      # int (op) float -> float, as in Python
                a, b = SymReal.lift(self), SymReal.lift(o)
                return SymReal(f(a.v, b.v), b.nan)
            return NotImplemented
        return SymInt(f(self.z, oi.z))

    def _rbin(self, o, f):
        oi = SymInt.lift(o)
        if oi is None:
            if isinstance(o, (float, numpy.floating, SymReal)):
                a, b = SymReal.lift(self), SymReal.lift(o)
                return SymReal(f(b.v, a.v), b.nan)
            return NotImplemented
        return SymInt(f(oi.z, self.z))

    def __truediv__(self, o):        # true division of integers is a float
        return SymReal.lift(self) / o

    def __rtruediv__(self, o):
        return o / SymReal.lift(self)

    def __add__(self, o): return self._bin(o, lambda a, b: a + b)
    def __radd__(self, o): return self._rbin(o, lambda a, b: a + b)
    def __sub__(self, o): return self._bin(o, lambda a, b: a - b)
    def __rsub__(self, o): return self._rbin(o, lambda a, b: a - b)
    def __mul__(self, o): return self._bin(o, lambda a, b: a * b)
    def __rmul__(self, o): return self._rbin(o, lambda a, b: a * b)
    def __neg__(self): return SymInt(-self.z)
    def __pos__(self): return self
    def __abs__(self): return SymInt(z3.If(self.z < 0, -self.z, self.z))

    def __bool__(self):              # truthiness of an int: non-zero
        return ctx().decide(self.z != 0)

    # Python floor semantics; z3 `div`/`mod` are Euclidean, identical for
    # positive divisors, which is all the code under test uses.
    def __floordiv__(self, o):
        o = SymInt.lift(o)
        if o is None:
            return NotImplemented
        c = ctx()
        if not c.decide(o.z > 0):
            raise HarnessError('SymInt // non-positive divisor is not modelled')
        return SymInt(self.z / o.z)

    def __mod__(self, o):
        o = SymInt.lift(o)
        if o is None:
            return NotImplemented
        c = ctx()
        if not c.decide(o.z > 0):
            raise HarnessError('SymInt % non-positive divisor is not modelled')
        return SymInt(self.z % o.z)

    def __divmod__(self, o):
        return (self // o, self % o)

    def _cmp(self, o, f):
        o = SymInt.lift(o)
        if o is None:
            return NotImplemented
        return SymBool(f(self.z, o.z))

    def __lt__(self, o): return self._cmp(o, lambda a, b: a < b)
    def __le__(self, o): return self._cmp(o, lambda a, b: a <= b)
    def __gt__(self, o): return self._cmp(o, lambda a, b: a > b)
    def __ge__(self, o): return self._cmp(o, lambda a, b: a >= b)

    def __eq__(self, o):
        o = SymInt.lift(o)
        if o is None:
            return False
        return SymBool(self.z == o.z)

    def __ne__(self, o):
        o = SymInt.lift(o)
        if o is None:
            return True
        return SymBool(self.z != o.z)

    def concretize(self):
        """Fork on the value: pick a feasible value, branch on equality."""
        c = ctx()
        z = z3.simplify(self.z)
        if z3.is_int_value(z):
            return z.as_long()
        while True:
            v = c.some_value(z)
            if c.decide(z == v):
                return v

    def __index__(self):
        return self.concretize()

    def __int__(self):
        return self.concretize()

    def __hash__(self):
        return hash(self.concretize())

    def __repr__(self):
        return f'SymInt({z3.simplify(self.z)})'


class SymReal:
    """A real number or NaN: (v, nan).  v is irrelevant when nan holds."""
    __slots__ = ('v', 'nan')
    __array_priority__ = 1000

    def __init__(self, v, nan=None):
        self.v = v
        self.nan = z3.BoolVal(False) if nan is None else nan

    @staticmethod
    def lift(x):
        if isinstance(x, SymReal):
            return x
        if isinstance(x, SymInt):
            return SymReal(z3.ToReal(x.z))
        if _is_num(x):
            if isinstance(x, (float, numpy.floating)) and math.isnan(float(x)):
                return SymReal(z3.RealVal(0), z3.BoolVal(True))
            return SymReal(_z3num(x))
        return None

    def _bin(self, o, f):
        o = SymReal.lift(o)
        if o is None:
            return NotImplemented
        return SymReal(f(self.v, o.v), z3.Or(self.nan, o.nan))

    def _rbin(self, o, f):
        o = SymReal.lift(o)
        if o is None:
            return NotImplemented
        return SymReal(f(o.v, self.v), z3.Or(self.nan, o.nan))

    def __add__(self, o): return self._bin(o, lambda a, b: a + b)
    def __radd__(self, o): return self._rbin(o, lambda a, b: a + b)
    def __sub__(self, o): return self._bin(o, lambda a, b: a - b)
    def __rsub__(self, o): return self._rbin(o, lambda a, b: a - b)
    def __mul__(self, o): return self._bin(o, lambda a, b: a * b)
    def __rmul__(self, o): return self._rbin(o, lambda a, b: a * b)
    def __neg__(self): return SymReal(-self.v, self.nan)

    def __bool__(self):              # truthiness of a float: non-zero (NaN is truthy)
        return ctx().decide(z3.Or(self.nan, self.v != 0))
    def __pos__(self): return self
    def __abs__(self): return SymReal(z3.If(self.v < 0, -self.v, self.v), self.nan)

    def __truediv__(self, o):
        o = SymReal.lift(o)
        if o is None:
            return NotImplemented
        oz = z3.simplify(o.v)
        if not z3.is_rational_value(oz) or oz.as_fraction() == 0:
            raise HarnessError('SymReal / symbolic-or-zero divisor is not modelled')
        return SymReal(self.v / oz, z3.Or(self.nan, o.nan))

    def _cmp(self, o, f):
        o = SymReal.lift(o)
        if o is None:
            return NotImplemented
        return SymBool(z3.And(z3.Not(self.nan), z3.Not(o.nan), f(self.v, o.v)))

    def __lt__(self, o): return self._cmp(o, lambda a, b: a < b)
    def __le__(self, o): return self._cmp(o, lambda a, b: a <= b)
    def __gt__(self, o): return self._cmp(o, lambda a, b: a > b)
    def __ge__(self, o): return self._cmp(o, lambda a, b: a >= b)

    def __eq__(self, o):
        o = SymReal.lift(o)
        if o is None:
            return False
        return SymBool(z3.And(z3.Not(self.nan), z3.Not(o.nan), self.v == o.v))

    def __ne__(self, o):
        o = SymReal.lift(o)
        if o is None:
            return True
        return SymBool(z3.Or(self.nan, o.nan, self.v != o.v))

    __hash__ = None

    def isnan(self):
        return SymBool(self.nan)

    def __float__(self):
        raise HarnessError('SymReal reached float(): a stub is missing')

    def __repr__(self):
        return f'SymReal({z3.simplify(self.v)}, nan={z3.simplify(self.nan)})'


def is_sym(x):
    return isinstance(x, (SymBool, SymInt, SymReal))


def has_sym(arr):
    a = numpy.asarray(arr, dtype=object) if not isinstance(arr, numpy.ndarray) else arr
    if a.dtype != object:
        return False
    return any(is_sym(x) for x in a.flat)


# ---------------------------------------------------------------------------
# mode-polymorphic logic: these work on SymBool / z3 / python bool alike

def _zb(x):
    if isinstance(x, SymBool):
        return x.z
    if isinstance(x, z3.BoolRef):
        return x
    if isinstance(x, (bool, numpy.bool_)):
        return z3.BoolVal(bool(x))
    raise HarnessError(f'not a boolean: {x!r}')


def _symbolic(*xs):
    return any(isinstance(x, (SymBool, SymInt, SymReal, z3.ExprRef)) for x in xs)


def And(*xs):
    xs = [x for x in xs]
    if _symbolic(*xs):
        return SymBool(z3.And(*[_zb(x) for x in xs])) if xs else SymBool(True)
    return all(bool(x) for x in xs)


def Or(*xs):
    if _symbolic(*xs):
        return SymBool(z3.Or(*[_zb(x) for x in xs])) if xs else SymBool(False)
    return any(bool(x) for x in xs)


def Not(x):
    if _symbolic(x):
        return SymBool(z3.Not(_zb(x)))
    return not bool(x)


def Implies(a, b):
    if _symbolic(a, b):
        return SymBool(z3.Implies(_zb(a), _zb(b)))
    return (not bool(a)) or bool(b)


def Iff(a, b):
    if _symbolic(a, b):
        return SymBool(_zb(a) == _zb(b))
    return bool(a) == bool(b)


def isnan(x):
    """NaN test that works on SymReal and on floats."""
    if isinstance(x, SymReal):
        return SymBool(x.nan)
    if isinstance(x, (numpy.datetime64, numpy.timedelta64)):      # (timedelta64 is a numpy.integer subclass)
        return bool(numpy.isnat(x))
    if isinstance(x, (SymInt, int, numpy.integer)):
        return False
    return bool(numpy.isnan(x))


TOL = 1e-9


def same(a, b):
    """Same stored value, NaN == NaN ("bit-for-bit, missing values included")."""
    if isinstance(a, SymBool) or isinstance(b, SymBool):
        return Iff(a, b)
    if isinstance(a, SymInt) or isinstance(b, SymInt):
        if isinstance(a, SymReal) or isinstance(b, SymReal):
            a, b = SymReal.lift(a), SymReal.lift(b)
        else:
            return SymInt.lift(a) == SymInt.lift(b)
    if isinstance(a, SymReal) or isinstance(b, SymReal):
        a, b = SymReal.lift(a), SymReal.lift(b)
        if a is None or b is None:
            return SymBool(False)
        return SymBool(z3.Or(z3.And(a.nan, b.nan),
                             z3.And(z3.Not(a.nan), z3.Not(b.nan), a.v == b.v)))
    if isinstance(a, (numpy.datetime64, numpy.timedelta64)) or isinstance(b, (numpy.datetime64, numpy.timedelta64)):
        try:
            if numpy.isnat(a) or numpy.isnat(b):
                return bool(numpy.isnat(a) and numpy.isnat(b))
        except TypeError:
            return False
        return bool(a == b)
    try:
        fa, fb = float(a), float(b)
    except (TypeError, ValueError):
        return a == b
    if math.isnan(fa) or math.isnan(fb):
        return math.isnan(fa) and math.isnan(fb)
    return fa == fb


def close(a, b):
    """`same` up to float rounding in concrete mode (exact in symbolic mode)."""
    if _symbolic(a, b):
        return same(a, b)
    fa, fb = float(a), float(b)
    if math.isnan(fa) or math.isnan(fb):
        return math.isnan(fa) and math.isnan(fb)
    return abs(fa - fb) <= TOL * max(1.0, abs(fa), abs(fb))


def ite(c, a, b):
    if isinstance(c, (SymBool, z3.BoolRef)):
        cz = _zb(c)
        if isinstance(a, SymBool) or isinstance(b, SymBool):
            return SymBool(z3.If(cz, _zb(a), _zb(b)))
        if isinstance(a, SymInt) or isinstance(b, SymInt):
            if not (isinstance(a, SymReal) or isinstance(b, SymReal)):
                a, b = SymInt.lift(a), SymInt.lift(b)
                return SymInt(z3.If(cz, a.z, b.z))
        a, b = SymReal.lift(a), SymReal.lift(b)
        return SymReal(z3.If(cz, a.v, b.v), z3.If(cz, a.nan, b.nan))
    return a if bool(c) else b


# ---------------------------------------------------------------------------
# contexts

class Stats:
    def __init__(self):
        self.queries = 0
        self.solver_time = 0.0
        self.decisions = 0
        self.obligations = 0


SOLVER_KIND = 'default'


def _make_solver():
    if SOLVER_KIND == 'nlsat':
        return z3.Tactic('qfnra-nlsat').solver()
    if SOLVER_KIND == 'smt-nra':
        return z3.Then('simplify', 'purify-arith', 'elim-term-ite', 'solve-eqs', 'qfnra-nlsat').solver()
    return z3.Solver()


class SymCtx:
    symbolic = True

    def __init__(self, prefix=(), stats=None, timeout_ms=int(_os.environ.get('SYMX_TIMEOUT_MS', '60000')), probe_depth=None):
        self.solver = _make_solver()
        self.solver.set('timeout', timeout_ms)
        self.timeout_ms = timeout_ms
        self.nonlinear = False
        self.known = []       # (Bool atom, BoolVal) decided on this path
        self.soft = []        # counterexamples of soft checks
        self.prefix = list(prefix)
        self.decisions = []
        self.forks = []
        self.stats = stats or Stats()
        self.inputs = {}      # name -> ('real'|'int'|'bool', z3 expr(s))
        self.order = []
        self.labels = []
        self.probe_depth = probe_depth
        self.notes = {}
        self.hints = {}

    # -- inputs
    def real(self, name, nan=False, hint=None, flag=None):
        """nan=True: the value has its own NaN flag; flag=<bool>: NaN flag shared with other inputs."""
        v = z3.Real(name)
        if hint is not None:
            self.hints[name] = (v, hint)
        if flag is not None:
            self.inputs[name] = ('real', v)
            return SymReal(v, _zb(flag))
        if nan:
            n = z3.Bool(name + '?nan')
            self.inputs[name] = ('realnan', (v, n))
            return SymReal(v, n)
        self.inputs[name] = ('real', v)
        return SymReal(v)

    def int(self, name, lo=None, hi=None, hint=None):
        v = z3.Int(name)
        if hint is not None:
            self.hints[name] = (v, int(hint))
        self.inputs[name] = ('int', v)
        if lo is not None:
            self.solver.add(v >= lo)
        if hi is not None:
            self.solver.add(v <= hi)
        return SymInt(v)

    def bool(self, name):
        v = z3.Bool(name)
        self.inputs[name] = ('bool', v)
        return SymBool(v)

    def string(self, name, domain):
        """a string from the finite universe `domain` (the solver picks which)"""
        v = z3.Int(name)
        self.solver.add(v >= 0, v < len(domain))
        self.inputs[name] = ('str', (v, list(domain)))
        return SymStr(v, domain)

    def text(self, name, constants=(), language=None):
        """an unbounded string (z3 String); `constants`: the literals the code under test may compare it with or
        look it up among (they steer hashing); `language`: optional z3 regular expression the string belongs to"""
        v = z3.String(name)
        if language is not None:
            self.solver.add(z3.InRe(v, language))
        self.inputs[name] = ('zstr', v)
        return ZStr(v, tuple(constants))

    def note(self, key, value):
        self.notes[key] = value

    # -- solver plumbing
    def _check(self, *extra):
        t = time.perf_counter()
        r = self.solver.check(*extra)
        dt = time.perf_counter() - t
        self.stats.solver_time += dt
        if dt > 1.0 and _DEBUG:
            print(f'[symx] slow query {dt:.1f}s -> {r}; extra={[str(e)[:200] for e in extra]}', flush=True)
        self.stats.queries += 1
        if r == z3.unknown:
            raise HarnessError(f'solver answered unknown: {self.solver.reason_unknown()}')
        return r == z3.sat

    def assume(self, cond):
        z = _zb(cond)
        self.solver.add(z)
        if not self._check():
            raise PathAbort('assumption infeasible')

    def _reduce(self, e):
        """simplify `e` under the atoms whose value this path has already decided."""
        e = z3.simplify(e)
        if self.known and not (z3.is_true(e) or z3.is_false(e)):
            e = z3.simplify(z3.substitute(e, *self.known))
        return e

    def _learn(self, e, c):
        if z3.is_not(e):
            e, c = e.arg(0), not c
        if z3.is_const(e) and e.decl().kind() == z3.Z3_OP_UNINTERPRETED:
            self.known.append((e, z3.BoolVal(c)))

    def decide(self, e):
        if isinstance(e, SymBool):
            e = e.z
        if not isinstance(e, z3.ExprRef):
            return bool(e)
        e = self._reduce(e)
        if z3.is_true(e):
            return True
        if z3.is_false(e):
            return False
        i = len(self.decisions)
        self.stats.decisions += 1
        if i < len(self.prefix):
            c = self.prefix[i]
        else:
            t = self._check(e)
            f = self._check(z3.Not(e))
            if t and f:
                c = True
                self.forks.append(self.decisions + [False])
            elif t:
                c = True
            elif f:
                c = False
            else:
                raise PathAbort('path condition infeasible')
        self.decisions.append(c)
        self.solver.add(e if c else z3.Not(e))
        self._learn(e, c)
        return c

    def some_value(self, z):
        if not self._check():
            raise PathAbort('path condition infeasible')
        return self.solver.model().eval(z, model_completion=True).as_long()

    def eval_inputs(self, model):
        out = {}
        for name, (kind, v) in self.inputs.items():
            if kind == 'real':
                out[name] = _frac(model.eval(v, model_completion=True))
            elif kind == 'realnan':
                isn = z3.is_true(model.eval(v[1], model_completion=True))
                out[name] = 'nan' if isn else _frac(model.eval(v[0], model_completion=True))
            elif kind == 'int':
                out[name] = model.eval(v, model_completion=True).as_long()
            elif kind == 'bool':
                out[name] = z3.is_true(model.eval(v, model_completion=True))
            elif kind == 'str':
                out[name] = v[1][model.eval(v[0], model_completion=True).as_long()]
            elif kind == 'zstr':
                out[name] = model.eval(v, model_completion=True).as_string()
        return out

    def nice_model(self, extra=None):
        """A model of the path condition (plus `extra`) preferring the hinted
        (nominal) values, then small dyadic values, so that float replay is exact."""
        s = self.solver
        reals, ints = [], []
        for name, (kind, v) in self.inputs.items():
            if kind == 'real':
                reals.append(v)
            elif kind == 'realnan':
                reals.append(v[0])
            elif kind == 'int':
                ints.append(v)

        def attempt(constraints, timeout=None):
            s.push()
            try:
                if extra is not None:
                    s.add(extra)
                for c in constraints:
                    s.add(c)
                if timeout:
                    s.set('timeout', timeout)
                try:
                    return s.model() if self._check() else None
                except HarnessError:
                    return None
                finally:
                    if timeout:
                        s.set('timeout', self.timeout_ms)
            finally:
                s.pop()

        if self.hints:
            eqs = [v == _z3num(h) for (v, h) in self.hints.values()]
            m = attempt(eqs)
            if m is not None:
                return m
            if not self.nonlinear:
                # greedy: keep every hint that stays satisfiable
                kept = []
                for e in eqs:
                    if attempt(kept + [e], timeout=3000) is not None:
                        kept.append(e)
                m = attempt(kept)
                if m is not None:
                    return m
        if not self.nonlinear:
            for denom, bound in ((1, 50), (8, 200)):
                cons = []
                for r in reals:
                    cons += [z3.IsInt(r * denom), r >= -bound, r <= bound]
                for r in ints:
                    cons += [r >= -bound * 20, r <= bound * 20]
                m = attempt(cons)
                if m is not None:
                    return m
        return attempt([])

    def check(self, cond, label, soft=False):
        """soft=True: a counterexample is recorded and the path goes on (used for postconditions with a recorded
        known finding, so that they cannot hide the checks that follow them)."""
        self.stats.obligations += 1
        self.labels.append(label)
        if cond is True or (isinstance(cond, numpy.bool_) and bool(cond)):
            return
        if cond is False or (isinstance(cond, numpy.bool_) and not bool(cond)):
            z = z3.BoolVal(False)
        else:
            z = self._reduce(_zb(cond))
            if z3.is_true(z):
                self.stats.queries += 1     # discharged by z3's simplifier
                return
        neg = z3.Not(z)
        if self._check(neg):
            m = self.nice_model(neg) or None
            if m is None:
                self.solver.push()
                self.solver.add(neg)
                self._check()
                m = self.solver.model()
                self.solver.pop()
            ce = Counterexample(label, self.eval_inputs(m))
            if soft:
                self.soft.append(ce)
                return
            raise ce

    def witness(self):
        m = self.nice_model()
        if m is None:
            raise PathAbort('path condition infeasible at end of path')
        return self.eval_inputs(m)


def _frac(zv):
    zv = z3.simplify(zv)
    if z3.is_rational_value(zv):
        return str(zv.as_fraction())
    if z3.is_algebraic_value(zv):
        return str(fractions.Fraction(zv.approx(20).as_fraction()))
    raise HarnessError(f'cannot concretise {zv}')


def to_float(s):
    if s == 'nan':
        return float('nan')
    return float(fractions.Fraction(s))


class ConCtx:
    """Concrete replay context: same harness body, real values, no patches."""
    symbolic = False

    def __init__(self, values):
        self.values = values
        self.labels = []
        self.notes = {}
        self.stats = Stats()
        self.soft = []

    def real(self, name, nan=False, hint=None, flag=None):
        if flag is not None:                 # shared flag
            return float('nan') if bool(flag) else to_float(self.values[name])
        return to_float(self.values[name])   # own flag: 'nan' is stored as the value

    def int(self, name, lo=None, hi=None, hint=None):
        return int(self.values[name])

    def bool(self, name):
        return bool(self.values[name])

    def string(self, name, domain):
        return self.values[name]

    def text(self, name, constants=(), language=None):
        return self.values[name]

    def note(self, key, value):
        self.notes[key] = value

    def assume(self, cond):
        if not bool(cond):
            raise HarnessError('replay input violates a harness assumption')

    def decide(self, e):
        return bool(e)

    def check(self, cond, label, soft=False):
        self.labels.append(label)
        if not bool(cond):
            if soft:
                self.soft.append(label)
                return
            raise ConcreteViolation(label)


class ZStr:
    """An unbounded symbolic string over z3's string theory: equality, membership in sets / dicts of literals
    (hashing forks over the literals given at creation: equal to one of them, or to none), startswith / endswith /
    substring tests, concatenation with literals.  Anything else is reported as not modelled."""
    __slots__ = ('z', 'consts')

    def __init__(self, z, consts=()):
        self.z, self.consts = z, tuple(consts)

    @staticmethod
    def _term(o):
        if isinstance(o, ZStr):
            return o.z
        if isinstance(o, str):
            return z3.StringVal(o)
        return None

    def __eq__(self, o):
        t = ZStr._term(o)
        return False if t is None else SymBool(self.z == t)

    def __ne__(self, o):
        t = ZStr._term(o)
        return True if t is None else SymBool(self.z != t)

    def __hash__(self):
        c = ctx()
        for lit in self.consts:
            if c.decide(self.z == z3.StringVal(lit)):
                return hash(lit)
        return hash(('ZStr: none of the literals',))

    def _affix(self, o, f):
        if isinstance(o, tuple):
            return Or(*[self._affix(x, f) for x in o])
        t = ZStr._term(o)
        if t is None:
            raise HarnessError('ZStr affix test with a non-string')
        return SymBool(f(t, self.z))

    def endswith(self, o):
        return self._affix(o, z3.SuffixOf)

    def startswith(self, o):
        return self._affix(o, z3.PrefixOf)

    def __contains__(self, o):
        t = ZStr._term(o)
        if t is None:
            raise HarnessError('ZStr substring test with a non-string')
        return bool(SymBool(z3.Contains(self.z, t)))

    def __add__(self, o):
        t = ZStr._term(o)
        return NotImplemented if t is None else ZStr(z3.Concat(self.z, t), self.consts)

    def __radd__(self, o):
        t = ZStr._term(o)
        return NotImplemented if t is None else ZStr(z3.Concat(t, self.z), self.consts)

    def __len__(self):
        return SymInt(z3.Length(self.z)).concretize()

    def __repr__(self):
        return '<symbolic text>'

    __str__ = __repr__

    def __format__(self, spec):
        return '<symbolic text>'

    def __getattr__(self, name):
        raise HarnessError(f'str.{name} on a symbolic text is not modelled')


class SymStr:
    """A string drawn from a finite universe of candidate values (index is a z3 Int).
    Good for attribute values that the code only compares, searches or hashes."""
    __slots__ = ('idx', 'domain')

    def __init__(self, idx, domain):
        self.idx = idx
        self.domain = list(domain)

    def _where(self, pred):
        hits = [self.idx == k for k, v in enumerate(self.domain) if pred(v)]
        return SymBool(z3.Or(*hits) if hits else z3.BoolVal(False))

    def __eq__(self, o):
        if isinstance(o, SymStr):
            return SymBool(z3.Or(*[z3.And(self.idx == i, o.idx == j) for i, a in enumerate(self.domain)
                                   for j, b in enumerate(o.domain) if a == b] or [z3.BoolVal(False)]))
        if isinstance(o, str):
            return self._where(lambda v: v == o)
        return False

    def __ne__(self, o):
        r = self.__eq__(o)
        return SymBool(z3.Not(r.z)) if isinstance(r, SymBool) else True

    def __contains__(self, sub):          # `sub in self`; python coerces the result with bool(): forks
        return self._where(lambda v: sub in v)

    def concretize(self):
        c = ctx()
        for k, v in enumerate(self.domain):
            if c.decide(self.idx == k):
                return v
        raise PathAbort('string index outside its domain')

    def __hash__(self):
        return hash(self.concretize())

    def __str__(self):
        return self.concretize()

    def lower(self):
        return SymStr(self.idx, [v.lower() for v in self.domain])

    def upper(self):
        return SymStr(self.idx, [v.upper() for v in self.domain])

    def split(self, *a):
        return self.concretize().split(*a)

    def startswith(self, p):
        return self._where(lambda v: v.startswith(p))

    def __repr__(self):
        return f'SymStr({self.domain})'
