"""Small dataset builders, one per convention.

Geometry / data payloads may be float arrays or object arrays of symbolic
scalars; index / connectivity arrays are real typed arrays.
"""
from __future__ import annotations

import numpy
import xarray


def _lin(n, start=0.0, step=1.0):
    return numpy.arange(n, dtype=float) * step + start


def cf1d(ny, nx, *, lat=None, lon=None, ydim='y', xdim='x', lat_name='lat', lon_name='lon',
         as_coords=True, lat_bounds=None, lon_bounds=None, data_vars=None, attrs=None,
         lat_attrs=None, lon_attrs=None, bounds_dims=None):
    """CF grid with 1-D coordinates lat(ydim), lon(xdim)."""
    lat = _lin(ny, 10.0, 1.0) if lat is None else lat
    lon = _lin(nx, 100.0, 2.0) if lon is None else lon
    la = dict(units='degrees_north', standard_name='latitude')
    lo = dict(units='degrees_east', standard_name='longitude')
    la.update(lat_attrs or {})
    lo.update(lon_attrs or {})
    variables = {}
    if lat_bounds is not None:
        la['bounds'] = lat_name + '_bnds'
        variables[lat_name + '_bnds'] = ((ydim, 'bnds') if bounds_dims is None else bounds_dims[0], lat_bounds)
    if lon_bounds is not None:
        lo['bounds'] = lon_name + '_bnds'
        variables[lon_name + '_bnds'] = ((xdim, 'bnds') if bounds_dims is None else bounds_dims[1], lon_bounds)
    coords = {}
    target = coords if as_coords else variables
    target[lat_name] = ((ydim,), lat, la)
    target[lon_name] = ((xdim,), lon, lo)
    return _assemble(variables, coords, data_vars, dict(attrs or {'Conventions': 'CF-1.8'}))


DATA_FIRST = False     # set by a harness to list the data variables before the geometry variables
BOUNDS_AS_COORDS = False   # set by a harness: bounds variables (*_bnds) are held as xarray coordinates, as after
#                            Dataset.set_coords / open_dataset(decode_coords='all')


def _assemble(variables, coords, data_vars, attrs):
    """Geometry variables first (as in files written by the models), then data - unless DATA_FIRST."""
    ds = _assemble0(variables, coords, data_vars, attrs)
    if BOUNDS_AS_COORDS:
        ds = ds.set_coords([n for n in ds.data_vars if str(n).endswith('_bnds')])
    return ds


def _assemble0(variables, coords, data_vars, attrs):
    if DATA_FIRST and data_vars:
        dv = {k: (v if isinstance(v, xarray.DataArray) else xarray.Variable(*v)) for k, v in data_vars.items()}
        return xarray.Dataset(data_vars={**dv, **{k: xarray.Variable(*v) for k, v in variables.items()}}, coords=coords, attrs=attrs)
    ds = xarray.Dataset(data_vars=variables, coords=coords, attrs=attrs)
    if data_vars:
        ds = ds.assign({k: (v if isinstance(v, xarray.DataArray) else xarray.Variable(*v)) for k, v in data_vars.items()})
    return ds


def cf2d(ny, nx, *, lat=None, lon=None, ydim='y', xdim='x', lat_name='lat', lon_name='lon',
         as_coords=True, lat_bounds=None, lon_bounds=None, data_vars=None, attrs=None, bounds_dims=None):
    """CF grid with 2-D coordinates lat(ydim, xdim), lon(ydim, xdim)."""
    if lat is None or lon is None:
        jj, ii = numpy.meshgrid(numpy.arange(ny, dtype=float), numpy.arange(nx, dtype=float), indexing='ij')
        lat = 10.0 + jj + 0.25 * ii if lat is None else lat
        lon = 100.0 + 2.0 * ii - 0.5 * jj if lon is None else lon
    la = dict(units='degrees_north', standard_name='latitude')
    lo = dict(units='degrees_east', standard_name='longitude')
    variables = {}
    if lat_bounds is not None:
        la['bounds'] = lat_name + '_bnds'
        variables[lat_name + '_bnds'] = (bounds_dims or (ydim, xdim, 'four'), lat_bounds)
    if lon_bounds is not None:
        lo['bounds'] = lon_name + '_bnds'
        variables[lon_name + '_bnds'] = (bounds_dims or (ydim, xdim, 'four'), lon_bounds)
    coords = {}
    target = coords if as_coords else variables
    target[lat_name] = ((ydim, xdim), lat, la)
    target[lon_name] = ((ydim, xdim), lon, lo)
    return _assemble(variables, coords, data_vars, dict(attrs or {'Conventions': 'CF-1.8'}))


def shoc_simple(nj, ni, **kw):
    """SHOC simple: CF 2-D grid on dimensions (j, i) with an ems_version attribute."""
    kw.setdefault('lat_name', 'latitude')
    kw.setdefault('lon_name', 'longitude')
    attrs = dict(kw.pop('attrs', None) or {})
    attrs.setdefault('ems_version', 'v1.2.3')
    attrs.setdefault('Conventions', 'CMR/Timeseries/SHOC')
    return cf2d(nj, ni, ydim='j', xdim='i', attrs=attrs, **kw)


SHOC_DIMS = dict(
    face=('j_centre', 'i_centre'), left=('j_left', 'i_left'),
    back=('j_back', 'i_back'), node=('j_node', 'i_node'),
)
SHOC_COORDS = dict(
    face=('y_centre', 'x_centre'), left=('y_left', 'x_left'),
    back=('y_back', 'x_back'), node=('y_grid', 'x_grid'),
)


def shoc_shapes(nj, ni):
    return dict(face=(nj, ni), left=(nj, ni + 1), back=(nj + 1, ni), node=(nj + 1, ni + 1))


def shoc_standard(nj, ni, *, node_x=None, node_y=None, face_x=None, face_y=None,
                  data_vars=None, attrs=None, as_coords=True, dims=None, x_transposed=()):
    """SHOC standard (Arakawa C): four grids with fixed coordinate names.
    x_transposed: grid kinds whose longitude variable is stored with its two dimensions the other way round
    (x_centre(i_centre, j_centre) next to y_centre(j_centre, i_centre))."""
    dims = dims or SHOC_DIMS
    shapes = shoc_shapes(nj, ni)
    if node_x is None or node_y is None:
        jj, ii = numpy.meshgrid(numpy.arange(nj + 1, dtype=float), numpy.arange(ni + 1, dtype=float), indexing='ij')
        node_x = 100.0 + 2.0 * ii + 0.5 * jj if node_x is None else node_x
        node_y = 10.0 + jj - 0.25 * ii if node_y is None else node_y

    def avg(a, axes):
        a = numpy.asarray(a)
        if 0 in axes:
            a = (a[1:, :] + a[:-1, :]) / 2
        if 1 in axes:
            a = (a[:, 1:] + a[:, :-1]) / 2
        return a

    cx = dict(node=node_x, face=avg(node_x, (0, 1)) if face_x is None else face_x,
              left=avg(node_x, (0,)), back=avg(node_x, (1,)))
    cy = dict(node=node_y, face=avg(node_y, (0, 1)) if face_y is None else face_y,
              left=avg(node_y, (0,)), back=avg(node_y, (1,)))
    coords, variables = {}, {}
    target = coords if as_coords else variables
    for kind in ('face', 'left', 'back', 'node'):
        yname, xname = SHOC_COORDS[kind]
        assert numpy.shape(cx[kind]) == shapes[kind], (kind, numpy.shape(cx[kind]), shapes[kind])
        target[yname] = (dims[kind], cy[kind], dict(units='degrees_north', standard_name='latitude' if kind == 'face' else f'latitude_{kind}'))
        xattrs = dict(units='degrees_east', standard_name='longitude' if kind == 'face' else f'longitude_{kind}')
        if kind in x_transposed:
            target[xname] = (dims[kind][::-1], numpy.asarray(cx[kind], dtype=object if numpy.asarray(cx[kind]).dtype == object else float).T, xattrs)
        else:
            target[xname] = (dims[kind], cx[kind], xattrs)
    return _assemble(variables, coords, data_vars,
                     dict(attrs or {'Conventions': 'CMR/Timeseries/SHOC', 'ems_version': 'v1.2.3'}))


# --- UGRID -----------------------------------------------------------------

MESHES = {
    # name: (node_xy, faces (lists of 0-based node ids))
    # two triangles + one quad sharing edges
    'tq': ([(0, 0), (2, 0), (2, 2), (0, 2), (4, 1)], [[0, 1, 2, 3], [1, 4, 2]]),
    # triangle, quad, pentagon
    'tqp': ([(0, 0), (2, 0), (2, 2), (0, 2), (4, 0), (4, 2), (5, 1), (1, 3)],
            [[0, 1, 2, 3], [1, 4, 6, 5, 2], [3, 2, 7]]),
    # tqp with a node that no face uses (left behind by an earlier edit of the mesh) in the middle of the node list
    'tqpx': ([(0, 0), (2, 0), (9, 9), (2, 2), (0, 2), (4, 0), (4, 2), (5, 1), (1, 3)],
             [[0, 1, 3, 4], [1, 5, 7, 6, 3], [4, 3, 8]]),
    # strip of three quads
    'qqq': ([(0, 0), (1, 0), (2, 0), (3, 0), (0, 1), (1, 1), (2, 1), (3, 1)],
            [[0, 1, 5, 4], [1, 2, 6, 5], [2, 3, 7, 6]]),
    # fan of four triangles around a centre node (interior node, boundary edges)
    'fan': ([(0, 0), (2, 0), (2, 2), (0, 2), (1, 1)],
            [[0, 1, 4], [1, 2, 4], [2, 3, 4], [3, 0, 4]]),
    'tri': ([(0, 0), (2, 0), (1, 2)], [[0, 1, 2]]),
    # 2 x 2 block of quads whose centre node is numbered 0: diagonal faces share node 0 and nothing else
    'pin0': ([(1, 1), (0, 0), (1, 0), (2, 0), (2, 1), (2, 2), (1, 2), (0, 2), (0, 1)],
             [[1, 2, 0, 8], [2, 3, 4, 0], [0, 4, 5, 6], [8, 0, 6, 7]]),
    # a row of five quads: neighbour rings propagate one face per ring
    'strip5': ([(i, 0) for i in range(6)] + [(i, 1) for i in range(6)],
               [[i, i + 1, i + 7, i + 6] for i in range(5)]),
    # 2 x 3 block of quads (faces share nodes diagonally) with a triangle cap
    'block': ([(i, j) for j in range(3) for i in range(4)] + [(1.5, 3)],
              [[0, 1, 5, 4], [1, 2, 6, 5], [2, 3, 7, 6], [4, 5, 9, 8], [5, 6, 10, 9], [6, 7, 11, 10], [9, 10, 12]]),
    # three quads then two triangles: the short rows (with padding) are far from node 0
    'qqqtt': ([(i, 0) for i in range(5)] + [(i, 1) for i in range(5)],
              [[0, 1, 6, 5], [1, 2, 7, 6], [2, 3, 8, 7], [3, 4, 9], [3, 9, 8]]),
    # strip of four quads: as many faces as nodes per face (a square connectivity table)
    'qqqq': ([(i, 0) for i in range(5)] + [(i, 1) for i in range(5)], [[i, i + 1, i + 6, i + 5] for i in range(4)]),
    # five separate faces with 3, 4, 5, 6 and 7 nodes (regular polygons side by side)
    'poly34567': (lambda: (lambda rings: ([p for r in rings for p in r],
                                          [list(range(sum(len(q) for q in rings[:k]), sum(len(q) for q in rings[:k]) + len(r))) for k, r in enumerate(rings)]))(
        [[(round(3.0 * k + __import__('math').cos(2 * __import__('math').pi * a / n), 6), round(__import__('math').sin(2 * __import__('math').pi * a / n), 6))
          for a in range(n)] for k, n in enumerate((3, 4, 5, 6, 7))]))(),
    # a strip of 1,100 quads (more than 1,024 faces, nodes and edges)
    'strip1100': ([(i, 0) for i in range(1101)] + [(i, 1) for i in range(1101)], [[i, i + 1, i + 1102, i + 1101] for i in range(1100)]),
    # a closed fan of nine triangles around one node (a node shared by nine faces), and a face with nine nodes next to it
    'fan9': ([(0.0, 0.0)] + [(round(__import__('math').cos(2 * __import__('math').pi * a / 9), 6), round(__import__('math').sin(2 * __import__('math').pi * a / 9), 6)) for a in range(9)],
             [[0, 1 + a, 1 + (a + 1) % 9] for a in range(9)]),
    'nonagon': ([(round(__import__('math').cos(2 * __import__('math').pi * a / 9), 6), round(__import__('math').sin(2 * __import__('math').pi * a / 9), 6)) for a in range(9)] +
                [(2.0, 0.0), (2.0, 1.0)] + [(round(5 + __import__('math').cos(2 * __import__('math').pi * a / 12), 6), round(__import__('math').sin(2 * __import__('math').pi * a / 12), 6)) for a in range(12)],
                [list(range(9)), [0, 9, 10], list(range(11, 23))]),
    # 4 x 4 block of quads: 25 nodes (node numbers squared no longer fit in small integer types), 40 edges
    'grid4': ([(i, j) for j in range(5) for i in range(5)],
              [[j * 5 + i, j * 5 + i + 1, (j + 1) * 5 + i + 1, (j + 1) * 5 + i] for j in range(4) for i in range(4)]),
}


def mesh_edges(faces):
    """Reference edge list (independent of the code under test): unordered
    consecutive node pairs of every face, first-seen order."""
    edges, seen = [], {}
    for f in faces:
        for a, b in zip(f, f[1:] + f[:1]):
            key = frozenset((a, b))
            if key not in seen:
                seen[key] = len(edges)
                edges.append((a, b))
    return edges, seen


def ugrid(mesh='tq', *, start_index=0, fill='nan', transposed=False, with_edges=None,
          edge_dimension_attr=True, supply=(), node_x=None, node_y=None, face_xy=None,
          data_vars=None, attrs=None, coords_as_coords=False, dtype='int32', edge_order=None, fill_value=None, edge_face_fill_first=False, edge_marker=True, start_index_by_table=None, start_index_as_text=False, transposed_tables=None):
    """UGRID 2-D mesh.

    fill: 'nan' (float connectivity with NaN, as xarray decodes _FillValue),
          'attr' (integer array + _FillValue attribute, as with mask_and_scale=False),
          'none' (only legal when all faces have the same size).
    supply: subset of {'edge_node','face_edge','edge_face','face_face'} to store explicitly.
    """
    nodes, faces = MESHES[mesh] if isinstance(mesh, str) else mesh
    nn, nf = len(nodes), len(faces)
    maxn = max(len(f) for f in faces)
    ragged = any(len(f) != maxn for f in faces)
    if fill == 'none' and ragged:
        raise ValueError('ragged mesh needs a fill representation')
    # fill_value: e.g. 0 with start_index=1 (the usual Fortran layout); must lie outside [start_index, start_index + n)
    FILL = 999999 if fill_value is None else fill_value
    supply = set(supply)
    if with_edges is None:
        with_edges = bool(supply & {'edge_node', 'edge_face', 'face_edge'})
    edges, edge_id = mesh_edges(faces)
    if edge_order is not None:
        edges = [edges[i] for i in edge_order]
        edge_id = {frozenset(e): i for i, e in enumerate(edges)}
    ne = len(edges)

    mesh_start_index = start_index

    def conn(rows, width, primary, secondary, name, extra_attrs=None):
        # (UGRID gives every connectivity variable a start_index of its own)
        start_index = (start_index_by_table or {}).get(name, mesh_start_index)
        arr = numpy.full((len(rows), width), FILL, dtype='int64')
        for r, row in enumerate(rows):
            for c, v in enumerate(row):
                if v is not None:
                    arr[r, c] = v + start_index
        at = dict(start_index=start_index) if start_index else {}
        if start_index_as_text:
            # some files store the attribute as the text "0" / "1" (tolerated, with a warning)
            at = dict(start_index=str(start_index))
        at.update(extra_attrs or {})
        has_fill = (arr == FILL).any()
        if fill == 'nan':
            out = arr.astype(float)
            out[arr == FILL] = numpy.nan
            enc = {'_FillValue': FILL, 'dtype': numpy.dtype(dtype)}
        elif fill == 'attr':
            out = arr.astype(dtype)
            at['_FillValue'] = numpy.array(FILL, dtype=dtype)[()]
            enc = {}
        else:
            if has_fill:
                raise ValueError(f'{name} needs fill values')
            out = arr.astype(dtype)
            enc = {}
        dims = (primary, secondary)
        if transposed != (name in (transposed_tables or ())):
            # (transposed_tables: tables stored the other way round than the rest)
            out = out.T
            dims = (secondary, primary)
        da = xarray.DataArray(out, dims=dims, attrs=at, name=name)
        da.encoding.update(enc)
        return da

    mesh_attrs = dict(cf_role='mesh_topology', topology_dimension=2,
                      node_coordinates='node_x node_y', face_node_connectivity='face_node')
    variables = {}
    variables['face_node'] = conn(faces, maxn, 'nface', 'nmax', 'face_node', dict(cf_role='face_node_connectivity'))
    if with_edges and (edge_dimension_attr or transposed or transposed_tables):
        mesh_attrs['edge_dimension'] = 'nedge'
    if transposed or transposed_tables:
        # UGRID: the *_dimension attributes are required when connectivity is stored transposed
        mesh_attrs['face_dimension'] = 'nface'
    if 'edge_node' in supply:
        mesh_attrs['edge_node_connectivity'] = 'edge_node'
        variables['edge_node'] = conn([list(e) for e in edges], 2, 'nedge', 'Two', 'edge_node', dict(cf_role='edge_node_connectivity'))
    if 'face_edge' in supply:
        mesh_attrs['face_edge_connectivity'] = 'face_edge'
        rows = [[edge_id[frozenset((a, b))] for a, b in zip(f, f[1:] + f[:1])] for f in faces]
        variables['face_edge'] = conn(rows, maxn, 'nface', 'nmax', 'face_edge', dict(cf_role='face_edge_connectivity'))
    if 'edge_face' in supply:
        mesh_attrs['edge_face_connectivity'] = 'edge_face'
        rows = []
        for e in edges:
            fs = [fi for fi, f in enumerate(faces) if frozenset(e) in {frozenset(p) for p in zip(f, f[1:] + f[:1])}]
            # boundary edges have one face; which of the two slots holds the fill is not prescribed
            rows.append(([None] * (2 - len(fs)) + fs) if edge_face_fill_first else (fs + [None] * (2 - len(fs))))
        variables['edge_face'] = conn(rows, 2, 'nedge', 'Two', 'edge_face', dict(cf_role='edge_face_connectivity'))
    if 'face_face' in supply:
        mesh_attrs['face_face_connectivity'] = 'face_face'
        rows = []
        for fi, f in enumerate(faces):
            mine = {frozenset(p) for p in zip(f, f[1:] + f[:1])}
            nb = []
            for e in edges:
                if frozenset(e) in mine:
                    for gi, g in enumerate(faces):
                        if gi != fi and frozenset(e) in {frozenset(p) for p in zip(g, g[1:] + g[:1])}:
                            nb.append(gi)
            rows.append(nb + [None] * (maxn - len(nb)))
        variables['face_face'] = conn(rows, maxn, 'nface', 'nmax', 'face_face', dict(cf_role='face_face_connectivity'))

    nx = numpy.array([p[0] for p in nodes], dtype=float) if node_x is None else node_x
    ny = numpy.array([p[1] for p in nodes], dtype=float) if node_y is None else node_y
    coords = {}
    target = coords if coords_as_coords else variables
    target['node_x'] = (('nnode',), nx, dict(units='degrees_east', standard_name='longitude'))
    target['node_y'] = (('nnode',), ny, dict(units='degrees_north', standard_name='latitude'))
    if face_xy is not None:
        mesh_attrs['face_coordinates'] = 'face_x face_y'
        target['face_x'] = (('nface',), face_xy[0], dict(units='degrees_east'))
        target['face_y'] = (('nface',), face_xy[1], dict(units='degrees_north'))
    variables['mesh'] = xarray.DataArray(numpy.int32(0), attrs=mesh_attrs)
    ds = xarray.Dataset(data_vars={**variables, **(data_vars or {})}, coords=coords,
                        attrs=dict(attrs or {'Conventions': 'UGRID-1.0'}))
    if with_edges and edge_marker and 'nedge' not in ds.sizes:
        # give the declared edge dimension a size through a data variable
        ds['edge_marker'] = (('nedge',), numpy.arange(ne, dtype=float))
    return ds
