"""Independent reference geometry for *concrete* datasets.

Several checks work on datasets with concrete coordinates (the symbolic part is the query point, the hit set, the
data ...) and use the library's own polygons to say "which cell is where".  A change that moves or drops cells
consistently would then go unnoticed there.  This module rebuilds, from the dataset's variables alone and from the
text of the conventions (CF bounds / midpoint rule, the documented corner averaging for 2-D grids without bounds,
Arakawa C node grids, UGRID face-node tables with their index base and fill value), the polygon every cell should
have - and `check` compares the library's polygons and validity mask with it before a harness relies on them.
Nothing here imports the code under test.
"""
import numpy
import shapely


def _find(ds, pred):
    for name in ds.variables:
        if pred(ds[name]):
            return name
    return None


LAT_UNITS = {'degrees_north', 'degree_north', 'degree_N', 'degrees_N', 'degreeN', 'degreesN'}
LON_UNITS = {'degrees_east', 'degree_east', 'degree_E', 'degrees_E', 'degreeE', 'degreesE'}


def _latlon(ds, names=None):
    if names:
        return names
    lat = _find(ds, lambda v: v.attrs.get('standard_name') == 'latitude' or v.attrs.get('units') in LAT_UNITS)
    lon = _find(ds, lambda v: v.attrs.get('standard_name') == 'longitude' or v.attrs.get('units') in LON_UNITS)
    return lat, lon


def _poly(ring):
    ring = [(float(x), float(y)) for x, y in ring]
    if any(numpy.isnan(x) or numpy.isnan(y) for x, y in ring):
        return None
    p = shapely.Polygon(ring)
    return p if p.is_valid else None


def _mid(values):
    v = numpy.asarray(values, dtype=float)
    first, last = v[1] - v[0], v[-1] - v[-2]
    edges = numpy.concatenate([[v[0] - first / 2], (v[1:] + v[:-1]) / 2, [v[-1] + last / 2]])
    return numpy.stack([edges[:-1], edges[1:]], axis=-1)


def cf1d(ds, names=None):
    lat, lon = _latlon(ds, names)

    def bounds(name):
        c = ds[name]
        b = c.attrs.get('bounds')
        if b in ds.variables and ds[b].ndim == 2 and ds[b].dims[0] == c.dims[0] and ds[b].shape[1] == 2:
            return numpy.asarray(ds[b].values, dtype=float)
        return _mid(c.values)
    yb, xb = bounds(lat), bounds(lon)
    return [_poly([(xb[i, 0], yb[j, 0]), (xb[i, 1], yb[j, 0]), (xb[i, 1], yb[j, 1]), (xb[i, 0], yb[j, 1])])
            for j in range(len(yb)) for i in range(len(xb))]


def _derived_cells(lon, lat):
    """Documented rule for 2-D grids without bounds, written cell by cell: a corner is the mean of those of its (up
    to four) surrounding cell centres that exist (outside the grid there are none); a centre whose two neighbours
    along one axis are both missing is not used; a cell has geometry when it has a centre of its own and all four of
    its corners could be computed."""
    ny, nx = lon.shape
    missing = numpy.isnan(lon) | numpy.isnan(lat)

    def is_missing(j, i):
        return bool(missing[j, i]) if (0 <= j < ny and 0 <= i < nx) else False      # off-grid is not "missing" here
    used = numpy.ones((ny, nx), dtype=bool)
    for j in range(ny):
        for i in range(nx):
            if missing[j, i] or (is_missing(j - 1, i) and is_missing(j + 1, i)) or (is_missing(j, i - 1) and is_missing(j, i + 1)):
                used[j, i] = False

    def corner(cj, ci):
        """corner between cells (cj-1..cj, ci-1..ci)"""
        pts = [(lon[j, i], lat[j, i]) for j in (cj - 1, cj) for i in (ci - 1, ci) if 0 <= j < ny and 0 <= i < nx and used[j, i]]
        if not pts:
            return None
        return (sum(p[0] for p in pts) / len(pts), sum(p[1] for p in pts) / len(pts))
    out = []
    for j in range(ny):
        for i in range(nx):
            cs = [corner(j, i), corner(j, i + 1), corner(j + 1, i + 1), corner(j + 1, i)]
            if missing[j, i] or any(c is None for c in cs):
                out.append(None)
            else:
                out.append(_poly(cs))
    return out


def cf2d(ds, names=None):
    lat, lon = _latlon(ds, names)
    la, lo = ds[lat], ds[lon]
    ydim, xdim = la.dims
    lov = lo.transpose(ydim, xdim).values if lo.dims != la.dims else lo.values
    ny, nx = la.shape

    def stored(c):
        b = c.attrs.get('bounds')
        if b in ds.variables and ds[b].ndim == 3 and ds[b].dims[:2] == (ydim, xdim) and ds[b].shape[2] == 4:
            return numpy.asarray(ds[b].values, dtype=float)
        return None
    yb, xb = stored(la), stored(lo)
    if yb is None or xb is None:
        return _derived_cells(numpy.asarray(lov, dtype=float), numpy.asarray(la.values, dtype=float))
    out = []
    for j in range(ny):
        for i in range(nx):
            if numpy.isnan(lov[j, i]) or numpy.isnan(la.values[j, i]):
                # (a missing centre with complete stored bounds still has its cell: the bounds are the geometry)
                pass
            out.append(_poly(list(zip(xb[j, i], yb[j, i]))))
    return out


def arakawa_c(ds, node_names=('y_grid', 'x_grid')):
    ny_name, nx_name = node_names
    y, x = ds[ny_name], ds[nx_name]
    xv = x.transpose(*y.dims).values if x.dims != y.dims else x.values
    yv = y.values
    nj, ni = yv.shape[0] - 1, yv.shape[1] - 1
    return [_poly([(xv[j, i], yv[j, i]), (xv[j, i + 1], yv[j, i + 1]), (xv[j + 1, i + 1], yv[j + 1, i + 1]), (xv[j + 1, i], yv[j + 1, i])])
            for j in range(nj) for i in range(ni)]


def ugrid(ds):
    mesh = _find(ds, lambda v: v.attrs.get('cf_role') == 'mesh_topology')
    m = ds[mesh].attrs
    fn = ds[m['face_node_connectivity']]
    nxn, nyn = m['node_coordinates'].split()
    x, y = numpy.asarray(ds[nxn].values, dtype=float), numpy.asarray(ds[nyn].values, dtype=float)
    vals = fn.values
    face_dim = m.get('face_dimension', fn.dims[0])
    if fn.dims[0] != face_dim:
        vals = vals.T
    start = int(fn.attrs.get('start_index', 0))
    fill = fn.attrs.get('_FillValue', fn.encoding.get('_FillValue') if vals.dtype.kind == 'f' else None)
    out = []
    for row in vals:
        nodes = []
        for v in row:
            if vals.dtype.kind == 'f' and numpy.isnan(v):
                continue
            if fill is not None and vals.dtype.kind in 'iu' and int(v) == int(fill):
                continue
            nodes.append(int(v) - start)
        out.append(_poly([(x[n], y[n]) for n in nodes]))
    return out


def expected(ds, kind, **kw):
    return {'cf1d': cf1d, 'cf2d': cf2d, 'shoc_simple': cf2d, 'shoc_standard': arakawa_c, 'ugrid': ugrid}[kind](ds, **kw)


def kind_of(convention):
    name = type(convention).__name__
    for cls in type(convention).__mro__:
        n = cls.__name__
        if n in ('CFGrid1D', 'CFGrid2D', 'ShocSimple', 'ShocStandard', 'ArakawaC', 'UGrid'):
            name = n
            break
    return {'CFGrid1D': 'cf1d', 'CFGrid2D': 'cf2d', 'ShocSimple': 'shoc_simple', 'ShocStandard': 'shoc_standard',
            'ArakawaC': 'shoc_standard', 'UGrid': 'ugrid'}.get(name)


def _same(p, q):
    if p is None or q is None:
        return p is None and q is None
    if p.is_empty or q.is_empty:
        return p.is_empty and q.is_empty
    a = [tuple(c) for c in p.exterior.coords[:-1]]
    b = [tuple(c) for c in q.exterior.coords[:-1]]
    if len(a) != len(b):
        return False
    n = len(a)
    for ring in (b, b[::-1]):
        for s in range(n):
            if all(abs(a[k][0] - ring[(s + k) % n][0]) <= 1e-12 * max(1.0, abs(a[k][0])) and
                   abs(a[k][1] - ring[(s + k) % n][1]) <= 1e-12 * max(1.0, abs(a[k][1])) for k in range(n)):
                return True
    return False


def check(ctx, ds, convention, kind=None, label='the cells are the ones the dataset describes (independent reference geometry)', **kw):
    """Compare the library's polygons / mask with the reference. Returns the reference polygons (or None when the
    reference does not cover this dataset, e.g. derived 2-D bounds)."""
    kind = kind or kind_of(convention)
    if kind is None:
        return None
    ref = expected(ds, kind, **kw)
    if ref is None:
        return None
    got = convention.polygons
    ok = len(got) == len(ref) and all(_same(p, q) for p, q in zip(got, ref))
    ctx.check(ok, label)
    mask = convention.mask
    ctx.check(len(mask) == len(ref) and all(bool(m) == (q is not None) for m, q in zip(mask, ref)),
              'the validity mask marks exactly the cells that have geometry (independent reference)')
    return ref
