"""Concrete scenarios run in fresh interpreters by symx.envsweep (one function = one scenario, JSON-able result)."""
import os
import tempfile

import numpy
import xarray

from symx import builders

VERIF = os.path.dirname(os.path.dirname(os.path.abspath(__file__)))


def _work():
    os.makedirs(os.path.join(VERIF, '.work'), exist_ok=True)
    return tempfile.mkdtemp(dir=os.path.join(VERIF, '.work'), prefix='scn-')


def mesh_tables_mixed_orientation():
    """C10: edge tables stored in different orientations, no edge_dimension attribute: normalised tables."""
    from emsarray.conventions.ugrid import Mesh2DTopology
    ds = builders.ugrid('tqp', supply=('edge_node', 'edge_face'), fill='nan', transposed_tables=('edge_face',))
    del ds['mesh'].attrs['edge_dimension']
    t = Mesh2DTopology(ds)
    return dict(edge_dimension=str(t.edge_dimension), edge_count=int(t.edge_count),
                edge_node=[[int(v) for v in row] for row in t.edge_node_array.tolist()],
                face_edge=[[None if v is None else int(v) for v in row] for row in t.face_edge_array.tolist()])


def detect_one_and_two_dimensional_candidates():
    """C11 / C01: a CF file that has 1-D axes and 2-D auxiliary latitude / longitude variables."""
    from emsarray.conventions import get_dataset_convention
    out = {}
    for order in ('axes-first', 'fields-first'):
        lat = xarray.DataArray(numpy.array([10.0, 11.0]), dims=['lat'], attrs={'units': 'degrees_north', 'standard_name': 'latitude'})
        lon = xarray.DataArray(numpy.array([100.0, 101.0, 102.0]), dims=['lon'], attrs={'units': 'degrees_east', 'standard_name': 'longitude'})
        jj, ii = numpy.meshgrid(lat.values, lon.values, indexing='ij')
        lat2 = xarray.DataArray(jj, dims=['lat', 'lon'], attrs={'units': 'degrees_north', 'standard_name': 'latitude'})
        lon2 = xarray.DataArray(ii, dims=['lat', 'lon'], attrs={'units': 'degrees_east', 'standard_name': 'longitude'})
        temp = xarray.DataArray(numpy.zeros((2, 3)), dims=['lat', 'lon'])
        if order == 'axes-first':
            ds = xarray.Dataset({'lat': lat, 'lon': lon, 'lat2d': lat2, 'lon2d': lon2, 'temp': temp})
        else:
            ds = xarray.Dataset({'lat2d': lat2, 'lon2d': lon2, 'temp': temp}).assign_coords(lat=lat, lon=lon)
        cls = get_dataset_convention(ds)
        out[order] = [cls.__name__ if cls else None, list(ds.variables)[:2]]
        if cls is not None:
            cv = cls(ds)
            out[order].append([int(v) for v in cv.grid_shape[cv.default_grid_kind]])
    return out


def save_with_two_time_variables():
    """C17: a dataset with a second decoded date-time variable next to its time coordinate, saved through the convention."""
    import shutil
    import netCDF4
    work = _work()
    try:
        ds = builders.cf1d(2, 3, data_vars={'temp': (('record', 'y', 'x'), numpy.arange(12.0).reshape(2, 2, 3))})
        t = numpy.array(['2020-01-01T00:00', '2020-01-02T12:00'], dtype='datetime64[ns]')
        ds = ds.assign_coords(time=(('record',), t))
        ds['time'].encoding.update(units='days since 1990-01-01T00:00:00+10:00', calendar='proleptic_gregorian', dtype='float64')
        # (further date-time coordinates, stored after the time coordinate: which of several is "the" time coordinate is
        #  the library's rule - the first one in the dataset - and only that one is rewritten)
        for name in ('analysis_time', 'a_created', 'zz_forecast_reference'):
            ds = ds.assign_coords({name: (('record',), t - numpy.timedelta64(6, 'h'))})
            ds[name].encoding.update(units='hours since 2000-01-01T00:00:00-03:30', calendar='proleptic_gregorian', dtype='float64')
        src = os.path.join(work, 'src.nc')
        ds.to_netcdf(src)
        import emsarray
        opened = emsarray.open_dataset(src)
        out = os.path.join(work, 'out.nc')
        opened.ems.to_netcdf(out)
        with netCDF4.Dataset(out) as B:
            res = {n: B.variables[n].getncattr('units') for n in ('time', 'analysis_time')}
        back = emsarray.open_dataset(out)
        res['instants'] = [str(v) for v in back['time'].values]
        res['time_coordinate'] = str(opened.ems.time_coordinate.name)
        return res
    finally:
        shutil.rmtree(work, ignore_errors=True)


def format_units():
    """C17 / C20: the units formatter on a handful of epochs and offsets."""
    from emsarray.utils import format_time_units_for_ems
    return [format_time_units_for_ems(u) for u in (
        'days since 1990-01-01T00:00:00+10:00', 'hours since 2021-11-16 12:00:00 -03:30', 'seconds since 1970-01-01',
        'days since 1990-01-01 00:00:00', 'days since 2000-06-30T23:59:59+05:45')]


def clip_from_command_line():
    """C20: emsarray clip on a dataset with a time coordinate: exit status, time units in the output."""
    import contextlib
    import io
    import shutil
    import netCDF4
    from emsarray.cli import main
    work = _work()
    try:
        t = xarray.DataArray(numpy.array(['2020-01-01T00', '2020-01-02T00'], dtype='datetime64[ns]'), dims=['t'])
        ds = builders.cf1d(3, 4, data_vars={'temp': (('t', 'y', 'x'), numpy.arange(24.0).reshape(2, 3, 4))}).assign_coords(time=t)
        ds['time'].encoding.update(units='days since 1990-01-01T00:00:00+10:00', calendar='proleptic_gregorian', dtype='float64')
        src, out = os.path.join(work, 'in.nc'), os.path.join(work, 'out.nc')
        ds.to_netcdf(src)
        err = io.StringIO()
        with contextlib.redirect_stderr(err):
            try:
                main(['-q', 'clip', src, '99.0,9.5,102.9,11.4', out])
                status = 0
            except SystemExit as e:
                status = e.code if e.code is not None else 0
        res = dict(status=status, exists=os.path.exists(out))
        if res['exists']:
            with netCDF4.Dataset(out) as B:
                res['units'] = B.variables['time'].getncattr('units')
                res['shape'] = list(B.variables['temp'].shape)
        return res
    finally:
        shutil.rmtree(work, ignore_errors=True)


def normalise_depths_by_name():
    """C13: six depth coordinates given by name, non-dimension coordinates included."""
    from emsarray.operations.depth import normalize_depth_variables
    coords, data = {}, {}
    for k in range(6):
        dim = f'k{k}'
        name = f'depth{k}' if k % 2 else dim
        coords[name] = ((dim,), numpy.array([-1.0, -5.0, -20.0]) * (k + 1), {'positive': 'up', 'long_name': f'depth {k}'})
        data[f'v{k}'] = ((dim, 'x'), numpy.arange(6.0).reshape(3, 2) + k)
    ds = xarray.Dataset(data, coords=coords)
    out = normalize_depth_variables(ds, list(coords), positive_down=True, deep_to_shallow=True)
    return {n: dict(values=[float(v) for v in out[n].values], positive=out[n].attrs.get('positive'), dims=list(out[n].dims),
                    long_name=out[n].attrs.get('long_name')) for n in coords} | {
        f'v{k}': [float(v) for v in out[f'v{k}'].values[:, 0]] for k in range(6)}


def clip_save_reopen():
    """C08 / C09: a grid dataset with a time coordinate clipped, saved through the convention and reopened."""
    import shutil
    import shapely
    import emsarray
    work = _work()
    try:
        t = xarray.DataArray(numpy.array(['2020-01-01T00', '2020-01-02T00'], dtype='datetime64[ns]'), dims=['t'])
        ds = builders.cf1d(3, 4, data_vars={'temp': (('t', 'y', 'x'), numpy.arange(24.0).reshape(2, 3, 4))}).assign_coords(time=t)
        ds['time'].encoding.update(units='days since 1990-01-01T00:00:00+10:00', calendar='proleptic_gregorian', dtype='float64')
        clipped = ds.ems.clip(shapely.box(99.0, 9.5, 102.9, 11.4), os.path.join(work))
        out = os.path.join(work, 'clipped.nc')
        clipped.ems.to_netcdf(out)
        back = emsarray.open_dataset(out)
        return dict(convention=type(back.ems).__name__, shape=list(back['temp'].shape), values=[float(v) for v in back['temp'].values.ravel()],
                    polygons=[p.wkt for p in back.ems.polygons], instants=[str(v) for v in back['time'].values])
    finally:
        shutil.rmtree(work, ignore_errors=True)


def stations_in_two_models():
    """C05: one list of stations extracted from two models over the same region, one after the other."""
    import pandas
    import shapely
    from emsarray.operations import point_extraction
    out = {}
    stations = [(100.6, 10.4), (103.2, 11.6), (101.9, 12.3), (250.0, 80.0)]
    for name, (ny, nx) in (('coarse', (3, 4)), ('fine', (6, 12)), ('coarse-again', (3, 4))):
        lat = numpy.linspace(10.0, 12.5, ny)
        lon = numpy.linspace(100.0, 104.5, nx)
        ds = builders.cf1d(ny, nx, lat=lat, lon=lon, data_vars={'cell': (('y', 'x'), numpy.arange(ny * nx, dtype=float).reshape(ny, nx) + (1000 if name == 'fine' else 0))})
        pts = [shapely.Point(x, y) for x, y in stations]
        sel = ds.ems.select_points(pts, missing_points='drop')
        df = pandas.DataFrame({'lon': [s[0] for s in stations], 'lat': [s[1] for s in stations]})
        ext = point_extraction.extract_dataframe(ds, df, ('lon', 'lat'), missing_points='fill')
        # reference: nearest axis values (cells are midpoint rectangles)
        want = []
        for x, y in stations[:3]:
            j, i = int(numpy.abs(lat - y).argmin()), int(numpy.abs(lon - x).argmin())
            want.append(float(j * nx + i + (1000 if name == 'fine' else 0)))
        out[name] = dict(selected=[float(v) for v in sel['cell'].values], labels=[int(v) for v in sel['point'].values],
                         extracted=[None if v != v else float(v) for v in ext['cell'].values], want=want)
    return out


def export_with_staggered_axes():
    """C15: a CF file that carries the axes of a second, staggered grid (lat_v, lon_u: same units, other sizes)."""
    import json
    import shutil
    from emsarray.operations import geometry as G
    work = _work()
    try:
        lat = numpy.array([10.0, 11.0, 12.0])
        lon = numpy.array([100.0, 102.0, 104.0, 106.0])
        ds = builders.cf1d(3, 4, lat=lat, lon=lon, data_vars={'temp': (('y', 'x'), numpy.zeros((3, 4)))})
        ds = ds.assign(lat_v=(('yv',), numpy.array([9.5, 10.5, 11.5, 12.5]), {'units': 'degrees_north', 'long_name': 'latitude of v points'}),
                       lon_u=(('xu',), numpy.array([99.0, 101.0, 103.0, 105.0, 107.0]), {'units': 'degrees_east', 'long_name': 'longitude of u points'}))
        out = os.path.join(work, 'cells.geojson')
        G.write_geojson(ds, out)
        feats = json.load(open(out))['features']
        rings = [[[round(float(c[0]), 6), round(float(c[1]), 6)] for c in f['geometry']['coordinates'][0][:-1]] for f in feats]
        return dict(convention=type(ds.ems).__name__, count=len(feats), first=sorted(rings[0]), last=sorted(rings[-1]),
                    indexes=[f['properties']['linear_index'] for f in feats])
    finally:
        shutil.rmtree(work, ignore_errors=True)
