"""C03 - flattening and winding variables are exact inverses.

Real code: utils.ravel_dimensions, wind_dimension, move_dimensions_to_end,
splice_tuple, find_unused_dimension, DimensionConvention.ravel / wind /
get_grid_kind.  Every data value is a symbolic real with a NaN flag; the code
only moves values, so each postcondition asks z3 that the term found at a
position is the term that the reference layout puts there.
"""
import itertools
import re

import numpy
import xarray

from symx import builders
from symx.core import And, Not, Or, same, HarnessError
from symx.runner import Case, main_run, replay_file

PROP = 'C03'

EXTRA = [('t', 4), ('k', 5), ('e', 1)]


def make_convention(conv):
    from emsarray.conventions.grid import CFGrid1D, CFGrid2D
    from emsarray.conventions.shoc import ShocSimple, ShocStandard
    from emsarray.conventions.ugrid import UGrid
    if conv == 'cf1d':
        ds = builders.cf1d(2, 3, ydim='lat', xdim='lon')
        return ds, CFGrid1D(ds)
    if conv == 'cf2d':
        ds = builders.cf2d(2, 3)
        return ds, CFGrid2D(ds)
    if conv == 'shoc_simple':
        ds = builders.shoc_simple(2, 3)
        return ds, ShocSimple(ds)
    if conv == 'shoc_standard':
        ds = builders.shoc_standard(2, 3)
        return ds, ShocStandard(ds)
    if conv == 'ugrid':
        ds = builders.ugrid('tqp', with_edges=True)
        return ds, UGrid(ds)
    if conv == 'ugrid-implied':
        # no edge_dimension attribute: the edge grid is implied by the one edge table the file has
        ds = builders.ugrid('tqp', supply=('edge_node',), edge_dimension_attr=False)
        return ds, UGrid(ds)
    if conv == 'ugrid-transposed':
        # connectivity stored (nodes per face, faces): the face_dimension / edge_dimension attributes name the grids
        ds = builders.ugrid('tqp', supply=('edge_node',), transposed=True)
        return ds, UGrid(ds)
    if conv == 'cf1d-othernames':
        # latitude(y) / longitude(x): coordinate variables that are not named after their dimensions
        ds = builders.cf1d(2, 3, ydim='lat', xdim='lon', lat_name='latitude', lon_name='longitude')
        return ds, CFGrid1D(ds)
    if conv == 'ugrid-noedge':
        # a mesh that has no edges at all: two grids, and a variable on neither is on no grid
        ds = builders.ugrid('tqp')
        return ds, UGrid(ds)
    if conv == 'cf1d-named':
        # coordinate variables without identifying attributes, named by the caller
        ds = builders.cf1d(2, 3, ydim='lat', xdim='lon', lat_name='northing', lon_name='easting', as_coords=False,
                           lat_attrs=dict(units='m', standard_name='projection_y_coordinate'),
                           lon_attrs=dict(units='m', standard_name='projection_x_coordinate'))
        return ds, CFGrid1D(ds, latitude='northing', longitude='easting')
    if conv == 'ugrid-edges-declared':
        # the mesh names an edge dimension that no variable uses (the edge variables were dropped): faces and nodes
        # are wound as ever
        ds = builders.ugrid('tqp', with_edges=True, edge_marker=False)
        return ds, UGrid(ds)
    if conv == 'ugrid-implied-ef':
        ds = builders.ugrid('tqp', supply=('edge_face',), edge_dimension_attr=False)
        return ds, UGrid(ds)
    raise ValueError(conv)


def sym_array(ctx, shape, name='v'):
    arr = numpy.empty(shape, dtype=object if ctx.symbolic else float)
    for k, idx in enumerate(numpy.ndindex(*shape)):
        arr[idx] = ctx.real(f'{name}{k}', nan=True, hint=100.0 + k)      # distinct witness values: replays can tell elements apart
    return arr


def ref_dims(conv, kind):
    """The dimensions of each grid, in the documented order (latitude before longitude, j before i), written from the
    convention texts and the datasets built here - not read back from the code under test."""
    if conv.startswith('cf1d'):
        return ('lat', 'lon')
    if conv == 'cf2d':
        return ('y', 'x')
    if conv == 'shoc_simple':
        return ('j', 'i')
    if conv == 'shoc_standard':
        return tuple(builders.SHOC_DIMS[kind])
    return {'face': ('nface',), 'node': ('nnode',), 'edge': ('nedge',)}[kind]


def expected_grid(convention, kind_obj):
    dims = list(convention.grid_dimensions[kind_obj])
    sizes = [convention.dataset.sizes[d] for d in dims]
    return dims, sizes


def _short_lived_datasets():
    """Other datasets used and dropped earlier in the same process (a loop over files): nothing they leave behind -
    module-level caches, addresses that are used again - may reach the dataset that is checked next."""
    import gc
    from emsarray.conventions.grid import CFGrid1D
    from emsarray.conventions.ugrid import UGrid
    for rep in range(3):
        for shape in ((3, 2), (4, 6), (6, 4), (2, 7), (5, 5), (1, 12)):
            d = builders.cf1d(*shape, ydim='lat', xdim='lon')
            c = CFGrid1D(d)
            flat = c.ravel(xarray.DataArray(numpy.zeros(shape), dims=['lat', 'lon']))
            c.wind(flat)
            del d, c, flat
            gc.collect()
        for mesh in ('tq', 'fan'):
            d = builders.ugrid(mesh, with_edges=True)
            c = UGrid(d)
            c.wind(xarray.DataArray(numpy.zeros(len(builders.MESHES[mesh][1])), dims=['index']))
            del d, c
            gc.collect()


def body_roundtrip(ctx, conv, kind, extras, perm, linear_name, wind_by, coords=False, after_others=False, refusals_first=False):
    if after_others:
        _short_lived_datasets()
    ds, convention = make_convention(conv)
    if refusals_first:
        # variables that are on no grid were offered first and refused (one grid dimension only, a depth profile, a
        # scalar); what is on a grid is flattened as ever afterwards
        for k in convention.grid_kinds:
            gd = list(convention.grid_dimensions[k])
            for dims_ in [tuple(gd[:1]), tuple(gd[-1:]), ('k',), ('t', 'k'), ()] if len(gd) > 1 else [('k',), ('t', 'k'), ()]:
                shape_ = tuple(convention.dataset.sizes.get(d, 2) for d in dims_)
                try:
                    convention.ravel(xarray.DataArray(numpy.zeros(shape_), dims=dims_))
                except ValueError:
                    pass
        try:
            convention.depth_coordinates
        except Exception:
            pass
    kind_obj = next(k for k in convention.grid_kinds if k.value == kind)
    gdims, gsizes = expected_grid(convention, kind_obj)
    ctx.check(tuple(gdims) == ref_dims(conv, kind), 'the grid dimensions are the documented ones, in the documented order')
    size = int(numpy.prod(gsizes))
    extras = [(n, size if sz == 'grid' else sz) for n, sz in extras]      # 'grid': a dimension exactly as long as the flattened grid
    names = list(gdims) + [n for n, _ in extras]
    sizes = dict(zip(gdims, gsizes))
    sizes.update(dict(extras))
    dims = [names[p] for p in perm]
    shape = tuple(sizes[d] for d in dims)
    values = sym_array(ctx, shape)
    da = xarray.DataArray(values, dims=dims)
    if linear_name in ('@g0', '@g1'):
        # a linear dimension named like one of the grid dimensions it replaces
        linear_name = gdims[0] if linear_name == '@g0' else gdims[-1]
    if coords:
        # coordinates as real variables carry them: one per dimension, one auxiliary over the grid, one scalar
        cs = {d: (d, numpy.arange(sizes[d]) * 1.5 + 10) for d in dims}
        cs['aux'] = (tuple(gdims), numpy.arange(size, dtype=float).reshape(gsizes))
        cs['run'] = ((), 7)
        if other_extra := [d for d in dims if d not in gdims]:
            cs['label'] = (other_extra[0], numpy.arange(sizes[other_extra[0]]) + 100)
        da = da.assign_coords(cs)
    ctx.note('layout', dict(conv=conv, kind=kind, dims=[str(d) for d in dims], shape=list(shape)))

    # the grid kind is inferred from the dimensions
    ctx.check(convention.get_grid_kind(da) == kind_obj, 'grid kind inferred from the dimension set')

    kw = {} if linear_name is None else {'linear_dimension': linear_name}
    flat = convention.ravel(da, **kw)
    other = [d for d in dims if d not in gdims]
    if linear_name is None:
        lin = 'index'
        if lin in other:
            k = 0
            while f'index_{k}' in other:
                k += 1
            lin = f'index_{k}'
    else:
        lin = linear_name
    ctx.check(tuple(flat.dims) == tuple(other) + (lin,), 'ravel: other dimensions kept in order, linear dimension last')
    ctx.check(flat.shape == tuple(sizes[d] for d in other) + (size,), 'ravel: shape')
    fv = flat.values
    ok = []
    for oidx in numpy.ndindex(*[sizes[d] for d in other]):
        for n in range(size):
            g = numpy.unravel_index(n, gsizes)       # reference: row-major over the convention's grid dims
            sel = dict(zip(other, oidx))
            sel.update(dict(zip(gdims, (int(x) for x in g))))
            src = values[tuple(sel[d] for d in dims)]
            ok.append(same(fv[oidx + (n,)], src))
    ctx.check(And(*ok), 'ravel: element n of the flattened variable is the value at the native index of n')

    # wind it back
    axis = len(other)
    if wind_by == 'default':
        wound = convention.wind(flat, grid_kind=kind_obj)
    elif wind_by == 'axis':
        wound = convention.wind(flat, grid_kind=kind_obj, axis=axis)
    elif wind_by == 'negaxis':
        wound = convention.wind(flat, grid_kind=kind_obj, axis=-1)
    else:
        wound = convention.wind(flat, grid_kind=kind_obj, linear_dimension=lin)
    ctx.check(tuple(wound.dims) == tuple(other) + tuple(gdims),
              'wind: grid dimensions restored in convention order at the position of the linear dimension')
    wv = wound.values
    ok = []
    for widx in numpy.ndindex(*wound.shape):
        sel = dict(zip(wound.dims, widx))
        ok.append(same(wv[widx], values[tuple(sel[d] for d in dims)]))
    ctx.check(And(*ok), 'wind(ravel(v)) holds exactly the original values')


def body_wind_first(ctx, conv, kind, extras, position, by, fortran=False):
    """Wind arbitrary linear data whose linear dimension sits at `position`, then flatten again."""
    ds, convention = make_convention(conv)
    kind_obj = next(k for k in convention.grid_kinds if k.value == kind)
    gdims, gsizes = expected_grid(convention, kind_obj)
    ctx.check(tuple(gdims) == ref_dims(conv, kind), 'the grid dimensions are the documented ones, in the documented order')
    size = int(numpy.prod(gsizes))
    extras = [(n, size if sz == 'grid' else sz) for n, sz in extras]      # 'grid': a dimension exactly as long as the flattened grid
    lin = 'cells'
    dims = [n for n, _ in extras]
    dims.insert(position, lin)
    sizes = dict(extras)
    sizes[lin] = size
    shape = tuple(sizes[d] for d in dims)
    values = sym_array(ctx, shape, 'w')
    if fortran:
        # the same values held in a column-major buffer (what DataArray.transpose hands over): results depend on
        # the values, never on how the array happens to be laid out in memory
        held = numpy.asfortranarray(values) if values.ndim > 1 else values
        ctx.check(values.ndim < 2 or (held.flags.f_contiguous and not held.flags.c_contiguous) or min(shape) == 1, 'harness: column-major buffer built')
        da = xarray.DataArray(held, dims=dims)
    else:
        da = xarray.DataArray(values, dims=dims)
    if by == 'axis':
        # (an axis number computed with numpy - argmax, get_axis_num on some versions - is a numpy integer)
        wound = convention.wind(da, grid_kind=kind_obj, axis=numpy.intp(position) if position % 2 == 0 else position)
    elif by == 'name':
        wound = convention.wind(da, grid_kind=kind_obj, linear_dimension=lin)
    else:   # default: last dimension
        if position != len(dims) - 1:
            raise HarnessError('default winding needs the linear dimension last')
        wound = convention.wind(da) if kind == 'face' else convention.wind(da, grid_kind=kind_obj)
    exp_dims = dims[:position] + list(gdims) + dims[position + 1:]
    ctx.check(list(wound.dims) == exp_dims, 'wind: grid dimensions spliced in at the linear dimension, others untouched')
    ctx.check(wound.shape == tuple(sizes[d] if d in sizes and d != lin else convention.dataset.sizes[d] for d in exp_dims), 'wind: shape')
    wv = wound.values
    ok = []
    for widx in numpy.ndindex(*wound.shape):
        sel = dict(zip(wound.dims, widx))
        n = int(numpy.ravel_multi_index([sel[d] for d in gdims], gsizes))
        src = tuple(n if d == lin else sel[d] for d in dims)
        ok.append(same(wv[widx], values[src]))
    ctx.check(And(*ok), 'wind: the value of cell n lands at the native index of n')
    flat = convention.ravel(wound, linear_dimension=lin)
    rest = [d for d in dims if d != lin]
    ctx.check(list(flat.dims) == rest + [lin], 'ravel(wind(w)): linear dimension back (moved last)')
    fv = flat.values
    ok = []
    for fidx in numpy.ndindex(*flat.shape):
        sel = dict(zip(flat.dims, fidx))
        ok.append(same(fv[fidx], values[tuple(sel[d] for d in dims)]))
    ctx.check(And(*ok), 'ravel(wind(w)) is the identity on values')


def body_not_on_grid(ctx, conv, dims_kind):
    ds, convention = make_convention(conv)
    gd = convention.grid_dimensions
    if dims_kind == 'none':
        dims = ['t', 'k']
    elif dims_kind == 'partial':
        face = list(gd[convention.default_grid_kind])
        if len(face) < 2:
            dims = ['t']
        else:
            dims = ['t', face[0]]     # only one of the two surface dimensions
    else:
        dims = []
    shape = tuple(2 for _ in dims)
    values = sym_array(ctx, shape) if dims else (ctx.real('v0', nan=True))
    da = xarray.DataArray(values, dims=dims)
    for op in ('ravel', 'get_grid_kind'):
        try:
            getattr(convention, op)(da)
        except ValueError:
            continue
        ctx.check(False, f'{op} refuses a variable that is not defined on any grid')
    ctx.check(True, 'variables off every grid are refused with ValueError')


class FakeDims:
    """Stands for a Dataset/DataArray: only `.dims` is read by find_unused_dimension."""
    def __init__(self, dims):
        self.dims = dims


def body_unused(ctx, prefix):
    from emsarray import utils
    universe = [prefix] + [f'{prefix}_{k}' for k in range(4)] + ['other', f'{prefix}_x', f'{prefix}0']
    present = [ctx.bool(f'has_{k}') for k in range(len(universe))]
    dims = tuple(u for u, p in zip(universe, present) if bool(p))     # forks: all 2^8 subsets
    got = utils.find_unused_dimension(FakeDims(dims), prefix)
    ctx.check(got not in dims, 'find_unused_dimension never returns an existing name')
    if prefix not in dims:
        ctx.check(got == prefix, 'the prefix itself when it is free')
    else:
        k = 0
        while f'{prefix}_{k}' in dims:
            k += 1
        ctx.check(got == f'{prefix}_{k}', 'otherwise the least free prefix_k')
    # and on a real DataArray
    if dims:
        da = xarray.DataArray(numpy.zeros((1,) * len(dims)), dims=dims)
        ctx.check(utils.find_unused_dimension(da, prefix) == got, 'same answer for a real DataArray')


def body_long_dimensions(ctx, conv):
    """A record dimension longer than any block size in front of the grid, and many taken linear names (two-digit
    suffixes): flatten then wind gives the variable back, the default name is the first free one."""
    from emsarray import utils
    ds, convention = make_convention(conv)
    kind_obj = convention.default_grid_kind
    gdims, gsizes = expected_grid(convention, kind_obj)
    size = int(numpy.prod(gsizes))
    n = 129 + int(ctx.int('extra_records', 0, 1)) * 128
    vals = numpy.arange(n * size, dtype=float).reshape((n,) + tuple(gsizes)) * 0.5
    da = xarray.DataArray(vals, dims=('record',) + tuple(gdims))
    flat = convention.ravel(da)
    ctx.check(flat.shape == (n, size) and bool(numpy.array_equal(flat.values, vals.reshape(n, size))), 'ravel: element n of the flattened variable is the value at the native index of n')
    wound = convention.wind(flat)
    ctx.check(wound.dims == da.dims and bool(numpy.array_equal(wound.values, vals)), 'wind(ravel(v)) holds exactly the original values')
    last = xarray.DataArray(numpy.moveaxis(vals, 0, -1), dims=tuple(gdims) + ('record',))
    ctx.check(bool(numpy.array_equal(convention.ravel(last).values, vals.reshape(n, size))), 'ravel: element n of the flattened variable is the value at the native index of n')
    for taken in (['index'] + [f'index_{k}' for k in (0, 1, 2, 10)], ['index'] + [f'index_{k}' for k in range(12)], ['index', 'index_0', 'index_1', 'index_3', 'index_10', 'index_11']):
        k = 0
        while f'index_{k}' in taken:
            k += 1
        ctx.check(utils.find_unused_dimension(FakeDims(tuple(taken)), 'index') == f'index_{k}', 'otherwise the least free prefix_k')
        many = xarray.DataArray(numpy.zeros((1,) * len(taken) + tuple(gsizes)), dims=tuple(taken) + tuple(gdims))
        fl = convention.ravel(many)
        ctx.check(fl.dims == tuple(taken) + (f'index_{k}',), 'default linear dimension is the first unused index name')
        ctx.check(convention.wind(fl).dims == many.dims, 'wind(ravel(v)) holds exactly the original values')


def body_default_linear_collision(ctx, conv, taken):
    """The default linear dimension name avoids the variable's own dimensions."""
    ds, convention = make_convention(conv)
    kind_obj = convention.default_grid_kind
    gdims, gsizes = expected_grid(convention, kind_obj)
    ctx.check(tuple(gdims) == ref_dims(conv, kind_obj.value), 'the grid dimensions are the documented ones, in the documented order')
    dims = list(taken) + list(gdims)
    shape = tuple([2] * len(taken) + gsizes)
    values = sym_array(ctx, shape)
    da = xarray.DataArray(values, dims=dims)
    flat = convention.ravel(da)
    k = 0
    exp = 'index'
    if exp in taken:
        while f'index_{k}' in taken:
            k += 1
        exp = f'index_{k}'
    ctx.check(list(flat.dims) == list(taken) + [exp], 'default linear dimension is the first unused index name')
    wound = convention.wind(flat)
    ok = [same(wound.values[i], values[i]) for i in numpy.ndindex(*shape)]
    ctx.check(list(wound.dims) == dims and wound.shape == shape, 'wind restores the layout')
    ctx.check(And(*ok), 'wind(ravel(v)) == v with a colliding dimension name present')


KINDS = {'cf1d': ['face'], 'cf2d': ['face'], 'shoc_simple': ['face'],
         'shoc_standard': ['face', 'left', 'back', 'node'], 'ugrid': ['face', 'edge', 'node'],
         'ugrid-implied': ['edge'], 'ugrid-implied-ef': ['edge'], 'ugrid-edges-declared': ['face', 'node'],
         'ugrid-noedge': ['face', 'node'], 'cf1d-named': ['face'], 'ugrid-transposed': ['face', 'edge'], 'cf1d-othernames': ['face']}


def cases(tier):
    q = tier == 'quick'
    max_extra = 2 if q else 3
    for conv, kinds in KINDS.items():
        for kind in kinds:
            ngrid = 1 if conv.startswith('ugrid') else 2
            for ne in range(0, max_extra + 1):
                extras = EXTRA[:ne]
                perms = list(itertools.permutations(range(ngrid + ne)))
                if q and len(perms) > 6:
                    perms = perms[::4]
                if not q and len(perms) > 24 and conv in ('shoc_simple',):
                    perms = perms[::5]
                for pi, perm in enumerate(perms):
                    variants = [(None, 'default'), ('cells', 'name'), (None, 'axis')]
                    if pi % 3 == 0:
                        variants.append(('index', 'negaxis'))
                    for (ln, wb) in variants[: (2 if q and pi % 2 else 4)]:
                        p = ''.join(map(str, perm))
                        yield Case(f'roundtrip:{conv}:{kind}:x{ne}:p{p}:{ln}:{wb}', body_roundtrip,
                                   dict(conv=conv, kind=kind, extras=extras, perm=perm, linear_name=ln, wind_by=wb))
                    if pi % (4 if q else 2) == 0 and ne <= 2:
                        # variables that carry coordinates; linear dimension named like a grid dimension
                        for (ln, wb) in ((None, 'default'), ('@g0', 'name'), ('@g1', 'name'), ('cells', 'axis')):
                            if q and kind not in ('face', 'node') and ln is None:
                                continue
                            p = ''.join(map(str, perm))
                            yield Case(f'roundtrip+coords:{conv}:{kind}:x{ne}:p{p}:{ln}:{wb}', body_roundtrip,
                                       dict(conv=conv, kind=kind, extras=extras, perm=perm, linear_name=ln, wind_by=wb,
                                            coords=True))
            for ne in range(0, max_extra + 1):
                extras = EXTRA[:ne]
                for pos in range(ne + 1):
                    for by in ('axis', 'name') + (('default',) if pos == ne else ()):
                        yield Case(f'windfirst:{conv}:{kind}:x{ne}:pos{pos}:{by}', body_wind_first,
                                   dict(conv=conv, kind=kind, extras=extras, position=pos, by=by))
                    if ne >= 1 and (not q or kind in ('face', 'node')):
                        yield Case(f'windfirst:{conv}:{kind}:x{ne}:pos{pos}:name:column-major', body_wind_first,
                                   dict(conv=conv, kind=kind, extras=extras, position=pos, by='name', fortran=True))
        for kind in kinds[:2]:
            ngrid = 1 if conv.startswith('ugrid') else 2
            yield Case(f'roundtrip:{conv}:{kind}:x1:after-refusals', body_roundtrip,
                       dict(conv=conv, kind=kind, extras=EXTRA[:1], perm=tuple(range(ngrid + 1))[::-1], linear_name=None, wind_by='default', refusals_first=True))
        # after a series of other datasets has been flattened and wound in the same process
        for kind in kinds[:2]:
            ngrid = 1 if conv.startswith('ugrid') else 2
            yield Case(f'roundtrip:{conv}:{kind}:x1:after-other-datasets', body_roundtrip,
                       dict(conv=conv, kind=kind, extras=EXTRA[:1], perm=tuple(range(ngrid + 1)), linear_name=None, wind_by='default', after_others=True))
        # another dimension that happens to be as long as the flattened grid (twelve months on a 3x4 grid)
        for kind in kinds[:2]:
            ngrid = 1 if conv.startswith('ugrid') else 2
            yield Case(f'roundtrip:{conv}:{kind}:same-length-extra:default', body_roundtrip,
                       dict(conv=conv, kind=kind, extras=[('month', 'grid')], perm=tuple([ngrid] + list(range(ngrid))), linear_name=None, wind_by='default'))
            yield Case(f'windfirst:{conv}:{kind}:same-length-extra:default', body_wind_first,
                       dict(conv=conv, kind=kind, extras=[('month', 'grid'), ('t', 4)], position=2, by='default'))
        for dk in ('none', 'partial', 'scalar'):
            yield Case(f'offgrid:{conv}:{dk}', body_not_on_grid, dict(conv=conv, dims_kind=dk))
        for taken in ((), ('index',), ('index', 'index_0'), ('index_0',), ('index', 'index_1')):
            yield Case(f'collision:{conv}:{"+".join(taken) or "none"}', body_default_linear_collision,
                       dict(conv=conv, taken=taken))
    for prefix in ('index', 'point'):
        yield Case(f'unused:{prefix}', body_unused, dict(prefix=prefix), max_paths=600)
    for conv in ('cf1d', 'ugrid'):
        yield Case(f'long:{conv}', body_long_dimensions, dict(conv=conv), max_paths=4)


def functions():
    from emsarray import utils
    from emsarray.conventions import _base
    return [utils.ravel_dimensions, utils.wind_dimension, utils.move_dimensions_to_end, utils.splice_tuple,
            utils.find_unused_dimension, _base.DimensionConvention.ravel, _base.DimensionConvention.wind,
            _base.DimensionConvention.get_grid_kind]


def run(tier, seed=0, replay=None, procs=None, only=None):
    if replay:
        return replay_file(replay, list(cases('thorough')) + list(cases('quick')))
    cs = list(cases(tier))
    if only:
        cs = [c for c in cs if re.search(only, c.name)]
    q = tier == 'quick'
    extra_errors, extra_viol, extra_ev = [], [], {}
    from harness import crosshair_helpers
    ch = crosshair_helpers.run_splice_tuple(timeout=15 if q else 60)
    extra_ev['crosshair_splice_tuple'] = ch
    if ch.get('violations'):
        t, index, vals, r = ch['violations'][0]
        extra_viol.append(dict(case='crosshair:splice_tuple', label='splice_tuple replaces exactly the element at index by the values',
                               inputs=dict(t=list(t), index=index, values=list(vals)), detail=f'splice_tuple returned {r}',
                               how='CrossHair counterexample, reproduced by enumeration of the small domain on the real function'))
    elif ch.get('status') != 'ran' or ch.get('confirmed_postconditions', 0) < 4:
        if ch.get('crosshair_counterexamples'):
            extra_errors.append('crosshair counterexample for splice_tuple does not reproduce: ' + str(ch)[:400])
        else:
            extra_ev['crosshair_note'] = 'splice_tuple not confirmed over all paths within the time budget (inconclusive, not a verdict)'
    return main_run(
        PROP, tier, cs, functions=functions(), seed=seed, procs=procs, extra_evidence=extra_ev,
        extra_violations=extra_viol, extra_errors=extra_errors,
        bounds=dict(
            layouts=f'conventions x grid kinds x 0..{2 if q else 3} extra dimensions (sizes 4,5,1; grid 2x3 / mesh tqp) in '
                    f'{"a sample of" if q else "all (shoc_simple: every 5th)"} permutations of dimension order; winding by default '
                    f'position, axis=k, axis=-1, linear_dimension=name; custom and default linear names incl. collisions',
            symbolic='every data value: Real with NaN flag (moved, never altered)',
            find_unused_dimension='all 2^8 subsets of an 8-name universe around the prefix',
            outside='sizes other than 1..6 per dimension; more than 3 extra dimensions'),
        stubs=['none: numpy reshape/transpose and xarray run unmodified on object arrays'],
        assumptions=['numpy/xarray move object-array elements exactly as they move float64 elements '
                     '(validated on one float witness per path)'],
    )
