"""Shared by C08 / C09: datasets with data on every grid kind, the in-memory
stand-in for the per-variable netCDF round trip, running a clip in both modes."""
import contextlib
import os
import shutil
import tempfile

import numpy
import shapely
import xarray

from symx import builders, env, geo
from symx.core import HarnessError, SymBool, is_sym
from symx.runner import VERIF


class Store:
    """In-memory store whose contract is "what was written is what is merged back"."""
    def __init__(self):
        self.files = {}

    def write_dataset(self, ds, path, *a, **k):
        self.files[str(path)] = ds.copy(deep=False)

    def write_array(self, da, path, *a, **k):
        name = da.name if da.name is not None else '__xarray_dataarray_variable__'
        self.files[str(path)] = da.to_dataset(name=name)

    def open_mf(self, paths, **kw):
        parts = [self.files[str(p)] for p in paths]
        return xarray.merge(parts, compat='override', join='override', combine_attrs='override')


def store_patches(store):
    """Applied in symbolic mode only (object arrays cannot be written to netCDF)."""
    import emsarray.masking as masking
    import emsarray.utils as utils
    import emsarray.conventions.ugrid as ugrid
    from harness import depthcommon

    def to_netcdf_with_fixes(dataset, path, time_variable=None, **kw):
        dataset = dataset.copy(deep=False)
        utils.disable_default_fill_value(dataset)
        store.write_dataset(dataset, path)
    return env.patched(
        (masking, 'utils', env.Proxy(utils, dict(to_netcdf_with_fixes=to_netcdf_with_fixes))),
        (masking, 'xarray', env.Proxy(xarray, dict(open_mfdataset=store.open_mf))),
        (ugrid, 'xarray', env.Proxy(xarray, dict(open_mfdataset=store.open_mf))),
        (xarray.Dataset, 'to_netcdf', lambda self, path=None, *a, **k: store.write_dataset(self, path)),
        (xarray.DataArray, 'to_netcdf', lambda self, path=None, *a, **k: store.write_array(self, path)),
        depthcommon.pandas_isnull_patch(),
    )


@contextlib.contextmanager
def work_dir(ctx):
    if ctx.symbolic:
        yield '/nonexistent/in-memory'
        return
    os.makedirs(os.path.join(VERIF, '.work'), exist_ok=True)
    d = tempfile.mkdtemp(dir=os.path.join(VERIF, '.work'), prefix='clip-')
    try:
        yield d
    finally:
        shutil.rmtree(d, ignore_errors=True)


def sym_values(ctx, name, shape, base):
    arr = numpy.empty(shape, dtype=object if ctx.symbolic else float)
    for k, idx in enumerate(numpy.ndindex(*shape)):
        arr[idx] = ctx.real(f'{name}{k}', nan=True, hint=base + k)
    return arr


def ids(shape, dtype='int32', start=0):
    return (numpy.arange(int(numpy.prod(shape)), dtype=dtype) + start).reshape(shape)


def choose_hits(ctx, cv, polygons, fixed=None):
    """symbolic hit set behind the STRtree contract; returns (hits list of bools, clip geometry candidates).
    fixed: {cell: bool} - cells whose hit is given (larger grids: a fixed frame, symbolic interior)"""
    N = len(polygons)
    has = [p is not None for p in polygons]
    fixed = fixed or {}
    hits = [(fixed[n] if n in fixed else ctx.bool(f'hit{n}')) if has[n] else False for n in range(N)]
    chosen = [n for n in range(N) if has[n] and bool(hits[n])]         # forks
    areal = ctx.bool('areal')           # the clip geometry is a polygon / box, or a line / points
    if ctx.symbolic:
        tree = geo.StubTree(polygons, {n: SymBool(n in chosen) for n in range(N) if has[n]})
        cv.__dict__['strtree'] = tree
        return chosen, [geo.SymClip(polygons, [n in chosen for n in range(N)], False, areal)]
    return chosen, geo.of_dimension(geo.realise_hits(polygons, chosen), areal)[:2]
