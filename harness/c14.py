"""C14 - triangulation exactly partitions every cell polygon.

(a) Fan kernel (_triangulate_polygons_by_length) on polygons whose vertex
    coordinates are symbolic reals: z3 (nonlinear real arithmetic) shows n-2
    triangles (v0, vi, vi+1), signed areas adding up to the polygon's, and - for
    strictly convex polygons - every triangle oriented like the polygon (hence
    disjoint interiors and exact cover).
(b) Ear clipping (_triangulate_concave_polygon): the GEOS predicates that accept
    an ear are symbolic Bools (one per ring and candidate); under the two-ears
    assumption z3 shows n-2 triangles, each three consecutive vertices of the
    current ring, the ring shrinking by the middle vertex, areas adding up.
(c) triangulate_dataset on real datasets and meshes with an exact-cover oracle
    (validated on witnesses only: GEOS predicates, pandas de-duplication / join).
"""
import itertools
import re

import numpy
import shapely
import z3

from symx import builders, env, geo
from symx.core import And, HarnessError, Implies, Not, Or, SymBool, SymReal, close, same, ctx as cur_ctx
from symx.runner import Case, main_run, replay_file

PROP = 'C14'

NOMINAL = {
    3: [(0, 0), (4, 0), (1, 3)],
    4: [(0, 0), (4, 0), (5, 3), (1, 4)],
    5: [(0, 0), (4, 0), (6, 2), (3, 5), (-1, 3)],
    6: [(0, 0), (3, -1), (6, 0), (7, 3), (3, 5), (-1, 3)],
    7: [(0, 0), (3, -1), (6, 0), (7, 3), (5, 5), (2, 6), (-1, 3)],
    8: [(0, 0), (3, -1), (6, 0), (8, 2), (7, 5), (4, 6), (1, 6), (-1, 3)],
}
CONCAVE = {
    4: [(0, 0), (4, 0), (1, 1), (0, 4)],
    5: [(0, 0), (4, 0), (4, 4), (2, 1), (0, 4)],
    6: [(0, 0), (4, 0), (4, 4), (3, 4), (3, 1), (0, 1)],
    7: [(0, 0), (5, 0), (5, 3), (3, 1), (2, 3), (1, 1), (0, 3)],
}


def sym_ring(ctx, n, nominal, tag='v', reverse=False):
    pts = []
    nom = nominal[::-1] if reverse else nominal
    for k in range(n):
        pts.append((ctx.real(f'{tag}x{k}', hint=float(nom[k][0])), ctx.real(f'{tag}y{k}', hint=float(nom[k][1]))))
    return pts


def area2(pts):
    """twice the signed area (shoelace)"""
    acc = 0
    n = len(pts)
    for k in range(n):
        a, b = pts[k], pts[(k + 1) % n]
        acc = acc + (a[0] * b[1] - b[0] * a[1])
    return acc


def turn(a, b, c):
    return (b[0] - a[0]) * (c[1] - a[1]) - (b[1] - a[1]) * (c[0] - a[0])


# ---- stand-ins for shapely objects in symbolic mode -------------------------------------------

class Ring:
    def __init__(self, pts, owner=None):
        self.pts = list(pts)
        self.coords = list(pts) + [pts[0]]       # closed, as shapely exposes it
        self.owner = owner

    def intersection(self, other):
        return _Intersection(self, other)


class _Intersection:
    def __init__(self, ring, other):
        self.ring, self.other = ring, other

    def equals(self, multipoint):
        return EARS.boundary_is_two_points(self.ring, self.other)


class Poly:
    def __init__(self, pts):
        self.pts = list(pts)
        self.exterior = Ring(self.pts, self)
        POLYS.append(self)

    @property
    def wkt(self):
        return f'POLYGON({len(self.pts)} symbolic vertices)'


class Line:
    def __init__(self, pts):
        self.pts = list(pts)

    def covered_by(self, poly):
        return EARS.covered(poly, self)


class Points:
    def __init__(self, pts):
        self.pts = list(pts)


class EarOracle:
    """The two GEOS tests that accept an ear, as symbolic Bools per (ring size, candidate)."""
    def __init__(self):
        self.cov, self.bnd = {}, {}
        self.log = []

    def _key(self, poly_pts, line):
        ring = poly_pts
        i = next(k for k in range(len(ring)) if ring[k] is line.pts[0] or (ring[k][0] is line.pts[0][0] and ring[k][1] is line.pts[0][1]))
        return (len(ring), i)

    def covered(self, poly, line):
        key = self._key(poly.pts, line)
        if key not in self.cov:
            self.cov[key] = cur_ctx().bool(f'covered_{key[0]}_{key[1]}')
        return self.cov[key]

    def boundary_is_two_points(self, ring, line):
        key = self._key(ring.pts, line)
        if key not in self.bnd:
            self.bnd[key] = cur_ctx().bool(f'twopoints_{key[0]}_{key[1]}')
        return self.bnd[key]


EARS = None
POLYS = []


def _tri_patches():
    from emsarray.operations import triangulate

    def get_exterior_ring(polys):
        out = numpy.empty(len(polys), dtype=object)
        for k, p in enumerate(polys):
            out[k] = p.exterior
        return out

    def get_coordinates(rings):
        rows = []
        for r in rings:
            rows.extend([list(c) for c in r.coords])
        arr = numpy.empty((len(rows), 2), dtype=object)
        for k, row in enumerate(rows):
            arr[k, 0], arr[k, 1] = row
        return arr
    return env.patched(
        (triangulate, 'shapely', env.Proxy(shapely, dict(get_exterior_ring=get_exterior_ring, get_coordinates=get_coordinates))),
        (triangulate, 'Polygon', Poly), (triangulate, 'LineString', Line), (triangulate, 'MultiPoint', Points),
        (triangulate, 'numpy', env.Proxy(numpy, dict(empty=_np_empty))),
    )


def _np_empty(shape, dtype=float, **kw):
    # the ear clipper collects triangles in numpy.empty((k, 3, 2)): keep symbolic coordinates as objects
    if cur_ctx().symbolic and dtype is float:
        return numpy.empty(shape, dtype=object)
    return numpy.empty(shape, dtype=dtype, **kw)


def body_fan(ctx, n, count, reverse, convex):
    from emsarray.operations import triangulate
    global POLYS
    POLYS = []
    rings = [sym_ring(ctx, n, NOMINAL[n], tag=f'p{k}', reverse=reverse) for k in range(count)]
    if ctx.symbolic:
        ctx.nonlinear = True
        polys = numpy.empty(count, dtype=object)
        for k in range(count):
            polys[k] = Poly(rings[k])
    else:
        polys = numpy.array([shapely.Polygon(r) for r in rings], dtype=object)
    if convex:
        # strictly convex, counter-clockwise (reverse=True: clockwise)
        # (every other vertex strictly on the inner side of every edge; equal signs of consecutive turns
        #  alone would also admit star polygons that wind around twice)
        for r in rings:
            turns = [turn(r[k], r[(k + 1) % n], r[j]) for k in range(n) for j in range(n) if j not in (k, (k + 1) % n)]
            ctx.assume(And(*[(t < 0) if reverse else (t > 0) for t in turns]))
    tris = triangulate._triangulate_polygons_by_length(polys)
    ctx.check(tris.shape == (count, n - 2, 3, 2), 'n-2 triangles of three vertices for every n-sided polygon')
    for p in range(count):
        r = rings[p]
        # (which triangulation is produced is not prescribed - a fan around vertex 0 today - only that it is one of
        #  this polygon: every corner is a vertex of the polygon the triangle is reported for)
        oks = []
        for t in range(n - 2):
            for c in range(3):
                oks.append(Or(*[And(close(tris[p, t, c, 0], v[0]), close(tris[p, t, c, 1], v[1])) for v in r]))
        ctx.check(And(*oks), 'every triangle corner is a vertex of its own polygon')
        total = 0
        for t in range(n - 2):
            total = total + area2([tuple(tris[p, t, c]) for c in range(3)])
        ctx.check(close(total, area2(r)), "the triangles' signed areas add up to the polygon's area")
        if convex:
            ors = [area2([tuple(tris[p, t, c]) for c in range(3)]) for t in range(n - 2)]
            ctx.check(And(*[(a < 0) if reverse else (a > 0) for a in ors]),
                      'in a strictly convex polygon every fan triangle is oriented like the polygon (no overlap, exact cover)')


def body_ears(ctx, n, reverse):
    from emsarray.operations import triangulate
    global EARS, POLYS
    EARS, POLYS = EarOracle(), []
    ring = sym_ring(ctx, n, CONCAVE[n], reverse=reverse)
    if not ctx.symbolic:
        poly = shapely.Polygon(ring)
        if not (poly.is_valid and poly.area > 1e-9):
            ctx.check(True, 'witness is not a simple polygon: outside the claim')
            return
        tris = triangulate._triangulate_concave_polygon(poly)
        check_cover(ctx, poly, tris, n)
        return
    poly = Poly(ring)
    # two-ears theorem: every simple polygon with more than three vertices has an ear, so some candidate is accepted
    # for each ring size on the way down
    for m in range(n, 3, -1):
        alts = []
        for i in range(m - 2):
            c = EARS.cov.setdefault((m, i), ctx.bool(f'covered_{m}_{i}'))
            b = EARS.bnd.setdefault((m, i), ctx.bool(f'twopoints_{m}_{i}'))
            alts.append(And(c, b))
        ctx.assume(Or(*alts))
    try:
        tris = triangulate._triangulate_concave_polygon(poly)
    except ValueError as e:
        ctx.check(False, f'no ValueError while an ear exists: {e}')
        return
    ctx.check(tris.shape == (n - 2, 3, 2), 'n-2 triangles for an n-sided cell')
    # replay the clipping: each triangle is three consecutive vertices of the current ring, the middle one is removed
    current = list(ring)
    for t in range(n - 3):
        tri = [tuple(tris[t, c]) for c in range(3)]
        pos = [i for i in range(len(current) - 2)
               if all(tri[c][0] is current[i + c][0] and tri[c][1] is current[i + c][1] for c in range(3))]
        ctx.check(len(pos) >= 1, 'each triangle is three consecutive vertices of the remaining ring')
        if not pos:
            return
        i = pos[0]
        ctx.check(Or(And(EARS.cov[(len(current), i)], EARS.bnd[(len(current), i)])), 'only accepted ears are clipped')
        current = current[:i + 1] + current[i + 2:]
    last = [tuple(tris[n - 3, c]) for c in range(3)]
    ctx.check(len(current) == 3 and all(last[c][0] is current[c][0] and last[c][1] is current[c][1] for c in range(3)),
              'the last triangle is what remains of the ring')
    ctx.nonlinear = True
    total = 0
    for t in range(n - 2):
        total = total + area2([tuple(tris[t, c]) for c in range(3)])
    ctx.check(close(total, area2(ring)), "the triangles' signed areas add up to the polygon's area")


def check_cover(ctx, poly, tris, n, label=''):
    ctx.check(len(tris) == n - 2, f'{label}n-2 triangles for an n-sided cell')
    ts = [shapely.Polygon([tuple(p) for p in t]) for t in tris]
    tol = 1e-9 * poly.area            # relative: cells may be metres or degrees across
    ctx.check(all(t.area > 0 for t in ts), f'{label}no degenerate triangle')
    ctx.check(all(t.difference(poly).area <= tol for t in ts), f'{label}every triangle lies inside its cell')
    ctx.check(all(ts[a].intersection(ts[b]).area <= tol for a in range(len(ts)) for b in range(a + 1, len(ts))), f'{label}triangles do not overlap')
    ctx.check(abs(sum(t.area for t in ts) - poly.area) <= tol * 10, f"{label}triangle areas add up to the cell's area")


# ---- (c) whole datasets, exact-cover oracle ---------------------------------------------------

SHAPES = {
    'tri_ccw': [(0, 0), (2, 0), (1, 2)], 'tri_cw': [(0, 0), (1, 2), (2, 0)],
    'quad': [(3, 0), (5, 0), (5, 2), (3, 2)], 'quad_cw': [(3, 0), (3, 2), (5, 2), (5, 0)],
    'quad_collinear': [(6, 0), (7, 0), (8, 0), (8, 2), (6, 2)],
    'arrow': [(9, 0), (13, 0), (10, 1), (9, 4)], 'arrow_cw': [(9, 0), (9, 4), (10, 1), (13, 0)][::1],
    # the same concave quad with the reflex vertex at every ring position
    'arrow_r1': [(59, 4), (59, 0), (63, 0), (60, 1)], 'arrow_r2': [(64, 0), (68, 0), (65, 1), (64, 4)][1:] + [(64, 0)],
    'arrow_r3': [(70, 1), (69, 4), (69, 0), (73, 0)], 'arrow_r1_cw': [(75, 4), (76, 1), (79, 0), (75, 0)],
    # a diagonal between two vertices passes exactly through a third, non-adjacent reflex vertex
    'pinch': [(83, 3), (81, 4), (83, 0), (84, 1), (83, 1)],
    'L': [(14, 0), (18, 0), (18, 4), (17, 4), (17, 1), (14, 1)],
    'L_collinear': [(19, 0), (21, 0), (23, 0), (23, 4), (22, 4), (22, 1), (19, 1)],
    'zigzag': [(24, 0), (29, 0), (29, 3), (27, 1), (26, 3), (25, 1), (24, 3)],
    'hex': [(30, 0), (32, -1), (34, 0), (34, 2), (32, 3), (30, 2)],
    'oct': [(36, 0), (38, -1), (40, 0), (41, 2), (40, 4), (38, 5), (36, 4), (35, 2)],
    'oct_concave': [(43, 0), (45, 1), (47, 0), (46, 2), (47, 4), (45, 3), (43, 4), (44, 2)],
}


def _short_lived_triangulations():
    """Other datasets (with concave cells) triangulated and dropped earlier in the same process."""
    import gc
    from emsarray.operations.triangulate import triangulate_dataset
    names = list(SHAPES)
    for rep in range(5):
        nodes, faces = [], []
        for nm in names[rep:] + names[:rep]:
            base = len(nodes)
            nodes.extend([(x + 3.0 * rep, y - 2.0 * rep) for x, y in SHAPES[nm]])
            faces.append(list(range(base, base + len(SHAPES[nm]))))
        d = builders.ugrid((nodes, faces), fill='nan')
        triangulate_dataset(d)
        del d
        gc.collect()


def body_dataset(ctx, kind, after_others=False):
    from emsarray.operations.triangulate import triangulate_dataset
    if after_others:
        _short_lived_triangulations()
    which = 0 if kind == 'cf1d-big' else int(ctx.int('variant', 0, 3))
    if kind in ('mesh', 'mesh-small', 'mesh-attr', 'mesh-unsigned'):
        names = list(SHAPES)
        # every shape, in an order that depends on the variant (so concave cells sit at different linear indexes)
        chosen = names[which * 3:] + names[:which * 3]
        nodes, faces = [], []
        for nm in chosen:
            base = len(nodes)
            nodes.extend(SHAPES[nm])
            faces.append(list(range(base, base + len(SHAPES[nm]))))
        # two faces sharing an edge, so that vertices are shared
        base = len(nodes)
        nodes.extend([(50, 0), (52, 0), (52, 2), (50, 2), (54, 1)])
        faces.append([base, base + 1, base + 2, base + 3])
        faces.append([base + 1, base + 4, base + 2])
        if kind == 'mesh-small':
            # the same mesh at a resolution of about ten metres (cell areas ~1e-8 square degrees)
            nodes = [(150.0 + x * 1e-4, -20.0 + y * 1e-4) for x, y in nodes]
        if kind == 'mesh-attr' and which >= 1:
            # a face whose row of the table is padding only: a cell without geometry
            faces.insert(which, [])
        if kind == 'mesh-unsigned':
            # built in memory in unsigned integer types, padded with the largest value of the type (named by _FillValue)
            udt = ('uint32', 'uint16', 'uint8', 'uint32')[which]
            ds = builders.ugrid((nodes, faces), fill='attr', start_index=which % 2, dtype=udt, fill_value=int(numpy.iinfo(udt).max))
        elif kind == 'mesh-attr':
            # built in memory: integer tables, one-based, the fill value kept as an attribute (also 0 and a valid-looking 4)
            ds = builders.ugrid((nodes, faces), fill='attr', start_index=1, fill_value=[999999, 0, -1, 4][which])
        else:
            ds = builders.ugrid((nodes, faces), fill='nan', start_index=which % 2)
    elif kind == 'mesh-manysided':
        # convex cells with every number of sides from 3 to 20 (irregular), star-shaped cells with 9 to 14 corners;
        # the variant rotates where each ring starts and which way round it is listed
        import math
        nodes, faces = [], []
        shapes = []
        for n in range(3, 21):
            shapes.append([(round(3.0 * n + 1.2 * math.cos(2 * math.pi * (k + 0.3 * math.sin(k + n)) / n), 6),
                            round(0.9 * math.sin(2 * math.pi * (k + 0.3 * math.sin(k + n)) / n), 6)) for k in range(n)])
        for n in range(9, 15):
            shapes.append([(round(3.0 * n + (1.0 if k % 2 == 0 else 0.55) * math.cos(2 * math.pi * k / n), 6),
                            round(5.0 + (1.0 if k % 2 == 0 else 0.55) * math.sin(2 * math.pi * k / n), 6)) for k in range(n)])
        for ring in shapes:
            ring = ring[which:] + ring[:which]
            if which % 2:
                ring = ring[::-1]
            base = len(nodes)
            nodes.extend(ring)
            faces.append(list(range(base, base + len(ring))))
        ds = builders.ugrid((nodes, faces), fill='nan', start_index=which % 2)
    elif kind == 'cf2d':
        ds = _holes_cf2d(which)
    elif kind == 'cf2d-dart':
        # cells without geometry *before* a concave cell (a dart whose reflex vertex sits at ring position `which`)
        ds = _holes_cf2d(0)
        dart = [(0.0, 0.0), (0.9, 0.0), (0.25, 0.25), (0.0, 0.9)]          # reflex vertex third
        dart = dart[-which:] + dart[:-which] if which else dart
        lonb, latb = ds['lon_bnds'].values.copy(), ds['lat_bnds'].values.copy()
        for (j, i) in ((1, 1), (2, 2)):
            for c, (x, y) in enumerate(dart):
                lonb[j, i, c] = 100.0 + 2 * i - 0.5 * j - 0.4 + x
                latb[j, i, c] = 10.0 + j + 0.25 * i - 0.4 + y
        lonb[0, 1] = numpy.nan
        latb[0, 1] = numpy.nan
        ds['lon_bnds'] = (ds['lon_bnds'].dims, lonb)
        ds['lat_bnds'] = (ds['lat_bnds'].dims, latb)
    elif kind == 'shoc_standard':
        jj, ii = numpy.meshgrid(numpy.arange(4.0), numpy.arange(5.0), indexing='ij')
        nx_, ny_ = 100 + 2 * ii + 0.5 * jj, 10 + jj - 0.25 * ii
        nx_[which % 4, (which + 1) % 5] = numpy.nan
        ny_[which % 4, (which + 1) % 5] = numpy.nan
        ds = builders.shoc_standard(3, 4, node_x=nx_, node_y=ny_, face_x=numpy.zeros((3, 4)), face_y=numpy.zeros((3, 4)))
    elif kind in ('sparse8', 'sparse16'):
        # mostly land: few triangles, but the wet cells sit at linear indexes beyond 2^8 (2^16) - the cell index of a
        # triangle must not be stored in a type sized for the triangle count
        ny, nx = (2, 130 + which) if kind == 'sparse8' else (2, 32770 + which)
        jj, ii = numpy.meshgrid(numpy.arange(ny, dtype=float), numpy.arange(nx, dtype=float), indexing='ij')
        lat, lon = 10.0 + jj, 100.0 + ii * 0.001
        off = [(-1, -1), (1, -1), (1, 1), (-1, 1)]
        lonb = numpy.stack([lon + a * 0.0005 for a, b in off], axis=-1)
        latb = numpy.stack([lat + b * 0.5 for a, b in off], axis=-1)
        wet = numpy.zeros((ny, nx), dtype=bool)
        wet[1, nx - 3 - which:] = True
        wet[0, 1] = True
        lonb[~wet] = numpy.nan
        latb[~wet] = numpy.nan
        ds = builders.cf2d(ny, nx, lat=lat, lon=lon, lat_bounds=latb, lon_bounds=lonb)
    elif kind == 'cf1d-gaps':
        # cell bounds given by the dataset that do not meet edge to edge (gaps, an overlap), latitude north to south
        lat = numpy.array([12.0, 11.0, 10.0][:2 + which % 2])
        lon = numpy.array([100.0, 102.0, 104.0])
        ds = builders.cf1d(len(lat), 3, lat=lat, lon=lon, lat_bounds=numpy.stack([lat - 0.25, lat + 0.5], axis=-1),
                           lon_bounds=numpy.stack([lon - 0.75 - 0.125 * which, lon + 1.125], axis=-1))
    elif kind == 'cf2d-misdim':
        # 2-D bounds stored (x, y, 4) next to coordinates stored (y, x): ignored with a warning, cells derived from the centres
        jj, ii = numpy.meshgrid(numpy.arange(3.0), numpy.arange(4.0), indexing='ij')
        lat, lon = 10.0 + jj + 0.25 * ii, 100.0 + 2.0 * ii - 0.5 * jj + 0.1 * which
        off = [(-1, -1), (1, -1), (1, 1), (-1, 1)]
        lonb = numpy.stack([lon + a * 1.0 - b * 0.25 for a, b in off], axis=-1).transpose(1, 0, 2).copy()
        latb = numpy.stack([lat + a * 0.125 + b * 0.5 for a, b in off], axis=-1).transpose(1, 0, 2).copy()
        ds = builders.cf2d(3, 4, lat=lat, lon=lon, lat_bounds=latb, lon_bounds=lonb, bounds_dims=('x', 'y', 'four'))
    elif kind == 'cf1d-big':
        # more than 2**16 cells of one shape (a 260 x 270 grid): the last ones are triangulated like the first
        ds = builders.cf1d(260, 270 + which, lat=numpy.linspace(-40.0, -10.0, 260), lon=numpy.linspace(110.0, 160.0, 270 + which))
    elif kind == 'cf1d-int':
        # whole-degree coordinates stored in integer types, odd spacings (cell edges are half-way values)
        ds = builders.cf1d(2, 3, lat=numpy.array([[-12, -9], [10, 11], [0, 3], [-1, 0]][which], dtype=['int32', 'int64', 'int16', 'int8'][which]),
                           lon=numpy.array([146, 149, 150], dtype='int64'))
    else:
        ds = builders.cf1d(2 + which % 2, 3)
    if kind == 'cf2d-dart':
        # ... and a self-intersecting cell (corners listed crosswise): dropped with a warning, it has no triangles
        lonb, latb = ds['lon_bnds'].values.copy(), ds['lat_bnds'].values.copy()
        lonb[2, 0] = lonb[2, 0][[0, 2, 1, 3]]
        latb[2, 0] = latb[2, 0][[0, 2, 1, 3]]
        ds['lon_bnds'] = (ds['lon_bnds'].dims, lonb)
        ds['lat_bnds'] = (ds['lat_bnds'].dims, latb)
    from harness import geomref
    if kind != 'cf1d-big':
        geomref.check(ctx, ds, ds.ems)
    polygons = ds.ems.polygons
    vertices, triangles, faces_of = triangulate_dataset(ds)
    ctx.check(vertices.ndim == 2 and vertices.shape[1] == 2 and triangles.ndim == 2 and triangles.shape[1] == 3 and len(faces_of) == len(triangles),
              'result shapes')
    ctx.check(len({tuple(v) for v in vertices.tolist()}) == len(vertices), 'the vertex list has no duplicates')
    ctx.check(bool(((triangles >= 0) & (triangles < len(vertices))).all()), 'every vertex index is valid')
    ctx.check(all(0 <= int(f) < len(polygons) and polygons[int(f)] is not None and not polygons[int(f)].is_empty for f in faces_of),
              'every triangle names the linear index of a cell that has geometry')
    by_face = {}
    for t, f in zip(triangles, faces_of):
        by_face.setdefault(int(f), []).append(t)
    sample = None
    if kind == 'cf1d-big':
        N = len(polygons)
        sample = {0, 1, 2 ** 15, 2 ** 16 - 1, 2 ** 16, 2 ** 16 + 1, N - 271, N - 2, N - 1} | set(range(2 ** 16 + 100, N, 997))
        ctx.check(len(triangles) == 2 * N and bool(numpy.isfinite(vertices).all()), 'result shapes')
    for n, poly in enumerate(polygons):
        if sample is not None and n not in sample:
            continue
        mine = by_face.get(n, [])
        if poly is None or poly.is_empty:
            ctx.check(not mine, 'cells without geometry produce no triangles')
            continue
        sides = len(poly.exterior.coords) - 1
        tri_pts = [[tuple(vertices[int(i)]) for i in t] for t in mine]
        check_cover(ctx, poly, tri_pts, sides, label=f'cell {n}: ')
        ring = {tuple(c) for c in poly.exterior.coords}
        ctx.check(all(p in ring for t in tri_pts for p in t), f'cell {n}: triangle corners are vertices of the cell')
    if kind == 'cf1d-big':
        return
    # asked again - after the caller has scribbled over what it was given - the answer is the same
    kept = [numpy.array(a, copy=True) for a in (vertices, triangles, faces_of)]
    for a in (vertices, triangles, faces_of):
        if isinstance(a, numpy.ndarray) and a.flags.writeable and a.size:
            a[...] = a[::-1].copy()
            a[0] = a[0] * 0
    again = triangulate_dataset(ds)
    ctx.check(all(numpy.asarray(x).shape == y.shape and bool(numpy.array_equal(numpy.asarray(x), y)) for x, y in zip(again, kept)),
              'triangulating the same dataset again gives the same answer, whatever the caller did with the first one')


def _holes_cf2d(which):
    ny, nx = 3, 3
    jj, ii = numpy.meshgrid(numpy.arange(ny, dtype=float), numpy.arange(nx, dtype=float), indexing='ij')
    lat, lon = 10.0 + jj + 0.25 * ii, 100.0 + 2 * ii - 0.5 * jj
    off = [(-1, -1), (1, -1), (1, 1), (-1, 1)]
    lonb = numpy.stack([lon + a * 1.0 - b * 0.25 for a, b in off], axis=-1)
    latb = numpy.stack([lat + a * 0.125 + b * 0.5 for a, b in off], axis=-1)
    lonb[which % 3, (which * 2) % 3] = numpy.nan
    latb[which % 3, (which * 2) % 3] = numpy.nan
    return builders.cf2d(ny, nx, lat=lat, lon=lon, lat_bounds=latb, lon_bounds=lonb)


def cases(tier):
    q = tier == 'quick'
    for n in (range(3, 7) if q else range(3, 9)):
        for reverse in (False, True):
            yield Case(f'fan:n{n}:{"cw" if reverse else "ccw"}:identity', body_fan, dict(n=n, count=2, reverse=reverse, convex=False),
                       patches=_tri_patches, max_paths=10, solver='default')
            if n <= (5 if q else 6):
                yield Case(f'fan:n{n}:{"cw" if reverse else "ccw"}:convex', body_fan, dict(n=n, count=1, reverse=reverse, convex=True),
                           patches=_tri_patches, max_paths=10, solver='nlsat')
    for n in ((4, 5, 6) if q else (4, 5, 6, 7)):
        for reverse in (False, True):
            yield Case(f'ears:n{n}:{"rev" if reverse else "fwd"}', body_ears, dict(n=n, reverse=reverse), patches=_tri_patches,
                       max_paths=50000, split=16)
    for kind in ('mesh', 'mesh-manysided', 'mesh-small', 'mesh-attr', 'mesh-unsigned', 'cf1d-gaps', 'cf2d-misdim', 'cf2d', 'cf2d-dart', 'shoc_standard', 'cf1d', 'cf1d-int', 'sparse8') + (() if q else ('sparse16',)):
        yield Case(f'dataset:{kind}', body_dataset, dict(kind=kind), max_paths=20)
    yield Case('dataset:cf1d-big', body_dataset, dict(kind='cf1d-big'), max_paths=2)
    for kind in ('mesh', 'cf2d-dart'):
        yield Case(f'dataset:{kind}:after-other-datasets', body_dataset, dict(kind=kind, after_others=True), max_paths=20)


def functions():
    from emsarray.operations import triangulate
    return [triangulate._triangulate_polygons_by_length, triangulate._triangulate_concave_polygon, triangulate.triangulate_dataset]


def run(tier, seed=0, replay=None, procs=None, only=None):
    if replay:
        return replay_file(replay, list(cases('thorough')) + list(cases('quick')))
    cs = list(cases(tier))
    if only:
        cs = [c for c in cs if re.search(only, c.name)]
    q = tier == 'quick'
    return main_run(
        PROP, tier, cs, functions=functions(), seed=seed, procs=procs,
        bounds=dict(
            fan=f'n = 3..{6 if q else 8} vertices with arbitrary real coordinates, both windings, two polygons per batch; the orientation '
                f'claim for strictly convex polygons up to n = {5 if q else 6}',
            ears=f'n = 4..{6 if q else 7}; every pattern of accepted / rejected ear candidates that leaves at least one ear per ring size',
            datasets='a mesh of 7-9 faces drawn from 13 shapes (triangles, quads, L, arrow, zig-zag, collinear vertices, both windings, '
                     '3..8 sides, two faces sharing an edge), CF 2-D with a hole, SHOC standard with a masked node, CF 1-D',
            outside='that an accepted ear really lies inside a concave cell (GEOS covered_by / intersection) and the pandas vertex '
                    'de-duplication and join: validated on the real datasets with an exact-cover oracle, not for all inputs; IEEE rounding'),
        stubs=['shapely.get_exterior_ring / get_coordinates -> the symbolic ring; Polygon / LineString / MultiPoint -> record their '
               'coordinates; covered_by and intersection(...).equals(...) -> one symbolic Bool per (ring size, candidate), '
               'with the two-ears theorem as an assumption'],
        assumptions=['two-ears theorem', 'floats are reals'],
    )
