"""C17 - saving with the EMS fixes preserves data, geometry and time instants.

(a) The UTC-offset formatter: the statements of utils.format_time_units_for_ems
    that compute the emitted text are sliced from the function's current AST and
    interpreted over a symbolic offset (z3 Int minutes, z3 String text).  cftime's
    reader is the oracle: its grammar is the live TIMEZONE_REGEX pattern
    (translated to z3), its value function is modelled and diffed against the real
    cftime._parse_date on every offset at each run.  z3 decides, for every offset
    in [-1440, 1440]: the emitted text is read back as the same offset.
(b) disable_default_fill_value with symbolic membership of _FillValue in
    encoding / attrs and a symbolic "dtype promotes" flag.
(c) real save / reopen round trips per convention (validated on witnesses only).
"""
import ast
import inspect
import os
import re
import shutil
import tempfile
import textwrap
import time

import numpy
import z3

from symx import astsym, builders, env, smtre
from symx.core import And, HarnessError, Iff, Implies, Not, Or, SymBool, same, ctx as cur_ctx
from symx.runner import Case, VERIF, main_run, replay_file

PROP = 'C17'
LO, HI = -1440, 1440


# ---- (a) ------------------------------------------------------------------------------------

def slice_formatter():
    """Statements of format_time_units_for_ems from the first use of time_bits[-1]
    in offset arithmetic up to and including the assignment of new_units."""
    from emsarray import utils
    src = textwrap.dedent(inspect.getsource(utils.format_time_units_for_ems))
    fn = ast.parse(src).body[0]
    stmts = [s for s in fn.body if isinstance(s, (ast.Assign, ast.AnnAssign))]
    names = {}
    for i, s in enumerate(stmts):
        for t in (s.targets if isinstance(s, ast.Assign) else [s.target]):
            for n in ast.walk(t):
                if isinstance(n, ast.Name):
                    names[n.id] = i
    if 'new_units' not in names:
        raise HarnessError('format_time_units_for_ems no longer assigns new_units')
    end = names['new_units']
    # backward slice from new_units, stopping at the values the environment provides
    provided = {'period', 'offset_datetime', 'time_bits', 'offset_total', 'units', 'calendar', 'date_string', 'tzinfo',
                'reference_datetime'}
    needed, keep = set(), []
    for n in ast.walk(stmts[end].value):
        if isinstance(n, ast.Name):
            needed.add(n.id)
    keep.append(end)
    for i in range(end - 1, -1, -1):
        tg = set()
        for t in (stmts[i].targets if isinstance(stmts[i], ast.Assign) else [stmts[i].target]):
            for n in ast.walk(t):
                if isinstance(n, ast.Name):
                    tg.add(n.id)
        if tg & needed and not tg <= {'period', 'offset_datetime', 'tzinfo', 'reference_datetime', 'time_bits', 'date_string'}:
            keep.append(i)
            needed -= tg
            for n in ast.walk(stmts[i].value):
                if isinstance(n, ast.Name):
                    needed.add(n.id)
    keep.sort()
    return [stmts[i] for i in keep], src


def reader_conformance():
    """The reader model equals the real cftime._parse_date on every offset, both spellings."""
    import cftime
    rx = cftime._cftime.TIMEZONE_REGEX
    n = 0
    for o in range(LO, HI + 1):
        sgn = '-' if o < 0 else '+'
        h, m = divmod(abs(o), 60)
        for text in (f'{sgn}{h:02d}:{m:02d}', f'{sgn}{h:02d}{m:02d}', f'{sgn}{h}:{m:02d}', f'{sgn}{h:02d}'):
            real = cftime._parse_date(f'1990-01-01 00:00:00 {text}')[-1]
            fm = rx.fullmatch(text)
            if fm is None:
                model = 0       # unparsed trailing text: cftime reads the instant as UTC
            else:
                hh = int(text[1:3])
                mm = int(text[4:6]) if len(text) == 6 else (int(text[3:5]) if len(text) == 5 else 0)
                model = (-1 if text[0] == '-' else 1) * (hh * 60 + mm)
            if float(real) != float(model):
                raise HarnessError(f'cftime reader model disagrees with cftime._parse_date on {text!r}: {real} vs {model}')
            n += 1
    return n


def iso_offset(o):
    sgn = '-' if o < 0 else '+'
    h, m = divmod(abs(o), 60)
    return f'{sgn}{h:02d}:{m:02d}'


def real_format_check(units):
    """Run the real function; returns (ok, detail)."""
    import cftime
    from emsarray import utils
    try:
        new = utils.format_time_units_for_ems(units)
    except Exception as e:
        return False, f'format_time_units_for_ems({units!r}) raised {type(e).__name__}: {e}'
    if not re.fullmatch(r'[a-z]+ since \d{4}-\d{2}-\d{2} \d{2}:\d{2}:\d{2} [+-]\d{1,2}(:?\d{2})?', new):
        return False, f'{units!r} -> {new!r}: not of the form "<unit> since YYYY-MM-DD HH:MM:SS <signed offset>"'
    a = cftime.num2pydate(0, units, 'proleptic_gregorian')
    b = cftime.num2pydate(0, new, 'proleptic_gregorian')
    if a != b:
        return False, f'{units!r} -> {new!r}: reference instant changed from {a} to {b}'
    return True, new


def body_formatter(ctx, region):
    """For every offset in the region: the emitted offset text is in the reader's
    grammar and is read back as the same offset."""
    import cftime
    lo, hi = region
    o = ctx.int('offset_minutes', lo, hi)
    if not ctx.symbolic:
        units = f'days since 1990-01-01T00:00:00{iso_offset(o)}'
        ok, detail = real_format_check(units)
        ctx.note('units', units)
        ctx.check(ok, 'the rewritten units denote the same reference instant for every UTC offset')
        for units in (f'hours since 2021-11-16 12:00:00 {iso_offset(o)}', f'seconds since 1999-12-31T23:59:59{iso_offset(o)}'):
            ok, detail = real_format_check(units)
            ctx.check(ok, 'the rewritten units denote the same reference instant for every UTC offset')
        return
    stmts, src = slice_formatter()
    period, dt = astsym.Opaque('period'), astsym.Opaque('offset_datetime')
    it = astsym.Interp({'time_bits[-1]': o, 'offset_total': o, 'period': period, 'offset_datetime': dt})
    it.run(stmts)
    text = it.env['new_units']
    if not isinstance(text, astsym.Text):
        raise HarnessError('new_units is not a string built in the slice')
    cells = text.cells
    # shape: {period} since {datetime:%Y-%m-%d %H:%M:%S} <offset text>
    # the date-time part may be written in one piece or in several ({dt.year:04d}-{dt:%m-...}): what counts is the template
    pre = [('opaque', 'period')] + [('lit', c) for c in ' since ']
    ctx.check(cells[:len(pre)] == pre, "units have the form '<unit> since <date-time> <offset>'")
    k, template, pieces = len(pre), '', list(dt.formats)
    last_dt = max([i for i, c in enumerate(cells) if c == ('opaque', 'offset_datetime')] or [k - 1])
    while k <= last_dt:
        if cells[k] == ('opaque', 'offset_datetime'):
            template += pieces.pop(0) if pieces else '?'
        elif cells[k][0] == 'lit':
            template += cells[k][1]
        else:
            template += '?'
        k += 1
    ctx.check(k < len(cells) and cells[k] == ('lit', ' '), "units have the form '<unit> since <date-time> <offset>'")
    head = cells[:k + 1]
    # a zero-padded four-digit year is what YYYY stands for
    ctx.check(template.replace('{year:04d}', '%Y') == '%Y-%m-%d %H:%M:%S' and not pieces, "date-time part is formatted as 'YYYY-MM-DD HH:MM:SS'")
    off = astsym.Text(cells[len(head):])
    rep = off.representative()
    ctx.note('offset_text_shape', rep)
    rx = cftime._cftime.TIMEZONE_REGEX
    m = rx.fullmatch(rep)
    # an offset text outside the reader's grammar is read as UTC: only offset 0 survives that
    if m is None:
        ctx.check(same(o, 0), 'the emitted offset text is in the grammar the time library reads (otherwise the instant moves)')
        return
    g = m.groupdict()
    sign_cell = off.cells[m.start('prefix')]
    ctx.check(sign_cell[0] == 'lit', 'sign is a literal character')
    hours = off.number(*m.span('hours'))
    key = 'minutes1' if g.get('minutes1') is not None else ('minutes2' if g.get('minutes2') is not None else None)
    minutes = off.number(*m.span(key)) if key else 0
    value = (hours * 60 + minutes) * (-1 if sign_cell[1] == '-' else 1)
    from symx.core import SymInt as _SI
    ctx.check(same(_SI(value), o), 'the rewritten units denote the same reference instant for every UTC offset')


# ---- (b) ------------------------------------------------------------------------------------

class SymMapping:
    """dict-like whose membership of '_FillValue' is a symbolic Bool (forks when tested)."""
    def __init__(self, has_fill, value=None):
        self.has_fill = has_fill
        self.value = value          # the fill value itself (symbolic: zero is a legal fill value)
        self.set = {}

    def get(self, key, default=None):
        return self[key] if key in self else default

    def __contains__(self, key):
        if key in self.set:
            return True
        if key == '_FillValue':
            return bool(self.has_fill)
        return False

    def __setitem__(self, key, value):
        self.set[key] = value

    def __getitem__(self, key):
        if key in self.set:
            return self.set[key]
        if key == '_FillValue' and bool(self.has_fill):
            return self.value
        raise KeyError(key)


class FakeVariable:
    def __init__(self, dtype, enc, attrs):
        self.dtype, self.encoding, self.attrs = dtype, enc, attrs


class FakeArray:
    """Stands for a DataArray: disable_default_fill_value reads only `.variable`."""
    def __init__(self, variable):
        self.variable = variable


def body_fill(ctx, dtype):
    from emsarray import utils
    in_enc, in_attrs = ctx.bool('in_encoding'), ctx.bool('in_attrs')
    fill_enc, fill_attrs = ctx.real('fill_in_encoding', hint=7.0), ctx.real('fill_in_attrs', hint=-999.0)
    if ctx.symbolic:
        var = FakeVariable(numpy.dtype(dtype), SymMapping(in_enc, fill_enc), SymMapping(in_attrs, fill_attrs))
        utils.disable_default_fill_value(FakeArray(var))
        was_set = '_FillValue' in var.encoding.set
        value = var.encoding.set.get('_FillValue', 'unset')
        attrs_touched = bool(var.attrs.set)
    else:
        import xarray
        da = xarray.DataArray(numpy.zeros(2, dtype=dtype), dims=('x',))
        if in_enc:
            da.variable.encoding['_FillValue'] = numpy.dtype(dtype).type(fill_enc) if numpy.dtype(dtype).kind in 'iuf' else fill_enc
        if in_attrs:
            da.variable.attrs['_FillValue'] = numpy.dtype(dtype).type(fill_attrs) if numpy.dtype(dtype).kind in 'iuf' else fill_attrs
        before_enc, before_attrs = dict(da.variable.encoding), dict(da.variable.attrs)
        utils.disable_default_fill_value(da)
        enc = da.variable.encoding
        was_set = enc.get('_FillValue', 'unset') != before_enc.get('_FillValue', 'unset')
        value = enc.get('_FillValue', 'unset')
        attrs_touched = dict(da.variable.attrs) != before_attrs
    floaty = numpy.dtype(dtype).kind in 'fcmM'     # dtypes that can hold a missing value: xarray would add a default _FillValue
    had = Or(in_enc, in_attrs)
    ctx.check(Implies(had, Not(was_set)), 'a fill value the source already has is left alone')
    ctx.check(not attrs_touched, 'attributes are never touched')
    if floaty:
        ctx.check(Implies(Not(had), And(was_set, value is None)),
                  'variables without a fill value get _FillValue=None so that none is invented on save')
    else:
        ctx.check(Implies(was_set, value is None), 'integer variables are at most marked _FillValue=None')


# ---- (c) ------------------------------------------------------------------------------------

def roundtrip_checks(tier):
    import xarray
    import emsarray
    viol, notes = [], []
    os.makedirs(os.path.join(VERIF, '.work'), exist_ok=True)
    work = tempfile.mkdtemp(dir=os.path.join(VERIF, '.work'), prefix='c17-')

    def V(case, label, detail, inputs=None):
        viol.append(dict(case=case, label=label, inputs=inputs or {}, detail=str(detail)[:1500], how='real save / reopen round trip'))
    try:
        # '' = an epoch without any offset (xarray then writes a bare date / date-time)
        offsets = ['+10:00', '-03:30', '+05:30', ''] if tier == 'quick' else ['+10:00', '-03:30', '+05:30', '+00:00', '', '-11:00', '+12:45', '-00:30']
        for k, off in enumerate(offsets):
            for conv in ('cf1d', 'shoc_standard', 'ugrid', 'cf2d'):
              for scalar_time, time_bounds in (((False, False), (True, False), (False, True), (False, 'data-variable')) if k < 2 else ((False, False),)):
                    tname = 't' if conv == 'shoc_standard' else 'time'
                    tdim = 'record'
                    tvals = numpy.array(['2020-01-01T00:00', '2020-01-02T12:00'], dtype='datetime64[ns]')
                    if conv == 'cf1d':
                        ds = builders.cf1d(2, 3, data_vars={'temp': ((tdim, 'y', 'x'), numpy.arange(12.0).reshape(2, 2, 3)),
                                                            'count': (('y', 'x'), numpy.arange(6, dtype='int32').reshape(2, 3))})
                    elif conv == 'cf2d':
                        ds = builders.cf2d(2, 2, data_vars={'temp': ((tdim, 'y', 'x'), numpy.arange(8.0).reshape(2, 2, 2))})
                    elif conv == 'shoc_standard':
                        ds = builders.shoc_standard(2, 2, data_vars={'eta': ((tdim,) + builders.SHOC_DIMS['face'], numpy.arange(8.0).reshape(2, 2, 2))})
                    else:
                        ds = builders.ugrid('tqp', fill='nan', data_vars={'eta': ((tdim, 'nface'), numpy.arange(6.0).reshape(2, 3))})
                    if time_bounds == 'data-variable':
                        # time held as a plain data variable (nothing makes it a coordinate)
                        ds[tname] = ((tdim,), tvals)
                    else:
                        ds = ds.assign_coords({tname: ((tdim,), tvals)})
                    units = f'days since 1990-01-01T00:00:00{off}' if off else ('days since 1990-01-01' if k % 2 else 'days since 1990-01-01 00:00:00')
                    # (the three names of the same calendar for these dates)
                    calendar = ('proleptic_gregorian', 'standard', 'gregorian')[(k + len(conv)) % 3]
                    ds[tname].encoding.update(units=units, calendar=calendar, dtype='float64')
                    if time_bounds:
                        # each time step has an interval: a bounds variable (decoded as times, no units of its own)
                        ds[tname].attrs['bounds'] = tname + '_bnds'
                        ds[tname + '_bnds'] = ((tdim, 'nv'), numpy.stack([tvals - numpy.timedelta64(6, 'h'), tvals + numpy.timedelta64(6, 'h')], axis=-1))
                        if time_bounds == 'data-variable':
                            # ... and its bounds are stored ahead of it
                            ds = ds[[tname + '_bnds'] + [n for n in ds.data_vars if n != tname + '_bnds']]
                    if scalar_time:
                        # one time step selected: the time coordinate is a scalar and is still saved with EMS units
                        ds = ds.isel({tdim: 1})
                    src = os.path.join(work, f'{conv}-{k}-{int(scalar_time)}{str(time_bounds)[:1]}-src.nc')
                    # the source has no fill-value attribute on variables that do not declare one (also coordinates)
                    for n, v in ds.variables.items():
                        if v.dtype.kind in 'fcmM' and '_FillValue' not in v.encoding and '_FillValue' not in v.attrs:
                            v.encoding['_FillValue'] = None
                    ds.to_netcdf(src)
                    orig = emsarray.open_dataset(src)
                    cls = type(orig.ems)
                    out = os.path.join(work, f'{conv}-{k}-{int(scalar_time)}{str(time_bounds)[:1]}-out.nc')
                    case = f'roundtrip:{conv}:{off}:{calendar}' + (':scalar-time' if scalar_time else '') + (':time-bounds' if time_bounds else '') + (':time-is-a-data-variable' if time_bounds == 'data-variable' else '')
                    try:
                        orig.ems.to_netcdf(out)
                    except Exception as e:
                        V(case, 'saving through the convention succeeds', f'{type(e).__name__}: {e}', dict(units=units))
                        continue
                    back = emsarray.open_dataset(out)
                    if type(back.ems) is not cls:
                        V(case, 'the saved file is a dataset of the same convention', f'{cls.__name__} -> {type(back.ems).__name__}')
                        continue
                    if not all((a is None and b is None) or (a is not None and b is not None and a.equals(b))
                               for a, b in zip(orig.ems.polygons, back.ems.polygons)):
                        V(case, 'identical polygons after the round trip', 'polygons differ')
                    for name in orig.variables:
                        if name not in back.variables:
                            V(case, 'identical variables after the round trip', f'{name} missing')
                            continue
                        a, b = orig[name].values, back[name].values
                        same = (a.shape == b.shape) and (numpy.array_equal(a, b, equal_nan=True) if a.dtype.kind in 'fc' else numpy.array_equal(a, b))
                        if not same:
                            V(case, 'identical variable values / time instants after the round trip', f'{name}: {a} != {b}')
                    import netCDF4
                    with netCDF4.Dataset(src) as A, netCDF4.Dataset(out) as B:
                        for name, var in B.variables.items():
                            fa = '_FillValue' in A.variables[name].ncattrs() if name in A.variables else False
                            if '_FillValue' in var.ncattrs() and not fa:
                                V(case, 'no fill-value attributes that the source did not have', f'{name} gained _FillValue')
                        tu = B.variables[tname].getncattr('units')
                        if not re.fullmatch(r'days since \d{4}-\d{2}-\d{2} \d{2}:\d{2}:\d{2} [+-]\d{1,2}(:?\d{2})?', tu):
                            V(case, "time units have the form '<unit> since YYYY-MM-DD HH:MM:SS <signed offset>'", tu)
                    orig.close()
                    back.close()
                    notes.append(case)
        # a mesh built in memory (one-based integer tables, fill value kept as an attribute) saved through the convention
        from harness import geomref

        class _Ctx:
            def check(self, cond, label, soft=False):
                if not cond:
                    V('roundtrip:ugrid:in-memory', label, 'in-memory one-based mesh with _FillValue attribute')
        for fv in (999999, 0, -1):
            mem = builders.ugrid('tqp', fill='attr', start_index=1, fill_value=fv, supply=('edge_node',),
                                 data_vars={'eta': (('record', 'nface'), numpy.arange(6.0).reshape(2, 3))})
            try:
                ref = geomref.check(_Ctx(), mem, mem.ems)
            except Exception as e:
                V('roundtrip:ugrid:in-memory', 'the polygons of the source dataset can be built', f'{type(e).__name__}: {e}', dict(fill=fv))
                continue
            out = os.path.join(work, f'ugrid-mem-{fv}.nc')
            try:
                mem.ems.to_netcdf(out)
            except Exception as e:
                V('roundtrip:ugrid:in-memory', 'saving through the convention succeeds', f'{type(e).__name__}: {e}', dict(fill=fv))
                continue
            back = emsarray.open_dataset(out)
            if not all((a is None and b is None) or (a is not None and b is not None and a.equals(b)) for a, b in zip(ref, back.ems.polygons)):
                V('roundtrip:ugrid:in-memory', 'identical polygons after the round trip', f'fill value {fv}')
            back.close()
        # time axes in other calendars (decoded to cftime objects, not numpy datetimes), and reference instants
        # before the Gregorian reform in the default calendar: saved all the same, instants unchanged
        import cftime
        import netCDF4
        for tag, build in (
            ('noleap', lambda: xarray.date_range('2000-02-27', periods=3, calendar='noleap', use_cftime=True)),
            ('360_day', lambda: xarray.date_range('2000-02-27', periods=3, calendar='360_day', use_cftime=True)),
            ('epoch-1500', lambda: numpy.array(['2020-01-01T00:00', '2020-01-02T12:00', '2020-01-04T00:00'], dtype='datetime64[ns]')),
            ('epoch-0800', lambda: numpy.array(['2020-01-01T00:00', '2020-01-02T12:00', '2020-01-04T00:00'], dtype='datetime64[ns]')),
        ):
            case = f'roundtrip:cf1d:in-memory:{tag}'
            try:
                tv = build()
            except Exception as e:
                notes.append(f'{case}: not available ({type(e).__name__})')
                continue
            mem = builders.cf1d(2, 3, data_vars={'temp': (('record', 'y', 'x'), numpy.arange(18.0).reshape(3, 2, 3))})
            mem = mem.assign_coords(time=(('record',), tv))
            if tag.startswith('epoch'):
                year = tag.split('-')[1]
                mem['time'].encoding.update(units=f'days since {year}-01-01T00:00:00+10:00', calendar='proleptic_gregorian', dtype='float64')
            else:
                mem['time'].encoding.update(units='days since 1990-01-01 00:00:00', calendar=tag)
            out = os.path.join(work, f'cf1d-mem-{tag}.nc')
            try:
                mem.ems.to_netcdf(out)
            except Exception as e:
                V(case, 'saving through the convention succeeds', f'{type(e).__name__}: {e}')
                continue
            back = emsarray.open_dataset(out)
            try:
                a, b = mem['time'].values, back['time'].values
                if tag.startswith('epoch'):
                    # (float64 days since a far epoch resolve a few microseconds)
                    same_t = len(a) == len(b) and all(abs((x - y) / numpy.timedelta64(1, 'us')) <= 100 for x, y in zip(a, b))
                else:
                    same_t = len(a) == len(b) and all((x == y) for x, y in zip(a, b))
                if not same_t:
                    V(case, 'identical variable values / time instants after the round trip', f'{list(a)} != {list(b)}')
                if not numpy.array_equal(mem['temp'].values, back['temp'].values):
                    V(case, 'identical variable values / time instants after the round trip', 'temp differs')
            finally:
                back.close()
            if tag.startswith('epoch'):
                with netCDF4.Dataset(out) as B:
                    tu = B.variables['time'].getncattr('units')
                    if not re.fullmatch(r'days since \d{4}-\d{2}-\d{2} \d{2}:\d{2}:\d{2} [+-]\d{1,2}(:?\d{2})?', tu):
                        V(case, "time units have the form '<unit> since YYYY-MM-DD HH:MM:SS <signed offset>'", tu)
            notes.append(case)
        # a SHOC standard file (its time coordinate is known by name, t) opened without decoding times, and a file with
        # a duration variable: saved through the convention and opened again, units in the EMS form, values unchanged
        sh = builders.shoc_standard(2, 2, data_vars={'eta': (('record',) + builders.SHOC_DIMS['face'], numpy.arange(8.0).reshape(2, 2, 2)),
                                                   'age': (('record',), numpy.array([90, 450], dtype='timedelta64[m]').astype('timedelta64[ns]'))})
        sh = sh.assign_coords(t=(('record',), numpy.array(['2020-01-01T00:00', '2020-01-02T12:00'], dtype='datetime64[ns]')))
        sh['t'].encoding.update(units='days since 1990-01-01T00:00:00+10:00', calendar='proleptic_gregorian', dtype='float64')
        sh['age'].encoding.update(units='minutes', dtype='int64')
        src = os.path.join(work, 'shoc-undecoded-src.nc')
        sh.to_netcdf(src)
        for mode, kw in (('undecoded-times', dict(decode_times=False)), ('decoded', dict())):
            case = f'roundtrip:shoc_standard:{mode}'
            out = os.path.join(work, f'shoc-{mode}-out.nc')
            try:
                opened = emsarray.open_dataset(src, **kw)
                opened.ems.to_netcdf(out)
                with netCDF4.Dataset(out) as B:
                    tu = B.variables['t'].getncattr('units')
                if not re.fullmatch(r'days since \d{4}-\d{2}-\d{2} \d{2}:\d{2}:\d{2} [+-]\d{1,2}(:?\d{2})?', tu):
                    V(case, "time units have the form '<unit> since YYYY-MM-DD HH:MM:SS <signed offset>'", tu)
                back = emsarray.open_dataset(out)
                ref = sh        # what was stored: instants, durations, numbers
                for name in ('t', 'age', 'eta'):
                    a, b = ref[name].values, back[name].values
                    if a.dtype != b.dtype or not numpy.array_equal(a, b):
                        V(case, 'identical variable values / time instants after the round trip', f'{name}: {a} ({a.dtype}) != {b} ({b.dtype})')
                back.close(); opened.close()
                notes.append(case)
            except Exception as e:
                V(case, 'saving through the convention succeeds', f'{type(e).__name__}: {e}')
        # no, one and many time steps (an empty selection in time is a dataset too), long variable names: saved all the same, units in the EMS form
        for tag, nt, tname_long, first_name in (('no-steps', 0, 'time', 'a_first'), ('one-step', 1, 'time', 'a_first'), ('300-steps', 300, 'time', 'a_first'), ('long-names', 3, 'time_of_the_centre_of_the_averaging_interval', 'a_variable_with_a_name_that_is_longer_than_most')):
            case = f'roundtrip:cf1d:in-memory:{tag}'
            tv = numpy.datetime64('2020-01-01T00:00', 'ns') + numpy.arange(nt) * numpy.timedelta64(90, 'm')
            mem = builders.cf1d(2, 3, data_vars={first_name: (('record', 'y', 'x'), numpy.arange(nt * 6, dtype=float).reshape(nt, 2, 3))})
            mem = mem.assign_coords({tname_long: (('record',), tv)})
            mem[tname_long].encoding.update(units='hours since 2000-01-01T00:00:00+10:00', calendar='proleptic_gregorian', dtype='float64')
            out = os.path.join(work, f'cf1d-mem-{tag}.nc')
            try:
                mem.ems.to_netcdf(out)
                with netCDF4.Dataset(out) as B:
                    tu = B.variables[tname_long].getncattr('units')
                if not re.fullmatch(r'hours since \d{4}-\d{2}-\d{2} \d{2}:\d{2}:\d{2} [+-]\d{1,2}(:?\d{2})?', tu):
                    V(case, "time units have the form '<unit> since YYYY-MM-DD HH:MM:SS <signed offset>'", tu)
                back = emsarray.open_dataset(out)
                if not numpy.array_equal(back[tname_long].values, tv) or not numpy.array_equal(back[first_name].values, mem[first_name].values):
                    V(case, 'identical variable values / time instants after the round trip', tag)
                back.close()
                notes.append(case)
            except Exception as e:
                V(case, 'saving through the convention succeeds', f'{type(e).__name__}: {e}')
        # a first save that fails (the directory is not there) while the time axis is still undecoded numbers; then the
        # axis is decoded in place on the same Dataset object and the dataset is saved: the units are rewritten
        mem = builders.cf1d(2, 3, data_vars={'temp': (('record', 'y', 'x'), numpy.arange(12.0).reshape(2, 2, 3))})
        mem = mem.assign_coords(time=(('record',), numpy.array([0.0, 36.0]), {'units': 'hours since 2021-11-01T00:00:00-03:30', 'calendar': 'proleptic_gregorian'}))
        case = 'roundtrip:cf1d:in-memory:decoded-after-a-failed-save'
        try:
            mem.ems.to_netcdf(os.path.join(work, 'no-such-directory', 'x.nc'))
        except Exception:
            pass
        decoded = xarray.decode_cf(mem[['time']])['time']
        mem['time'] = decoded
        out = os.path.join(work, 'cf1d-mem-late-decode.nc')
        try:
            mem.ems.to_netcdf(out)
            with netCDF4.Dataset(out) as B:
                tu = B.variables['time'].getncattr('units')
            if not re.fullmatch(r'hours since \d{4}-\d{2}-\d{2} \d{2}:\d{2}:\d{2} [+-]\d{1,2}(:?\d{2})?', tu):
                V(case, "time units have the form '<unit> since YYYY-MM-DD HH:MM:SS <signed offset>'", tu)
            notes.append(case)
        except Exception as e:
            V(case, 'saving through the convention succeeds', f'{type(e).__name__}: {e}')
        # variables that were never decoded (built in memory, or opened with mask_and_scale=False) keep what they declare:
        # a missing_value attribute stays, and no _FillValue appears next to it or on a variable that declares nothing
        for conv in ('cf2d', 'ugrid', 'shoc_standard'):
            dims, shape = {'cf2d': (('y', 'x'), (2, 2)), 'ugrid': (('nface',), (3,)), 'shoc_standard': (builders.SHOC_DIMS['face'], (2, 2))}[conv]
            data = {'botz': (dims, numpy.arange(1.0, 1.0 + int(numpy.prod(shape))).reshape(shape), {'missing_value': numpy.float64(-999.0), 'units': 'm'}),
                    'plain': (dims, numpy.arange(int(numpy.prod(shape)), dtype='float32').reshape(shape) + 0.5),
                    'flagged': (dims, numpy.arange(int(numpy.prod(shape)), dtype='float64').reshape(shape), {'missing_value': numpy.float64(1e35), '_FillValue': numpy.float64(1e35)})}
            mem = {'cf2d': lambda: builders.cf2d(2, 2, data_vars=data), 'ugrid': lambda: builders.ugrid('tqp', fill='nan', data_vars=data),
                   'shoc_standard': lambda: builders.shoc_standard(2, 2, data_vars=data)}[conv]()
            out = os.path.join(work, f'{conv}-mem-missing.nc')
            case = f'roundtrip:{conv}:in-memory:undecoded-missing_value'
            try:
                mem.ems.to_netcdf(out)
            except Exception as e:
                V(case, 'saving through the convention succeeds', f'{type(e).__name__}: {e}')
                continue
            with netCDF4.Dataset(out) as B:
                for name, declared in (('botz', False), ('plain', False), ('flagged', True)):
                    has = '_FillValue' in B.variables[name].ncattrs()
                    if has != declared:
                        V(case, 'no fill-value attributes that the source did not have', f'{name}: _FillValue {"gained" if has else "lost"}')
                if 'missing_value' not in B.variables['botz'].ncattrs() or float(B.variables['botz'].getncattr('missing_value')) != -999.0:
                    V(case, 'identical variable attributes after the round trip', 'botz lost its missing_value')
            notes.append(case)
    finally:
        shutil.rmtree(work, ignore_errors=True)
    return viol, notes


def cases(tier):
    regions = [(LO, HI)] if tier == 'quick' else [(LO, HI), (-720, 840), (-59, 59), (-599, -1), (1, 599)]
    for r in regions:
        yield Case(f'formatter:{r[0]}..{r[1]}', body_formatter, dict(region=r), max_paths=200)
    for dtype in ('float64', 'float32', 'int32', 'int16', 'uint8', 'datetime64[ns]'):
        yield Case(f'fill:{dtype}', body_fill, dict(dtype=dtype), max_paths=20)


def functions():
    from emsarray import utils
    from emsarray.conventions import _base
    return [utils.format_time_units_for_ems, utils.fix_time_units_for_ems, utils.to_netcdf_with_fixes,
            utils.disable_default_fill_value, _base.Convention.to_netcdf, _base.Convention.time_coordinate.func]


def run(tier, seed=0, replay=None, procs=None, only=None):
    if replay:
        import json
        data = json.load(open(replay))
        if 'units' in data.get('inputs', {}):
            ok, detail = real_format_check(data['inputs']['units'])
            print(detail)
            if not ok:
                print(f'VIOLATION property={PROP} replay={replay}')
            return 0 if ok else 1
        return replay_file(replay, list(cases('thorough')))
    cs = list(cases(tier))
    if only:
        cs = [c for c in cs if re.search(only, c.name)]
    nconf = reader_conformance()

    def late():
        rv, notes = roundtrip_checks(tier)
        from symx import envsweep
        form = re.compile(r'\w+ since \d{4}-\d{2}-\d{2} \d{2}:\d{2}:\d{2} [+-]\d{1,2}(:?\d{2})?')
        ev, _, extra = envsweep.late([
            ('save_with_two_time_variables', "time units have the form '<unit> since YYYY-MM-DD HH:MM:SS <signed offset>'",
             lambda v: v['time_coordinate'] == 'time' and form.fullmatch(v['time']) is not None and v['instants'][0].startswith('2020-01-01T00:00:00')),
            ('format_units', 'the rewritten units denote the same reference instant for every UTC offset',
             lambda v: v[0] == 'days since 1990-01-01 00:00:00 +10:00' and v[1] == 'hours since 2021-11-16 12:00:00 -03:30' and all(form.fullmatch(u) for u in v)),
        ])()
        return rv + ev, [], dict(roundtrips=notes, **extra)
    return main_run(
        PROP, tier, cs, functions=functions(), seed=seed, procs=procs, late_checks=late,
        extra_evidence=dict(reader_conformance_comparisons=nconf),
        bounds=dict(
            offsets=f'every UTC offset in [{LO}, {HI}] minutes (covers -12:00..+14:00 with margin) as one z3 Int',
            fill='dtype in {float64, float32, int32, int16, uint8, datetime64} x symbolic presence of _FillValue in encoding / attrs',
            roundtrip='one dataset per convention x 4 (quick) / 7 (thorough) epoch offsets, real netCDF files',
            outside='calendar roll-over and strftime digits (instants are compared by cftime on witnesses); the netCDF rewrite and '
                    "xarray's decoding are validated on witnesses only"),
        stubs=[f'cftime timezone reader: grammar = live TIMEZONE_REGEX.pattern translated to z3; value = sign*(HH*60+MM); unparsed text '
               f'reads as UTC; conformance: {nconf} strings compared with the real cftime._parse_date',
               'the offset formatter itself is NOT a stub: its statements are interpreted from the current AST of the function'],
        assumptions=['the epoch date-time part is produced by strftime and independent of the offset text'],
    )
