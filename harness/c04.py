"""C04 - point lookup returns exactly the lowest-indexed intersecting cell.

The query point has symbolic coordinates: the STRtree contract decides
"polygon i contains the point" with linear half-plane tests over the concrete
convex cell polygons, so the solver partitions the whole plane into interiors,
shared edges, shared vertices, hole interiors and the outside; the order in
which hits are reported is an arbitrary permutation chosen by a symbolic integer.
"""
import re

import numpy
import shapely

from symx import builders, env, geo
from symx.core import And, Iff, Not, Or, same
from symx.runner import Case, main_run, replay_file
from symx.snap import snapshot, unchanged
from harness import geomref

PROP = 'C04'


def make(conv, shape, holes, skew, mesh_opts=None, bounds_coords=False):
    builders.BOUNDS_AS_COORDS = bounds_coords
    try:
        return _make(conv, shape, holes, skew, mesh_opts)
    finally:
        builders.BOUNDS_AS_COORDS = False


REF = {}


def _make(conv, shape, holes, skew, mesh_opts=None):
    REF.clear()
    from emsarray.conventions.grid import CFGrid1D, CFGrid2D
    from emsarray.conventions.shoc import ShocSimple, ShocStandard
    from emsarray.conventions.ugrid import UGrid
    if conv == 'ugrid':
        mo = dict(mesh_opts or {})
        spelled = mo.pop('conventions', None)
        second = mo.pop('second_mesh', False)
        ds = builders.ugrid(shape, with_edges=True, **mo)
        if second:
            # a second, coarser mesh described after the first one in the same file
            ds = ds.assign(
                coarse_node_x=(('ncoarse',), numpy.array([0.0, 6.0, 0.0])), coarse_node_y=(('ncoarse',), numpy.array([0.0, 0.0, 6.0])),
                coarse_face_node=(('ncoarseface', 'Three'), numpy.array([[0, 1, 2]], dtype='int32'), {'cf_role': 'face_node_connectivity', 'start_index': 0}),
                coarse=((), numpy.int32(0), {'cf_role': 'mesh_topology', 'topology_dimension': 2, 'node_coordinates': 'coarse_node_x coarse_node_y',
                                            'face_node_connectivity': 'coarse_face_node'}))
        if mo_second := (mesh_opts or {}).get('second_mesh'):
            pass
        if spelled:
            # the file lists several conventions (CF allows blanks or commas between the names); the convention is
            # the one the library detects by itself
            ds.attrs['Conventions'] = spelled
            for n in ('node_x', 'node_y'):
                ds[n].attrs.update(standard_name={'node_x': 'longitude', 'node_y': 'latitude'}[n], units={'node_x': 'degrees_east', 'node_y': 'degrees_north'}[n])
            return ds, ds.ems
        return ds, UGrid(ds)
    ny, nx = shape
    if conv == 'cf1d':
        lat = numpy.array([10.0, 11.0, 13.0, 14.0][:ny])
        lon = numpy.array([100.0, 102.0, 103.0, 106.0][:nx])
        if (mesh_opts or {}).get('int_coords'):
            # whole-degree coordinates stored in integer types, odd spacings: the cell edges are half-way values
            lat = numpy.array([10, 11, 14, 15][:ny], dtype='int32')
            lon = numpy.array([100, 103, 104, 109][:nx], dtype='int64')
        kw = {}
        if ny == 1 or nx == 1:
            # a single coordinate value has no derivable width: such axes need stored bounds
            kw = dict(lat_bounds=numpy.stack([lat - 0.5, lat + 0.5], axis=-1), lon_bounds=numpy.stack([lon - 1.0, lon + 1.0], axis=-1))
        if (mesh_opts or {}).get('explicit'):
            # coordinate variables without identifying attributes: the caller names them
            ds = builders.cf1d(ny, nx, lat=lat, lon=lon, lat_name='northing', lon_name='easting', ydim='a', xdim='b', as_coords=False,
                               lat_attrs=dict(units='m', standard_name='projection_y_coordinate'),
                               lon_attrs=dict(units='m', standard_name='projection_x_coordinate'), **kw)
            return ds, CFGrid1D(ds, latitude='northing', longitude='easting')
        ds = builders.cf1d(ny, nx, lat=lat, lon=lon, **kw)
        return ds, CFGrid1D(ds)
    s = 0.25 if skew else 0.0
    if conv in ('cf2d', 'shoc_simple'):
        jj, ii = numpy.meshgrid(numpy.arange(ny, dtype=float), numpy.arange(nx, dtype=float), indexing='ij')
        lat, lon = 10.0 + jj + s * ii, 100.0 + 2 * ii - s * jj
        off = [(-1, -1), (1, -1), (1, 1), (-1, 1)]
        lonb = numpy.stack([lon + a * 1.0 - b * s / 2 for a, b in off], axis=-1)
        latb = numpy.stack([lat + a * s / 2 + b * 0.5 for a, b in off], axis=-1)
        for (j, i) in holes:
            lonb[j, i] = numpy.nan
            latb[j, i] = numpy.nan
        for (j, i) in (mesh_opts or {}).get('bowtie', ()):
            # corners listed in a crossing order: a self-intersecting cell, dropped with a warning
            lonb[j, i] = lonb[j, i][[0, 2, 1, 3]]
            latb[j, i] = latb[j, i][[0, 2, 1, 3]]
        if (mesh_opts or {}).get('derived'):
            # no stored bounds: corners are derived from the centres; missing cells are NaN centres
            for (j, i) in holes:
                lat[j, i] = numpy.nan
                lon[j, i] = numpy.nan
            ds = builders.cf2d(ny, nx, lat=lat, lon=lon) if conv == 'cf2d' else builders.shoc_simple(ny, nx, lat=lat, lon=lon)
            return ds, (CFGrid2D(ds) if conv == 'cf2d' else ShocSimple(ds))
        if (mesh_opts or {}).get('misdim'):
            # bounds stored (x, y, 4) next to coordinates stored (y, x): not the layout of this grid - ignored with a
            # warning, the cells are derived from the centres
            kw = dict(lat_bounds=latb.transpose(1, 0, 2).copy(), lon_bounds=lonb.transpose(1, 0, 2).copy(), bounds_dims=('x', 'y', 'four') if conv == 'cf2d' else ('i', 'j', 'four'))
            ds = builders.cf2d(ny, nx, lat=lat, lon=lon, **kw) if conv == 'cf2d' else builders.shoc_simple(ny, nx, lat=lat, lon=lon, **kw)
            return ds, (CFGrid2D(ds) if conv == 'cf2d' else ShocSimple(ds))
        REF['corners'] = (lonb, latb)
        if conv == 'cf2d' and (mesh_opts or {}).get('rotated'):
            # a rotated-pole file: 1-D axes (standard names grid_latitude / grid_longitude) stored ahead of the true 2-D
            # latitude and longitude; the convention is the one the library detects by itself
            import xarray
            ds = builders.cf2d(ny, nx, lat=lat, lon=lon, lat_bounds=latb, lon_bounds=lonb, as_coords=False)
            axes = {'rlat': xarray.Variable(('y',), numpy.arange(ny) * 0.5 - 3.0, {'standard_name': 'grid_latitude', 'units': 'degrees'}),
                    'rlon': xarray.Variable(('x',), numpy.arange(nx) * 0.5 + 7.0, {'standard_name': 'grid_longitude', 'units': 'degrees'})}
            ds = xarray.Dataset({**axes, **dict(ds.variables)}, attrs=ds.attrs)
            return ds, ds.ems
        if conv == 'cf2d':
            ds = builders.cf2d(ny, nx, lat=lat, lon=lon, lat_bounds=latb, lon_bounds=lonb)
            return ds, CFGrid2D(ds)
        ds = builders.shoc_simple(ny, nx, lat=lat, lon=lon, lat_bounds=latb, lon_bounds=lonb)
        return ds, ShocSimple(ds)
    if conv == 'shoc_standard':
        jj, ii = numpy.meshgrid(numpy.arange(ny + 1, dtype=float), numpy.arange(nx + 1, dtype=float), indexing='ij')
        node_x, node_y = 100.0 + 2 * ii + s * jj, 10.0 + jj - s * ii
        for (j, i) in holes:
            node_x[j, i] = numpy.nan
            node_y[j, i] = numpy.nan
        ds = builders.shoc_standard(ny, nx, node_x=node_x, node_y=node_y,
                                    face_x=numpy.zeros((ny, nx)), face_y=numpy.zeros((ny, nx)),
                                    x_transposed=(mesh_opts or {}).get('x_transposed', ()))
        return ds, ShocStandard(ds)
    raise ValueError(conv)


def body(ctx, conv, shape, holes, skew, via, mesh_opts=None, history=False, bounds_coords=False):
    ds, cv = make(conv, shape, holes, skew, mesh_opts, bounds_coords)
    # one data variable on the face grid (a geometry-only dataset has nothing to select)
    fd = cv.grid_dimensions[cv.default_grid_kind]
    ds['temp'] = (tuple(fd), numpy.arange(int(numpy.prod([ds.sizes[d] for d in fd])), dtype=float).reshape([ds.sizes[d] for d in fd]))
    snap = snapshot(ds)
    polygons = cv.polygons           # concrete geometry: real shapely
    N = len(polygons)
    geomref.check(ctx, ds, cv, kind=conv, **({'names': ('northing', 'easting')} if (mesh_opts or {}).get('explicit') else {}))
    if conv == 'ugrid':
        nodes, faces = builders.MESHES[shape]
        ctx.check(all(polygons[f] is not None and polygons[f].equals(shapely.Polygon([nodes[v] for v in faces[f]])) for f in range(len(faces))),
                  'the cells searched are the faces of the mesh, each with its own nodes')
    if 'corners' in REF:
        # stored corner bounds: the cells searched are the four given corners, wherever the file keeps the bounds
        lonb, latb = REF['corners']
        ny, nx = shape
        ok = True
        for j in range(ny):
            for i in range(nx):
                p = polygons[j * nx + i]
                if numpy.isnan(lonb[j, i]).any() or not shapely.Polygon(list(zip(lonb[j, i], latb[j, i]))).is_valid:
                    ok = ok and p is None
                else:
                    ok = ok and p is not None and p.equals(shapely.Polygon(list(zip(lonb[j, i], latb[j, i]))))
        ctx.check(ok, 'the cells searched are the stored corner bounds of the grid')
    if conv == 'cf1d' and min(shape) >= 2 and not (mesh_opts or {}).get('explicit'):
        # "a cell polygon contains the point" is about the cells the dataset describes: for derived 1-D bounds those
        # are the midpoint rectangles (written here from the CF text, not taken from the code under test)
        def edges(v):
            v = [float(x) for x in v]
            mids = [(a + b) / 2 for a, b in zip(v, v[1:])]
            return [v[0] - (v[1] - v[0]) / 2] + mids + [v[-1] + (v[-1] - v[-2]) / 2]
        ye, xe = edges(ds['lat'].values), edges(ds['lon'].values)
        ny, nx = shape
        ctx.check(all(polygons[j * nx + i].equals(shapely.box(xe[i], ye[j], xe[i + 1], ye[j + 1])) for j in range(ny) for i in range(nx)),
                  'the cells searched are the midpoint rectangles of the 1-D axes')
    xs = [c[0] for p in polygons if p is not None for c in p.exterior.coords]
    ys = [c[1] for p in polygons if p is not None for c in p.exterior.coords]
    cx, cy = (min(xs) + max(xs)) / 2, (min(ys) + max(ys)) / 2
    px, py = ctx.real('px', hint=cx), ctx.real('py', hint=cy)
    perm = ctx.int('perm', 0, 23)
    if ctx.symbolic:
        tree = geo.PointTree(polygons, perm=perm)
        cv.__dict__['strtree'] = tree
        point = geo.SymPoint(px, py)
        inside = [None if polygons[n] is None else geo.convex_contains(polygons[n], px, py) for n in range(N)]
    else:
        point = shapely.Point(px, py)
        inside = [None if polygons[n] is None else bool(polygons[n].intersects(point)) for n in range(N)]

    if history:
        # the answer for a point does not depend on what was asked before: an arbitrary earlier lookup on the
        # same convention (its result is ignored) must not change any of the checks below
        qx, qy = ctx.real('qx', hint=cx + 0.1), ctx.real('qy', hint=cy + 0.1)
        earlier = geo.SymPoint(qx, qy) if ctx.symbolic else shapely.Point(qx, qy)
        cv.get_index_for_point(earlier)
        if ctx.symbolic:
            tree.queries.clear()

    try:
        width = None if conv == 'ugrid' else shape[1]
        _lookups(ctx, cv, point, via, inside, polygons, N, tree if ctx.symbolic else None, width)
    finally:
        pass
    ctx.check(unchanged(ds, snap), 'looking up a point leaves the dataset as it was')
    if conv == 'ugrid':
        cv2 = type(cv)(ds)
        ctx.check(all(a.equals(b) for a, b in zip(cv2.polygons, polygons)),
                  'a convention bound later to the same dataset has the same polygons')


def _lookups(ctx, cv, point, via, inside, polygons, N, tree, width=None):
    if via == 'select_point':
        try:
            picked = cv.select_point(point)
            raised = False
        except ValueError:
            raised = True
        any_hit = Or(*[i for i in inside if i is not None]) if any(i is not None for i in inside) else False
        ctx.check(Iff(raised, Not(any_hit)), 'select_point raises ValueError exactly when no cell intersects the point')
        return

    item = cv.get_index_for_point(point)
    if ctx.symbolic:
        ctx.note('spatial queries', list(tree.queries))     # how often the index is consulted is not part of the property
    if item is None:
        ctx.check(And(*[Not(i) for i in inside if i is not None]) if any(i is not None for i in inside) else True,
                  'no result only when no cell with geometry contains or touches the point')
        return
    n = int(item.linear_index)
    ctx.check(0 <= n < N and polygons[n] is not None, 'a cell without geometry is never returned')
    ctx.check(inside[n], 'the returned cell contains or touches the point (no nearest-cell fallback)')
    ctx.check(And(*[Not(inside[m]) for m in range(n) if inside[m] is not None]) if n else True,
              'no intersecting cell has a lower linear index')
    ctx.check(item.polygon is polygons[n], 'polygon field is the polygon at that linear index')
    ctx.check(tuple(item.index) == tuple(cv.wind_index(n)), 'native index and linear index describe the same cell')
    # (reference: cells are numbered row by row - (j, i) = (n // width, n % width) - and mesh faces one by one)
    ref = (n,) if width is None else (n // width, n % width)
    ctx.check(tuple(int(v) for v in tuple(item.index)[-len(ref):]) == ref, 'the native index is the row-major native index of that cell')
    ctx.check(cv.ravel_index(item.index) == n, 'ravel_index(index) == linear_index')


def body_big_mesh(ctx):
    """A mesh with more node numbers than a 16-bit integer holds, whose connectivity was stored as (unsigned) shorts
    and decoded to floats (encoding dtype int16): lookups near the end of the mesh find the face that contains them."""
    from emsarray.conventions.ugrid import UGrid
    n = 182 + int(ctx.int('extra', 0, 1))
    nodes = [(100.0 + 0.01 * i, -30.0 + 0.01 * j) for j in range(n + 1) for i in range(n + 1)]
    faces = [[j * (n + 1) + i, j * (n + 1) + i + 1, (j + 1) * (n + 1) + i + 1, (j + 1) * (n + 1) + i] for j in range(n) for i in range(n)]
    ds = builders.ugrid((nodes, faces), fill='nan', dtype='int16', fill_value=-1)
    cv = UGrid(ds)
    polygons = cv.polygons
    N = len(faces)
    ctx.check(len(polygons) == N, 'one slot per cell')
    for f in (0, n - 1, N // 2, N - n, N - 2, N - 1, N - n // 2):
        ring = [nodes[v] for v in faces[f]]
        cx, cy = sum(p[0] for p in ring) / 4, sum(p[1] for p in ring) / 4
        ctx.check(polygons[f] is not None and polygons[f].equals(shapely.Polygon(ring)), 'the cells are the ones the dataset describes (independent reference geometry)')
        item = cv.get_index_for_point(shapely.Point(cx, cy))
        ctx.check(item is not None and int(item.linear_index) == f, 'the returned cell contains or touches the point (no nearest-cell fallback)')


def body_larger(ctx, kind):
    """Grids with more than 4,096 / 65,536 cells and meshes with faces of up to twelve nodes: a point inside cell n is
    found in cell n (reference geometry checked first)."""
    from emsarray.conventions.ugrid import UGrid
    v = int(ctx.int('variant', 0, 1))
    if kind == 'cf1d':
        ny, nx = (65 + v, 64) if v == 0 else (257, 258)
        ds = builders.cf1d(ny, nx, lat=numpy.linspace(-40.0, -8.0, ny), lon=numpy.linspace(110.0, 160.0, nx))
        cv = ds.ems
    elif kind == 'shoc_standard':
        ds = builders.shoc_standard(66 + v, 63)
        cv = ds.ems
    else:
        ds = builders.ugrid(kind, fill='none' if kind == 'fan9' else ('nan', 'attr')[v], start_index=v)
        cv = UGrid(ds)
    ref = geomref.check(ctx, ds, cv)
    N = len(ref)
    picks = sorted({0, 1, N // 3, N // 2, N - 2, N - 1} | {n for n in (4095, 4096, 4097, 10000, 16384, 16385, 65535, 65536, 65537) if n < N}) if N > 20 else range(N)
    for n in picks:
        if ref[n] is None:
            continue
        pt = ref[n].representative_point()
        item = cv.get_index_for_point(pt)
        ctx.check(item is not None and int(item.linear_index) == n and item.polygon is cv.polygons[n], 'the returned cell contains or touches the point (no nearest-cell fallback)')
    if N <= 20:
        # shared edges: the lowest-numbered cell that touches the point
        import shapely
        for a in range(N):
            for b in range(a + 1, N):
                if ref[a] is None or ref[b] is None:
                    continue
                shared = ref[a].intersection(ref[b])
                if shared.length > 0:
                    item = cv.get_index_for_point(shared.interpolate(0.5, normalized=True))
                    ctx.check(item is not None and int(item.linear_index) == a, 'no intersecting cell has a lower linear index')


def body_hull_points(ctx, kind):
    """Points exactly on cell corners and on the middle of axis-parallel cell sides - the outer border of the dataset
    included - on datasets whose coordinates are exact in binary: the lowest-numbered cell that touches the point."""
    import shapely
    from emsarray.conventions.ugrid import UGrid
    v = int(ctx.int('variant', 0, 1))
    if kind == 'cf1d':
        ds = builders.cf1d(3, 4, lat=numpy.array([10.0, 11.0, 12.0]) - 11.0 * v, lon=numpy.array([0.0, 1.0, 2.0, 3.0]) - 1.0 * v)
        cv = ds.ems
    elif kind == 'shoc_standard':
        jj, ii = numpy.meshgrid(numpy.arange(4.0), numpy.arange(5.0), indexing='ij')
        ds = builders.shoc_standard(3, 4, node_x=ii * 2.0 - 4.0 * v, node_y=jj - 1.0 * v, face_x=numpy.zeros((3, 4)), face_y=numpy.zeros((3, 4)))
        cv = ds.ems
    else:
        ds = builders.ugrid(kind, fill=('nan', 'attr')[v], start_index=v, **(dict(fill_value=0) if v else {}))
        cv = UGrid(ds)
    ref = geomref.check(ctx, ds, cv)
    N = len(ref)
    pts = set()
    for p_ in ref:
        if p_ is None:
            continue
        ring = list(p_.exterior.coords)
        for a, b in zip(ring, ring[1:]):
            pts.add((float(a[0]), float(a[1])))
            if a[0] == b[0] or a[1] == b[1]:
                pts.add(((a[0] + b[0]) / 2.0, (a[1] + b[1]) / 2.0))
    ctx.check(len(pts) >= 8, 'harness: corner and side points were generated')
    for x, y in sorted(pts):
        pt = shapely.Point(x, y)
        want = next((n for n in range(N) if ref[n] is not None and ref[n].intersects(pt)), None)
        item = cv.get_index_for_point(pt)
        ctx.check(want is not None, 'harness: a corner of a cell touches that cell')
        if item is None:
            ctx.check(False, 'no result only when no cell with geometry contains or touches the point')
        else:
            ctx.check(int(item.linear_index) == want, 'no intersecting cell has a lower linear index')
        # ... and just outside the hull (a point moved off the dataset's bounding box) there is nothing
    minx, miny, maxx, maxy = shapely.unary_union([p_ for p_ in ref if p_ is not None]).bounds
    for x, y in ((minx - 1e-9, miny), (maxx + 1e-9, maxy), (minx, maxy + 1e-9), (maxx, miny - 1e-9)):
        ctx.check(cv.get_index_for_point(shapely.Point(x, y)) is None, 'a point outside every cell yields no result')


def PATCHES():
    return env.patched(*geo.point_predicate_patches())


def cases(tier):
    for kind in ('cf1d', 'shoc_standard', 'grid4', 'tqp', 'qqqtt', 'block'):
        yield Case(f'hull-points:{kind}', body_hull_points, dict(kind=kind), max_paths=4)
    yield Case('ugrid:big:int16-encoding', body_big_mesh, dict(), max_paths=4)
    for kind in ('cf1d', 'shoc_standard', 'nonagon', 'fan9', 'poly34567'):
        yield Case(f'larger:{kind}', body_larger, dict(kind=kind), max_paths=4)
    q = tier == 'quick'
    cfgs = [('cf1d', (2, 3), (), False), ('cf2d', (2, 2), (), True), ('cf2d', (2, 3), ((0, 1),), False),
            ('shoc_simple', (2, 2), ((1, 1),), True), ('shoc_standard', (2, 2), (), True),
            ('shoc_standard', (2, 3), ((0, 0),), False), ('ugrid', 'tqp', (), False), ('ugrid', 'fan', (), False)]
    if not q:
        cfgs += [('cf1d', (3, 3), (), False), ('cf1d', (1, 4), (), False), ('cf2d', (3, 3), ((1, 1),), True),
                 ('cf2d', (3, 4), ((0, 0), (2, 3)), False), ('shoc_standard', (3, 3), ((2, 2),), True),
                 ('shoc_simple', (3, 2), (), False), ('ugrid', 'block', (), False), ('ugrid', 'strip5', (), False),
                 ('ugrid', 'tq', (), False)]
    for conv, shape, holes, skew in cfgs:
        for via in ('get_index_for_point', 'select_point'):
            sh = shape if isinstance(shape, str) else f'{shape[0]}x{shape[1]}'
            yield Case(f'{conv}:{sh}:holes{len(holes)}:{"skew" if skew else "rect"}:{via}', body,
                       dict(conv=conv, shape=shape, holes=holes, skew=skew, via=via), max_paths=20000,
                       split=(32 if not q else 16), patches=PATCHES)
    # stored bounds held as xarray coordinates
    for conv, shape, holes, skew in (('cf2d', (2, 2), (), True), ('shoc_simple', (2, 2), ((1, 1),), True)):
        yield Case(f'{conv}:{shape[0]}x{shape[1]}:holes{len(holes)}:skew:get_index_for_point:bounds-as-coordinates', body,
                   dict(conv=conv, shape=shape, holes=holes, skew=skew, via='get_index_for_point', bounds_coords=True),
                   max_paths=20000, split=16, patches=PATCHES)
    # cells derived from the centres (a missing centre one cell in from the border; a one-cell-wide channel); coordinate
    # variables named by the caller
    for conv, shape, holes, mo in (('cf2d', (3, 4), ((1, 1),), dict(derived=True)), ('shoc_simple', (3, 3), ((0, 1), (2, 1)), dict(derived=True)),
                                   ('cf1d', (2, 3), (), dict(explicit=True)), ('cf1d', (3, 2), (), dict(int_coords=True)),
                                   ('cf2d', (2, 3), (), dict(misdim=True)), ('shoc_simple', (3, 2), (), dict(misdim=True)),
                                   ('cf2d', (2, 3), (), dict(rotated=True)),
                                   # SHOC standard with the longitude of the face grid stored (i, j) next to a latitude stored (j, i)
                                   ('shoc_standard', (2, 3), (), dict(x_transposed=('face',))), ('shoc_standard', (3, 2), ((0, 0),), dict(x_transposed=('face', 'left')))):
        yield Case(f'{conv}:{shape[0]}x{shape[1]}:holes{len(holes)}:{"+".join(mo)}:get_index_for_point', body,
                   dict(conv=conv, shape=shape, holes=holes, skew=True, via='get_index_for_point', mesh_opts=mo),
                   max_paths=60000, split=32, patches=PATCHES)
    # a missing cell before a self-intersecting one: the dropped cell is found in the full array
    for conv, shape, holes, bow in (('cf2d', (2, 3), ((0, 0),), ((1, 1),)), ('shoc_simple', (2, 2), ((0, 1),), ((1, 0),))):
        yield Case(f'{conv}:{shape[0]}x{shape[1]}:holes1:bowtie1:get_index_for_point', body,
                   dict(conv=conv, shape=shape, holes=holes, skew=False, via='get_index_for_point', mesh_opts=dict(bowtie=bow)),
                   max_paths=20000, split=16, patches=PATCHES)
    # unsigned connectivity tables with a fill value attribute (ragged mesh, one-based with fill 0; zero-based with fill 65535)
    for mo in (dict(start_index=1, fill='attr', fill_value=0, dtype='uint16'), dict(start_index=0, fill='attr', fill_value=65535, dtype='uint16'),
               dict(start_index=1, fill='attr', fill_value=0, dtype='int32'),
               # start_index stored as the text "0" / "1"
               dict(start_index=0, fill='nan', start_index_as_text=True), dict(start_index=1, fill='attr', start_index_as_text=True)):
        tag = '+'.join(f'{k}={v}' for k, v in mo.items())
        yield Case(f'ugrid:tqp:{tag}:get_index_for_point', body,
                   dict(conv='ugrid', shape='tqp', holes=(), skew=False, via='get_index_for_point', mesh_opts=mo),
                   max_paths=20000, split=16, patches=PATCHES)
    for k, spelled in enumerate(('CF-1.6, UGRID-1.0', 'CF-1.8 UGRID-1.0 Deltares-0.10') if q else ('CF-1.6, UGRID-1.0', 'CF-1.8 UGRID-1.0 Deltares-0.10', 'CF-1.6/UGRID-1.0', 'UGRID-1.0 CF-1.6')):
        yield Case(f'ugrid:tqp:conventions{k}:get_index_for_point', body,
                   dict(conv='ugrid', shape='tqp', holes=(), skew=False, via='get_index_for_point', mesh_opts=dict(conventions=spelled)),
                   max_paths=20000, split=16, patches=PATCHES)
    yield Case('ugrid:tqp:second-mesh:get_index_for_point', body,
               dict(conv='ugrid', shape='tqp', holes=(), skew=False, via='get_index_for_point', mesh_opts=dict(second_mesh=True)),
               max_paths=20000, split=16, patches=PATCHES)
    # one-based connectivity stored without a fill value (integer arrays straight from the file)
    for mesh in (['fan'] if q else ['fan', 'tri', 'strip5']):
        for mo in (dict(start_index=1, fill='none'), dict(start_index=1, fill='none', transposed=True)):
            tag = '+'.join(f'{k}={v}' for k, v in mo.items())
            yield Case(f'ugrid:{mesh}:{tag}:get_index_for_point', body,
                       dict(conv='ugrid', shape=mesh, holes=(), skew=False, via='get_index_for_point', mesh_opts=mo),
                       max_paths=20000, split=16, patches=PATCHES)
    # two lookups in a row on one convention: (earlier point, point) both symbolic
    hist = [('cf1d', (2, 2), (), False), ('cf2d', (2, 2), (), True), ('ugrid', 'tqp', (), False)]
    if not q:
        hist += [('cf1d', (2, 3), (), False), ('shoc_standard', (2, 2), (), True), ('ugrid', 'fan', (), False),
                 ('cf2d', (2, 3), ((0, 1),), False)]
    for conv, shape, holes, skew in hist:
        sh = shape if isinstance(shape, str) else f'{shape[0]}x{shape[1]}'
        yield Case(f'{conv}:{sh}:holes{len(holes)}:{"skew" if skew else "rect"}:after-earlier-lookup', body,
                   dict(conv=conv, shape=shape, holes=holes, skew=skew, via='get_index_for_point', history=True),
                   max_paths=60000, split=64, patches=PATCHES)


def functions():
    from emsarray.conventions import _base
    return [_base.Convention.get_index_for_point, _base.Convention.select_point, _base.Convention.strtree.func,
            _base.DimensionConvention.wind_index, _base.SpatialIndexItem]


def run(tier, seed=0, replay=None, procs=None, only=None):
    if replay:
        return replay_file(replay, list(cases('thorough')) + list(cases('quick')))
    cs = list(cases(tier))
    if only:
        cs = [c for c in cs if re.search(only, c.name)]
    q = tier == 'quick'
    return main_run(
        PROP, tier, cs, functions=functions(), seed=seed, procs=procs,
        bounds=dict(
            datasets=f'CF 1-D (non-uniform axes), CF 2-D / SHOC simple (stored bounds, rectangular and skewed, holes), SHOC standard '
                     f'(node grids with masked nodes), meshes (triangles/quads/pentagon) - grids up to {"2x3" if q else "3x4"}',
            symbolic='query point (px, py): any point of the plane (unbounded Reals); report order of the hits: any permutation '
                     '(symbolic integer selecting one of k! orders, k <= 4)',
            outside='non-convex cells (the point-in-polygon contract is a conjunction of half-plane tests); the geometric '
                    'truth of GEOS intersects itself; IEEE rounding of the query point'),
        stubs=['STRtree.query(point, predicate=p) over concrete convex polygons: closed half-plane tests decide intersects; '
               'within/touches/contains... modelled from the same tests; hits reported in an arbitrary permutation'],
        assumptions=['GEOS intersects(point, convex polygon) == closed half-plane test (every path witness is replayed with the '
                     'real STRtree and real GEOS predicates)'],
    )
