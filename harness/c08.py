"""C08 - clipping keeps every selected value and blanks everything else.
C09 shares this module's machinery (see c09.py).

Real code: masking.mask_grid_dataset / mask_grid_data_array / find_fill_value /
calculate_grid_mask_bounds, utils.dataset_like, the three apply_clip_mask
implementations, make_clip_mask and Convention.clip.  All float data values are
symbolic (Real + NaN flag); the set of intersecting cells is symbolic behind the
STRtree contract; the per-variable netCDF round trip is an in-memory store in
symbolic mode and real files in replay.
"""
import re

import numpy
import xarray

from symx import builders, geo
from symx.core import And, HarnessError, Iff, Implies, Not, Or, same, isnan
from symx.runner import Case, main_run, replay_file
from symx.snap import snapshot, unchanged
from harness import clipcommon
from harness.c07 import ref_ring

PROP = 'C08'


# ---- datasets ---------------------------------------------------------------------------------

ATTRS = {'units': 'degrees C', 'long_name': 'temperature', 'source': 'model X run 7', 'zlib': 'not a flag', 'dtype': 'label'}


def grid_dataset(ctx, conv, shape, as_coords=True):
    from emsarray.conventions.grid import CFGrid1D, CFGrid2D
    from emsarray.conventions.shoc import ShocSimple, ShocStandard
    ny, nx = shape
    S = clipcommon.sym_values
    if conv == 'shoc_standard':
        D, SH = builders.SHOC_DIMS, builders.shoc_shapes(ny, nx)
        data = {}
        kinds = {}
        for kind, base in (('face', 1000), ('left', 2000), ('back', 3000), ('node', 4000)):
            yd, xd = D[kind]
            data[f'v_{kind}'] = (('record', yd, xd), S(ctx, f'v{kind}', (2,) + SH[kind], base))
            data[f'id_{kind}'] = ((yd, xd), clipcommon.ids(SH[kind]))
            kinds[kind] = dict(dims=(yd, xd), shape=SH[kind], float=[f'v_{kind}'], id=f'id_{kind}')
        data['w_face'] = ((D['face'][1], 'record', D['face'][0]), S(ctx, 'wface', (nx, 2, ny), 5000))
        kinds['face']['float'].append('w_face')
        data['flag'] = (D['face'], clipcommon.ids(SH['face'], 'int16', 10), {'_FillValue': numpy.int16(-99)})
        data['miss'] = (D['face'], clipcommon.ids(SH['face'], 'int32', 20), {'missing_value': numpy.int32(-1)})
        data['zero'] = (D['face'], clipcommon.ids(SH['face'], 'uint8', 1), {'_FillValue': numpy.uint8(0)})
        data['mzero'] = (D['face'], clipcommon.ids(SH['face'], 'int16', 1), {'missing_value': numpy.int16(0)})
        data['pyfill'] = (D['face'], clipcommon.ids(SH['face'], 'int32', 30), {'_FillValue': -7})
        kinds['face']['intfill'] = [('flag', -99), ('miss', -1), ('zero', 0), ('mzero', 0), ('pyfill', -7)]
        data['clock'] = (('record',), numpy.array([5.0, 6.0]), {'long_name': 'clock'})
        data['scalar'] = ((), numpy.float64(7.5))
        ds = builders.shoc_standard(ny, nx, data_vars=data, as_coords=as_coords)
        ds.attrs['title'] = 'clip me'
        return ds, ShocStandard(ds), kinds
    yd, xd = ('j', 'i') if conv == 'shoc_simple' else ('y', 'x')
    data = {
        # (attribute names that xarray also uses as encoding keys of variables read from files)
        'temp': (('t', yd, xd), S(ctx, 'temp', (2, ny, nx), 1000), dict(ATTRS)),
        'botz': ((xd, yd), S(ctx, 'botz', (nx, ny), 2000)),
        'mid': ((yd, 't', xd), S(ctx, 'mid', (ny, 2, nx), 3000)),
        'cellid': ((yd, xd), clipcommon.ids((ny, nx))),
        'flag': ((yd, xd), clipcommon.ids((ny, nx), 'int16', 10), {'_FillValue': numpy.int16(-99)}),
        'miss': ((yd, xd), clipcommon.ids((ny, nx), 'int32', 20), {'missing_value': numpy.int32(-1)}),
        # zero is a legal fill value (category / flag variables)
        'zero': ((yd, xd), clipcommon.ids((ny, nx), 'uint8', 1), {'_FillValue': numpy.uint8(0)}),
        'mzero': ((yd, xd), clipcommon.ids((ny, nx), 'int16', 1), {'missing_value': numpy.int16(0)}),
        # a dataset built in memory: the fill value is a plain Python number
        'pyfill': ((yd, xd), clipcommon.ids((ny, nx), 'int32', 30), {'_FillValue': -7}),
        'pymiss': ((yd, xd), clipcommon.ids((ny, nx), 'int16', 40), {'missing_value': -3}),
        # instants and durations hold missing values too (NaT)
        'stamp': ((yd, xd), (numpy.datetime64('2021-03-01T00:00', 'ns') + numpy.arange(ny * nx) * numpy.timedelta64(1, 'h')).reshape(ny, nx)),
        'age': ((xd, yd), (numpy.arange(1, ny * nx + 1) * numpy.timedelta64(45, 'm')).astype('timedelta64[ns]').reshape(nx, ny)),
        'clock': (('t',), numpy.array([5.0, 6.0]), {'long_name': 'clock'}),
        'scalar': ((), numpy.float64(7.5)),
    }
    kinds = {'face': dict(dims=(yd, xd), shape=(ny, nx), float=['temp', 'botz', 'mid', 'stamp', 'age'], id='cellid', intfill=[('flag', -99), ('miss', -1), ('zero', 0), ('mzero', 0), ('pyfill', -7), ('pymiss', -3)])}
    if conv == 'cf1d':
        # stored bounds: the cell geometry is explicit, so it can be compared before and after clipping
        # (and a clipped axis of length one still has a width)
        lat = numpy.array([10 + j + 0.125 * j * j for j in range(ny)])
        lon = numpy.array([100 + 2 * i + 0.25 * i * i for i in range(nx)])
        ds = builders.cf1d(ny, nx, lat=lat, lon=lon, lat_bounds=numpy.stack([lat - 0.375, lat + 0.5], axis=-1),
                           lon_bounds=numpy.stack([lon - 0.75, lon + 0.875], axis=-1), data_vars=data, as_coords=as_coords)
        if as_coords:
            # bounds variables that repeat the units / standard name of their coordinate (CF allows it, files do it);
            # the coordinates themselves come first in the dataset
            ds = ds[['lat', 'lon'] + [n for n in ds.variables if n not in ('lat', 'lon')]]
            ds['lat_bnds'].attrs.update(units='degrees_north', standard_name='latitude')
            ds['lon_bnds'].attrs.update(units='degrees_east', standard_name='longitude')
        cv = CFGrid1D(ds)
    else:
        jj, ii = numpy.meshgrid(numpy.arange(ny, dtype=float), numpy.arange(nx, dtype=float), indexing='ij')
        lat, lon = 10.0 + jj + 0.25 * ii, 100.0 + 2.0 * ii - 0.5 * jj
        off = [(-1, -1), (1, -1), (1, 1), (-1, 1)]
        lonb = numpy.stack([lon + a * 1.0 - b * 0.25 for a, b in off], axis=-1)
        latb = numpy.stack([lat + a * 0.125 + b * 0.5 for a, b in off], axis=-1)
        if conv == 'cf2d':
            ds = builders.cf2d(ny, nx, lat=lat, lon=lon, lat_bounds=latb, lon_bounds=lonb, data_vars=data, as_coords=as_coords)
            cv = CFGrid2D(ds)
        else:
            ds = builders.shoc_simple(ny, nx, lat=lat, lon=lon, lat_bounds=latb, lon_bounds=lonb, data_vars=data, as_coords=as_coords)
            cv = ShocSimple(ds)
    ds.attrs['title'] = 'clip me'
    return ds, cv, kinds


def mesh_dataset(ctx, mesh, supply, start_index, fill, transposed=False, fill_value=None, coords_as_coords=False, with_edges=True, dtype='int32', extra=None):
    from emsarray.conventions.ugrid import UGrid
    nodes, faces = builders.MESHES[mesh]
    ne = len(builders.mesh_edges(faces)[0])
    S = clipcommon.sym_values
    data = {
        'v_face': (('t', 'nface'), S(ctx, 'vface', (2, len(faces)), 1000), dict(ATTRS)),
        'w_face': (('nface', 't'), S(ctx, 'wface', (len(faces), 2), 1500)),
        'v_node': (('nnode',), S(ctx, 'vnode', (len(nodes),), 2000)),
        'v_edge': (('t', 'nedge'), S(ctx, 'vedge', (2, ne), 3000)),
        # decoded from a packed variable (int16 on disk, scale factor 0.01, a fill value): floats in memory, one missing
        'p_face': (('nface',), numpy.array([24.75, numpy.nan, 3.14, 0.5, -7.25, 1.01, 2.02, 3.03][:len(faces)])),
        'id_face': (('nface',), clipcommon.ids((len(faces),))),
        'id_node': (('nnode',), clipcommon.ids((len(nodes),))),
        'id_edge': (('nedge',), clipcommon.ids((ne,))),
        'clock': (('t',), numpy.array([5.0, 6.0]), {'long_name': 'clock'}),
    }
    if not ctx.symbolic:
        # never decoded (built in memory / mask_and_scale=False): the fill value is an attribute. (Real files only: the
        # model of the file round trip does not decode attributes.)
        data['f_node'] = (('nnode',), numpy.array([1.5, 2.0, 2.5, 3.5, 4.5, 5.5, 6.5, 7.5, 8.5, 9.5][:len(nodes)]), {'_FillValue': numpy.float64(-999.0), 'units': 'm'})
    edge_order = None
    if {'face_edge', 'edge_face'} & set(supply) and 'edge_node' not in supply:
        # edges described through face_edge / edge_face only: the edge numbers mean something only if they follow the
        # numbering the library derives for an absent edge_node table, so the input is written in that numbering
        from emsarray.conventions.ugrid import Mesh2DTopology
        derived = [frozenset(int(v) for v in e) for e in Mesh2DTopology(builders.ugrid(mesh, with_edges=True)).edge_node_array]
        mine = [frozenset(e) for e in builders.mesh_edges(faces)[0]]
        edge_order = [mine.index(e) for e in derived]
    if not with_edges:
        # a mesh without any edges: no edge dimension, no edge data
        data = {k: v for k, v in data.items() if 'nedge' not in v[0]}
        ne = None
    extra = dict(extra or {})
    two_name = extra.pop('two_name', None)
    ds = builders.ugrid(mesh, supply=supply, start_index=start_index, fill=fill, transposed=transposed, with_edges=with_edges, data_vars=data,
                        edge_order=edge_order, fill_value=fill_value, coords_as_coords=coords_as_coords, dtype=dtype, **extra)
    if two_name and 'Two' in ds.dims:
        # UGRID does not name the size-two dimension of the edge tables; the dataset has another dimension of length two (t)
        ds = ds.rename({'Two': two_name})
        ds = ds[[n for n in ds.variables if 't' in ds[n].dims] + [n for n in ds.variables if 't' not in ds[n].dims]]
    ds['p_face'].encoding.update(dtype=numpy.dtype('int16'), scale_factor=0.01, _FillValue=numpy.int16(-1))
    ds = ds.assign_coords(t=(('t',), numpy.array([10.0, 20.0])))
    ds.attrs['title'] = 'clip me'
    return ds, UGrid(ds), (nodes, faces, ne)


# ---- running a clip ---------------------------------------------------------------------------

def run_clip(ctx, cv, chosen, clips, buffer, via):
    """yields the clipped dataset for each realisation of the clip geometry"""
    outs = []
    for clip in clips:
        with clipcommon.work_dir(ctx) as wd:
            if via == 'clip':
                out = cv.clip(clip, wd, buffer=buffer)
            elif via == 'mask_twice':
                # one mask cuts a series of datasets with the same geometry: the second application of the same
                # mask object gives what the first one gave, and the mask itself is left as it was
                import os
                mask = cv.make_clip_mask(clip, buffer=buffer)
                msnap = snapshot(mask)
                wa, wb = os.path.join(wd, 'a'), os.path.join(wd, 'b')
                if not ctx.symbolic:
                    os.mkdir(wa)
                    os.mkdir(wb)
                first = cv.apply_clip_mask(mask, wa)
                first = first.load() if not ctx.symbolic else first
                outs.append(first)
                ctx.check(unchanged(mask, msnap, what=('values', 'dims', 'names')), 'applying a clip mask leaves the mask as it was')
                out = cv.apply_clip_mask(mask, wb)
            elif via == 'mask_file_reused' and not ctx.symbolic:
                # masks are saved to a file and read back before they are applied; the file name was used before, in
                # this process, for another mask (one corner cell kept) that was applied to a sibling dataset
                import os
                import shapely as _sh
                p = os.path.join(wd, '..', f'reused-mask-{os.getpid()}.nc')
                corner = next(q for q in cv.polygons if q is not None).representative_point()
                sibling = type(cv)(cv.dataset.copy(deep=True))
                m0 = sibling.make_clip_mask(corner, buffer=0)
                m0.to_netcdf(p)
                m0 = xarray.open_dataset(p)
                wd0 = os.path.join(wd, 'earlier')
                os.mkdir(wd0)
                sibling.apply_clip_mask(m0, wd0).load()
                m0.close()
                os.unlink(p)
                mask = cv.make_clip_mask(clip, buffer=buffer)
                mask.to_netcdf(p)
                mask = xarray.open_dataset(p)
                try:
                    out = cv.apply_clip_mask(mask, wd).load()
                finally:
                    mask.close()
                    os.unlink(p)
            elif via == 'mask_file_reused':
                out = cv.apply_clip_mask(cv.make_clip_mask(clip, buffer=buffer), wd)
            elif via == 'dup_faces':
                # a mask made from a list of faces that names one of them twice (two overlapping queries joined)
                from emsarray.conventions.ugrid import mask_from_face_indexes
                idx = numpy.array(list(chosen)[::-1] + list(chosen)[:1], dtype=numpy.intp)
                out = cv.apply_clip_mask(mask_from_face_indexes(idx, cv.topology), wd)
            elif via == 'same_dir':
                # one mask, one working directory, a series of datasets with the same geometry and other time steps:
                # each comes back with its own coordinates
                mask = cv.make_clip_mask(clip, buffer=buffer)
                sibling = cv.dataset.assign_coords(t=(('t',), numpy.array([1.0, 2.0])))
                earlier = type(cv)(sibling).apply_clip_mask(mask, wd)
                earlier = earlier.load() if not ctx.symbolic else earlier
                ctx.check(list(numpy.asarray(earlier['t'].values, dtype=float)) == [1.0, 2.0], 'coordinates without spatial dimensions pass through unchanged')
                out = cv.apply_clip_mask(mask, wd)
            else:
                mask = cv.make_clip_mask(clip, buffer=buffer)
                if via == 'saved_mask' and not ctx.symbolic:
                    # the mask saved to netCDF, reloaded, and applied (real files only)
                    import os
                    p = os.path.join(wd, '__mask__.nc')
                    mask.to_netcdf(p)
                    mask = xarray.open_dataset(p).load()
                    mask = mask.astype(bool) if all(v.dtype.kind in 'bui' for v in mask.data_vars.values()) and 'old_face_index' not in mask.dims else mask
                out = cv.apply_clip_mask(mask, wd)
            out = out.load() if not ctx.symbolic else out
        outs.append(out)
    return outs


def window(H, j, i, r):
    h, w = H.shape
    return any(H[jj, ii] for jj in range(max(0, j - r), min(h, j + r + 1)) for ii in range(max(0, i - r), min(w, i + r + 1)))


def expected_masks(conv, shape, chosen, buffer):
    ny, nx = shape
    H = numpy.zeros((ny, nx), dtype=bool)
    for n in chosen:
        H[n // nx, n % nx] = True
    F = numpy.array([[window(H, j, i, buffer) for i in range(nx)] for j in range(ny)])
    masks = {'face': F}
    if conv == 'shoc_standard':
        def c(j, i):
            return bool(F[j, i]) if (0 <= j < ny and 0 <= i < nx) else False
        masks['left'] = numpy.array([[c(j, i - 1) or c(j, i) for i in range(nx + 1)] for j in range(ny)])
        masks['back'] = numpy.array([[c(j - 1, i) or c(j, i) for i in range(nx)] for j in range(ny + 1)])
        masks['node'] = numpy.array([[c(j - 1, i - 1) or c(j - 1, i) or c(j, i - 1) or c(j, i) for i in range(nx + 1)] for j in range(ny + 1)])
    return masks


def _attrs_same(new, old):
    """Attributes of a variable after / before. The ones xarray understands (fill value, packing) may have moved to
    the encoding when a piece of the result went through a file - they are still declared, with the same value."""
    a, b = dict(new.attrs), dict(old.attrs)
    for k in ('_FillValue', 'missing_value', 'scale_factor', 'add_offset'):
        if k in b and k not in a and k in new.encoding:
            a[k] = new.encoding[k]
    return set(a) == set(b) and all(bool(numpy.all(numpy.asarray(a[k]) == numpy.asarray(b[k]))) for k in a)


def check_grid_values(ctx, ds, out, kinds, masks):
    """C08 on grids: every selected value kept, every remaining unselected cell blanked, ints cropped not altered."""
    for kind, info in kinds.items():
        yd, xd = info['dims']
        M = masks[kind]
        idv = out[info['id']]
        ctx.check(idv.dims == ds[info['id']].dims and idv.dtype == ds[info['id']].dtype, f'{kind}: integer variable without fill keeps dims and dtype')
        oid = numpy.asarray(idv.values)
        h, w = oid.shape
        H, W = info['shape']
        ok = h >= 1 and w >= 1
        # a contiguous window of the original id grid
        j0, i0 = divmod(int(oid[0, 0]), W) if ok else (0, 0)
        ok = ok and all(int(oid[a, b]) == (j0 + a) * W + (i0 + b) for a in range(h) for b in range(w)) and j0 + h <= H and i0 + w <= W
        ctx.check(ok, f'{kind}: variables that cannot hold a missing value are cropped to a window but never altered')
        if not ok:
            return
        present = {(j0 + a, i0 + b) for a in range(h) for b in range(w)}
        sel = {(j, i) for j in range(H) for i in range(W) if M[j, i]}
        ctx.check(sel <= present, f'{kind}: every selected cell is still present')
        for name in info['float']:
            src, res = ds[name], out[name]
            ctx.check(res.dims == src.dims, f'{kind}: {name} keeps its dimension order')
            other = [d for d in src.dims if d not in (yd, xd)]
            oks = []
            for a in range(h):
                for b in range(w):
                    j, i = j0 + a, i0 + b
                    for oidx in numpy.ndindex(*[src.sizes[d] for d in other]):
                        s = dict(zip(other, oidx))
                        r = dict(s)
                        s.update({yd: j, xd: i})
                        r.update({yd: a, xd: b})
                        got = res.values[tuple(r[d] for d in res.dims)]
                        orig = src.values[tuple(s[d] for d in src.dims)]
                        oks.append(same(got, orig) if M[j, i] else isnan(got))
            ctx.check(And(*oks), f'{kind}: {name}: selected cells keep every value, remaining unselected cells hold missing values')
        for name, fillv in info.get('intfill', []):
            src, res = ds[name], out[name]
            vals = numpy.asarray(res.values)
            good = True
            for a in range(h):
                for b in range(w):
                    j, i = j0 + a, i0 + b
                    v = vals[a, b]
                    if M[j, i]:
                        good = good and (not numpy.isnan(v)) and int(v) == int(src.values[j, i])
                    else:
                        good = good and (bool(numpy.isnan(v)) or int(v) == fillv)
            ctx.check(good, f'{kind}: {name}: integer variable with a fill value keeps selected cells and blanks the rest with its fill value')
    # untouched content
    ctx.check(bool(numpy.array_equal(numpy.asarray(out['clock'].values, dtype=float), [5.0, 6.0])) and out['clock'].attrs.get('long_name') == 'clock',
              'variables without spatial dimensions pass through unchanged')
    ctx.check(float(out['scalar'].values) == 7.5, 'scalar variables pass through unchanged')
    if 'temp' in ds.data_vars:
        ctx.check(dict(out['temp'].attrs) == dict(ds['temp'].attrs), 'variable attributes pass through unchanged, whatever they are called')
    ctx.check(out.attrs.get('title') == 'clip me' and all(out.attrs.get(k) == v for k, v in ds.attrs.items()), 'global attributes pass through unchanged')
    ctx.check(all(_attrs_same(out[n], ds[n]) for n in ds.variables if n in out.variables),
              'the attributes of every variable and coordinate pass through unchanged')
    for name in ds.data_vars:
        ctx.check(name in out.variables, f'variable {name} survives clipping')
    ctx.check([n for n in out.data_vars if n in ds.data_vars] == [n for n in ds.data_vars if n in out.data_vars], 'variable order preserved')


def body_grid(ctx, conv, shape, buffer, via, as_coords, check='values', frame=False):
    ds, cv, kinds = grid_dataset(ctx, conv, shape, as_coords)
    from harness import geomref
    geomref.check(ctx, ds, cv, kind=conv)
    polygons = cv.polygons
    fixed = None
    if frame:
        # the outer frame of cells is selected, the interior cells are symbolic (holes of every shape inside a ring)
        ny, nx = shape
        fixed = {j * nx + i: True for j in range(ny) for i in range(nx) if j in (0, ny - 1) or i in (0, nx - 1)}
    chosen, clips = clipcommon.choose_hits(ctx, cv, polygons, fixed)
    ctx.note('clip', dict(conv=conv, shape=list(shape), hits=chosen, buffer=buffer, via=via))
    if not chosen:
        try:
            run_clip(ctx, cv, chosen, clips[:1], buffer, via)
        except ValueError:
            ctx.check(True, 'an empty selection is refused')
            return
        ctx.check(True, 'an empty selection produced a dataset')
        return
    masks = expected_masks(conv, shape, chosen, buffer)
    snap = snapshot(ds)
    outs = run_clip(ctx, cv, chosen, clips, buffer, via)
    ctx.check(unchanged(ds, snap, what=('values', 'dims', 'attrs', 'names')), 'clipping leaves the input dataset as it was')
    for out in outs:
        if check == 'values':
            check_grid_values(ctx, ds, out, kinds, masks)
        else:
            from harness import c09
            c09.check_grid_geometry(ctx, ds, cv, out, kinds, masks, conv)


def check_mesh_values(ctx, ds, out, info, kept_faces):
    nodes, faces, ne = info
    from emsarray.conventions.ugrid import Mesh2DTopology
    topo = Mesh2DTopology(ds)
    keep_nodes = sorted({v for f in kept_faces for v in faces[f]})
    keep_edges = []
    if ne is not None:
        en = [frozenset(int(x) for x in e) for e in topo.edge_node_array]
        pairs = {frozenset(p) for f in kept_faces for p in zip(faces[f], faces[f][1:] + faces[f][:1])}
        keep_edges = [e for e in range(len(en)) if en[e] in pairs]
    for dim, idname, keep in (('nface', 'id_face', sorted(kept_faces)), ('nnode', 'id_node', keep_nodes), ('nedge', 'id_edge', keep_edges)):
        if dim == 'nedge' and ne is None:
            continue
        got = [int(v) for v in out[idname].values]
        ctx.check(got == keep, f'{dim}: exactly the selected elements remain, in their original relative order')
        ctx.check(out[idname].dtype == ds[idname].dtype, f'{dim}: integer variable keeps its type')
    for name, dim, keep in (('v_face', 'nface', sorted(kept_faces)), ('w_face', 'nface', sorted(kept_faces)), ('p_face', 'nface', sorted(kept_faces)),
                            ('v_node', 'nnode', keep_nodes), ('v_edge', 'nedge', keep_edges)):
        if dim == 'nedge' and ne is None:
            continue
        src, res = ds[name], out[name]
        ctx.check(res.dims == src.dims, f'{name} keeps its dimension order')
        other = [d for d in src.dims if d != dim]
        oks = []
        ok_shape = res.sizes[dim] == len(keep)
        ctx.check(ok_shape, f'{name}: one row per selected element')
        if not ok_shape:
            continue
        for k, e in enumerate(keep):
            for oidx in numpy.ndindex(*[src.sizes[d] for d in other]):
                s = dict(zip(other, oidx))
                r = dict(s)
                s[dim] = e
                r[dim] = k
                oks.append(same(res.values[tuple(r[d] for d in res.dims)], src.values[tuple(s[d] for d in src.dims)]))
        ctx.check(And(*oks), f'{name}: every selected element keeps every one of its values')
    ctx.check(bool(numpy.array_equal(numpy.asarray(out['clock'].values, dtype=float), [5.0, 6.0])), 'variables without mesh dimensions pass through unchanged')
    ctx.check('t' in out.coords and list(numpy.asarray(out['t'].values, dtype=float)) == [10.0, 20.0], 'coordinates without spatial dimensions pass through unchanged')
    ctx.check(out.attrs.get('title') == 'clip me', 'global attributes pass through unchanged')
    ctx.check(dict(out['v_face'].attrs) == dict(ds['v_face'].attrs), 'variable attributes pass through unchanged, whatever they are called')
    mesh_attrs = next(v.attrs for v in ds.variables.values() if v.attrs.get('cf_role') == 'mesh_topology')
    tables = {v for k, v in mesh_attrs.items() if k.endswith('_connectivity')}
    ctx.check(all(_attrs_same(out[n], ds[n]) for n in ds.variables if n in out.variables and n not in tables),
              'the attributes of every variable and coordinate that is not a connectivity table pass through unchanged')
    ctx.check([n for n in out.data_vars if n in ds.data_vars] == [n for n in ds.data_vars if n in out.data_vars], 'variable order preserved')


def body_mesh(ctx, mesh, supply, start_index, fill, buffer, via, check='values', transposed=False, fill_value=None, coords_as_coords=False,
              with_edges=True, dtype='int32', extra=None):
    ds, cv, info = mesh_dataset(ctx, mesh, supply, start_index, fill, transposed, fill_value, coords_as_coords, with_edges, dtype, extra)
    nodes, faces, ne = info
    from harness import geomref
    geomref.check(ctx, ds, cv, kind='ugrid')
    chosen, clips = clipcommon.choose_hits(ctx, cv, cv.polygons)
    ctx.note('clip', dict(mesh=mesh, supply=list(supply), hits=chosen, buffer=buffer, via=via))
    kept = set(chosen)
    for _ in range(buffer):
        kept = ref_ring(faces, kept)
    if not chosen:
        ctx.check(True, 'an empty selection is not exercised on meshes')
        return
    snap = snapshot(ds)
    outs = run_clip(ctx, cv, chosen, clips, buffer, via)
    ctx.check(unchanged(ds, snap, what=('values', 'dims', 'attrs', 'names')), 'clipping leaves the input dataset as it was')
    for out in outs:
        if check == 'values':
            check_mesh_values(ctx, ds, out, info, kept)
        else:
            from harness import c09
            c09.check_mesh_topology(ctx, ds, cv, out, info, kept, supply, start_index)


def _patches():
    st = clipcommon.Store()
    return clipcommon.store_patches(st)


def body_larger(ctx, kind, check='values'):
    """Concrete clips of datasets beyond the sizes of the symbolic cases: a tall grid clipped near row 255 / 256 with one
    and two neighbour rings, a ring of 65,540 triangles (node numbers beyond 16 bits) clipped across its seam."""
    import shapely
    from harness import geomref
    if kind == 'tall-grid':
        ny, nx = 260, 4
        buffer = 1 + int(ctx.int('rings', 0, 1))
        vals = numpy.arange(ny * nx, dtype=float).reshape(ny, nx)
        ds = builders.cf1d(ny, nx, lat=numpy.linspace(-40.0, -14.1, ny), lon=numpy.array([150.0, 150.1, 150.2, 150.3]), data_vars={'cell': (('y', 'x'), vals)})
        cv = ds.ems
        ref = geomref.check(ctx, ds, cv)
        target = ref[255 * nx + 1].representative_point().buffer(0.001)
        with clipcommon.work_dir(ctx) as wd:
            out = cv.clip(target, wd, buffer=buffer).load()
        rows = list(range(255 - buffer, 255 + buffer + 1))
        cols = list(range(max(0, 1 - buffer), min(nx, 1 + buffer + 1)))
        got = out['cell'].values
        ctx.check(got.shape == (len(rows), len(cols)) and bool(numpy.array_equal(got, vals[numpy.ix_(rows, cols)])),
                  'face: every selected cell is still present, with its value (tall grid, clip near row 255)')
        ctx.check(len(out.ems.polygons) == len(rows) * len(cols) and all(p.symmetric_difference(ref[j * nx + i]).area <= 1e-12 for p, (j, i) in zip(out.ems.polygons, [(j, i) for j in rows for i in cols])),
                  'each selected cell has exactly its original polygon')
    elif kind.startswith('narrow-'):
        # quadrilateral meshes whose tables are stored in narrow integer types, with enough nodes that indexes come
        # close to the limits of the type (int8 with more than 100 surviving nodes, int16 with a few hundred nodes)
        import os
        import xarray
        _, rows_, cols_, fdt, edt, keep_rows = kind.split('-')
        rows_, cols_, keep_rows = int(rows_), int(cols_), int(keep_rows)
        node = numpy.arange(rows_ * cols_).reshape(rows_, cols_)
        yy, xx = numpy.meshgrid(numpy.arange(rows_, dtype=float), numpy.arange(cols_, dtype=float), indexing='ij')
        face_node = numpy.array([[node[r, c], node[r, c + 1], node[r + 1, c + 1], node[r + 1, c]] for r in range(rows_ - 1) for c in range(cols_ - 1)])
        edges = []
        for r in range(rows_):
            for c in range(cols_):
                if c + 1 < cols_:
                    edges.append([node[r, c], node[r, c + 1]])
                if r + 1 < rows_:
                    edges.append([node[r + 1, c], node[r, c]])
        edge_node = numpy.array(edges)
        ds = xarray.Dataset({
            'mesh': xarray.DataArray(0, attrs={'cf_role': 'mesh_topology', 'topology_dimension': 2, 'node_coordinates': 'node_x node_y',
                                               'face_node_connectivity': 'face_node', 'edge_node_connectivity': 'edge_node',
                                               'face_dimension': 'face', 'edge_dimension': 'edge'}),
            'face_node': xarray.DataArray(face_node.astype(fdt), dims=['face', 'max_node'], attrs={'cf_role': 'face_node_connectivity', 'start_index': 0}),
            'edge_node': xarray.DataArray(edge_node.astype(edt), dims=['edge', 'Two'], attrs={'cf_role': 'edge_node_connectivity', 'start_index': 0}),
            'node_x': xarray.DataArray(xx.ravel(), dims=['node'], attrs={'units': 'degrees_east'}),
            'node_y': xarray.DataArray(yy.ravel(), dims=['node'], attrs={'units': 'degrees_north'}),
            'eta': xarray.DataArray(numpy.arange(len(face_node), dtype=float), dims=['face']),
            'flux': xarray.DataArray(numpy.arange(len(edge_node), dtype=float), dims=['edge']),
            'depth': xarray.DataArray(numpy.arange(rows_ * cols_, dtype=float), dims=['node']),
        }, attrs={'Conventions': 'UGRID-1.0'})
        from emsarray.conventions.ugrid import UGrid
        cv = UGrid(ds)
        box = shapely.box(-1, -1, cols_ + 1, keep_rows - 0.5)
        kept_faces = [f for f in range(len(face_node)) if f // (cols_ - 1) < keep_rows]
        kept_nodes = sorted({int(n) for f in kept_faces for n in face_node[f]})
        side_sets = {frozenset((int(a), int(b))) for f in kept_faces for a, b in zip(face_node[f], numpy.roll(face_node[f], -1))}
        kept_edges = [e for e in range(len(edge_node)) if frozenset(int(x) for x in edge_node[e]) in side_sets]
        with clipcommon.work_dir(ctx) as wd:
            try:
                out = cv.clip(box, wd).load()
                back = None
                if not ctx.symbolic:
                    target = os.path.join(wd, 'narrow-out.nc')
                    out.ems.to_netcdf(target)
                    back = xarray.open_dataset(target).load()
                    back.close()
            except Exception as e:
                ctx.check(False, f'clipping, saving and reopening a valid dataset succeeds ({type(e).__name__})')
                return
        for tag, res in ((('', out), (' (reopened)', back)) if back is not None else (('', out),)):
            ctx.check([float(v) for v in res['eta'].values] == [float(f) for f in kept_faces], 'face: every selected cell is still present, with its value' + tag)
            ctx.check([float(v) for v in res['flux'].values] == [float(e) for e in kept_edges], 'edge: exactly the selected elements remain, in their original relative order' + tag)
            ctx.check([float(v) for v in res['depth'].values] == [float(n) for n in kept_nodes], 'node: exactly the selected elements remain, in their original relative order' + tag)
            nx_, ny_ = numpy.asarray(res['node_x'].values, dtype=float), numpy.asarray(res['node_y'].values, dtype=float)
            fn = numpy.ma.masked_invalid(numpy.asarray(res['face_node'].values, dtype=float))
            fv = res['face_node'].attrs.get('_FillValue', res['face_node'].encoding.get('_FillValue'))
            ok = fn.shape == (len(kept_faces), 4)
            if ok:
                for row, f in zip(fn, kept_faces):
                    vals = [int(v) for v in row.compressed() if fv is None or int(v) != int(fv)]
                    want = [(float(xx.ravel()[n]), float(yy.ravel()[n])) for n in face_node[f]]
                    ok = ok and len(vals) == 4 and all(0 <= v < len(nx_) for v in vals) and [(float(nx_[v]), float(ny_[v])) for v in vals] == want
            ctx.check(ok, 'each selected cell has exactly its original polygon (face-node table of the result against the original corners)' + tag)
            en = numpy.asarray(res['edge_node'].values, dtype=float)
            ok = en.shape == (len(kept_edges), 2) and not numpy.isnan(en).any()
            if ok:
                for row, e in zip(en, kept_edges):
                    vals = [int(v) for v in row]
                    want = [(float(xx.ravel()[n]), float(yy.ravel()[n])) for n in edge_node[e]]
                    ok = ok and all(0 <= v < len(nx_) for v in vals) and (fv is None or all(v != int(fv) for v in vals) or True) and [(float(nx_[v]), float(ny_[v])) for v in vals] == want
            ctx.check(ok, 'the edges of the result join the same two points as the original edges they come from' + tag)
        ctx.check(len(out.ems.polygons) == len(kept_faces) and all(p is not None and p.symmetric_difference(cv.polygons[f]).area <= 1e-12 for p, f in zip(out.ems.polygons, kept_faces)),
                  'each selected cell has exactly its original polygon')
    else:
        n = 65540 // 2
        # a closed ring: inner nodes 0..n-1, outer nodes n..2n-1, two triangles per sector
        ang = numpy.linspace(0.0, 2 * numpy.pi, n, endpoint=False)
        nodes = [(10.0 * numpy.cos(a), 10.0 * numpy.sin(a)) for a in ang] + [(11.0 * numpy.cos(a), 11.0 * numpy.sin(a)) for a in ang]
        faces = []
        for k in range(n):
            k2 = (k + 1) % n
            faces.append([k, n + k, n + k2])
            faces.append([k, n + k2, k2])
        edata = None
        ds = builders.ugrid((nodes, faces), fill='none', supply=('edge_node',))
        ne = ds.sizes['nedge']
        ds['flux'] = (('nedge',), numpy.arange(ne, dtype=float))
        ds['eta'] = (('nface',), numpy.arange(len(faces), dtype=float))
        from emsarray.conventions.ugrid import UGrid
        cv = UGrid(ds)
        # (the faces whose nodes are numbered from 65,536 on, across the place where the ring closes; one face of each
        # of the two sectors before them is left out, so edges shared with unselected faces are there too)
        seam = [f for f in range(2 * 32763, len(faces)) if f not in (2 * 32764 + 1, 2 * 32767)] + [0, 1]
        polys = cv.polygons
        target = shapely.unary_union([polys[f].representative_point().buffer(1e-6) for f in seam])
        with clipcommon.work_dir(ctx) as wd:
            out = cv.clip(target, wd).load()
        ctx.check(sorted(float(v) for v in out['eta'].values) == sorted(float(f) for f in seam), 'nface: exactly the selected elements remain, in their original relative order')
        en = numpy.asarray(ds['edge_node'].values, dtype=int)
        pairs = {frozenset(p) for f in seam for p in zip(faces[f], faces[f][1:] + faces[f][:1])}
        keep = [e for e in range(ne) if frozenset(int(x) for x in en[e]) in pairs]
        ctx.check([float(v) for v in out['flux'].values] == [float(e) for e in keep], 'nedge: exactly the selected elements remain, in their original relative order')


def cases(tier, check='values'):
    q = tier == 'quick'
    for kind in ('tall-grid', 'ring-65540', 'narrow-2-54-int8-int8-1', 'narrow-3-40-int8-int16-1', 'narrow-13-14-int32-int16-2', 'narrow-16-17-int16-int16-2', 'narrow-16-17-int16-int16-9'):
        yield Case(f'{check}:larger:{kind}', body_larger, dict(kind=kind, check=check), patches=_patches, max_paths=4)
    grids = [('cf1d', (2, 3), True), ('cf2d', (2, 2), True), ('shoc_simple', (2, 2), False), ('shoc_standard', (2, 2), True)]
    if not q:
        grids += [('cf1d', (3, 3), False), ('cf2d', (3, 2), False), ('shoc_standard', (2, 3), False), ('cf2d', (3, 3), True)]
    for conv, shape, as_coords in grids:
        for buffer in ((0, 1) if q else (0, 1, 2)):
            for via in (('clip', 'mask') if q else ('clip', 'mask', 'saved_mask', 'mask_twice')):
                if via != 'clip' and buffer == 2:
                    continue
                yield Case(f'{check}:grid:{conv}:{shape[0]}x{shape[1]}:{"coords" if as_coords else "vars"}:buf{buffer}:{via}', body_grid,
                           dict(conv=conv, shape=shape, buffer=buffer, via=via, as_coords=as_coords, check=check),
                           patches=_patches, max_paths=5000, split=(16 if shape[0] * shape[1] >= 6 else 0))
    for conv, shape, as_coords in (('cf1d', (2, 2), True), ('shoc_standard', (1, 2), True)):
        yield Case(f'{check}:grid:{conv}:{shape[0]}x{shape[1]}:coords:buf0:mask_file_reused', body_grid,
                   dict(conv=conv, shape=shape, buffer=0, via='mask_file_reused', as_coords=as_coords, check=check),
                   patches=_patches, max_paths=5000, split=(16 if shape[0] * shape[1] >= 6 else 0))
    # two neighbour rings on a strip long enough to tell one ring from two
    for conv, shape in (('shoc_standard', (1, 4)), ('cf2d', (1, 4))) if q else (('shoc_standard', (1, 4)), ('cf2d', (1, 4)), ('shoc_standard', (1, 5)), ('shoc_simple', (4, 1))):
        yield Case(f'{check}:grid:{conv}:{shape[0]}x{shape[1]}:coords:buf2:clip', body_grid,
                   dict(conv=conv, shape=shape, buffer=2, via='clip', as_coords=True, check=check), patches=_patches, max_paths=500)
    # a ring of selected cells around symbolic interior cells (holes one row tall, two cells wide, ...)
    for conv, shape in ((('shoc_standard', (3, 4)),) if q else (('shoc_standard', (3, 4)), ('shoc_standard', (4, 4)), ('cf2d', (3, 4)))):
        yield Case(f'{check}:grid:{conv}:{shape[0]}x{shape[1]}:coords:buf0:clip:frame', body_grid,
                   dict(conv=conv, shape=shape, buffer=0, via='clip', as_coords=True, check=check, frame=True),
                   patches=_patches, max_paths=500)
    # one-based tables whose fill value is 0 (kept in the encoding, as when decoded from a file); a strip of quads
    for mesh, supply, kw in (('tqp', ('edge_node', 'face_edge', 'edge_face'), dict(start_index=1, fill='nan', fill_value=0)),
                             ('qqq', ('edge_node',), dict(start_index=0, fill='nan')),
                             # node coordinates held as xarray coordinates (named in a `coordinates` attribute)
                             ('tqp', ('edge_node',), dict(start_index=0, fill='nan', coords_as_coords=True)),
                             # a mesh without edges that stores its face adjacency
                             ('tqp', ('face_face',), dict(start_index=1, fill='nan', with_edges=False)),
                             ('qqq', ('face_face',), dict(start_index=0, fill='attr', with_edges=False)),
                             # a node that no face uses: clipping with a geometry that covers every face still drops it
                             ('tqpx', ('edge_node', 'face_edge'), dict(start_index=0, fill='nan')),
                             ('tqpx', ('edge_node',), dict(start_index=1, fill='attr')),
                             # edges described by edge_face / face_edge only, the size-two dimension called nv, time (length 2) first
                             ('tqp', ('face_edge', 'edge_face'), dict(start_index=0, fill='nan', extra=dict(two_name='nv'))),
                             ('tqp', ('edge_node', 'edge_face'), dict(start_index=1, fill='nan', extra=dict(two_name='nv'))),
                             # a square connectivity table (four quads) stored with the face dimension last
                             ('qqqq', ('edge_node',), dict(start_index=0, fill='nan', transposed=True)),
                             ('qqqq', ('edge_node', 'face_edge'), dict(start_index=1, fill='nan', transposed=True)),
                             # tables that do not count from the same base
                             ('tqp', ('edge_node', 'face_edge', 'edge_face'), dict(start_index=1, fill='attr', extra=dict(start_index_by_table={'face_edge': 0, 'edge_face': 0, 'edge_node': 0}))),
                             # start_index stored as the text "1" / "0"
                             ('tqp', ('edge_node', 'face_edge'), dict(start_index=1, fill='attr', extra=dict(start_index_as_text=True))),
                             ('qqq', ('edge_node', 'edge_face'), dict(start_index=0, fill='nan', extra=dict(start_index_as_text=True))),
                             # tables built in memory in other integer types (nothing in the encoding)
                             ('tqp', ('edge_node', 'face_edge'), dict(start_index=1, fill='attr', dtype='int64')),
                             ('tqp', ('edge_node', 'edge_face'), dict(start_index=0, fill='attr', dtype='int16', fill_value=-1)),
                             # decoded from files whose fill value is the largest (smallest) value of the stored integer type
                             ('tqp', ('edge_node', 'face_edge'), dict(start_index=0, fill='nan', dtype='int64', fill_value=2 ** 63 - 1)),
                             ('tqp', ('edge_node', 'edge_face'), dict(start_index=1, fill='nan', dtype='int32', fill_value=-2 ** 31)),
                             ('tqp', ('edge_node', 'face_edge'), dict(start_index=1, fill='nan', dtype='uint8', fill_value=255))):
        yield Case(f'{check}:mesh:{mesh}:{"+".join(supply)}:start{kw["start_index"]}:{kw["fill"]}:fill{kw.get("fill_value")}:coords{int(kw.get("coords_as_coords", False))}:edges{int(kw.get("with_edges", True))}:{kw.get("dtype", "int32")}{":" + "+".join(kw["extra"]) if kw.get("extra") else ""}{":transposed" if kw.get("transposed") else ""}:buf0:clip', body_mesh,
                   dict(mesh=mesh, supply=supply, buffer=0, via='clip', check=check, **kw), patches=_patches, max_paths=2000)
    # one-based integer tables whose fill value 0 is kept as an attribute; one ring of neighbours
    for buffer in (0, 1):
        yield Case(f'{check}:mesh:qqqtt:edge_node:start1:attr:fill0:buf{buffer}:clip', body_mesh,
                   dict(mesh='qqqtt', supply=('edge_node',), start_index=1, fill='attr', fill_value=0, buffer=buffer, via='clip', check=check),
                   patches=_patches, max_paths=2000)
    # faces that share node number 0 and nothing else; one ring of neighbours
    yield Case(f'{check}:mesh:pin0:edge_node:start0:none:buf1:clip', body_mesh,
               dict(mesh='pin0', supply=('edge_node',), start_index=0, fill='none', buffer=1, via='clip', check=check),
               patches=_patches, max_paths=2000)
    for mesh, supply in (('tqp', ('edge_node', 'edge_face', 'face_face')), ('qqq', ('edge_node', 'face_edge', 'edge_face'))):
        yield Case(f'{check}:mesh:{mesh}:{"+".join(supply)}:start1:nan:buf0:dup_faces', body_mesh,
                   dict(mesh=mesh, supply=supply, start_index=1, fill='nan', buffer=0, via='dup_faces', check=check), patches=_patches, max_paths=2000)
    supplies = [(), ('edge_node',), ('edge_node', 'face_edge'), ('edge_node', 'edge_face'), ('edge_node', 'face_face'),
                ('edge_node', 'face_edge', 'edge_face', 'face_face'),
                # edges described through face_edge / edge_face only (edge numbers = first-seen order of the node pairs,
                # which is also how an absent edge_node table is derived)
                ('face_edge', 'edge_face')]
    meshes = ['tqp'] if q else ['tqp', 'fan', 'qqq']
    k = 0
    for mesh in meshes:
        for supply in supplies:
            k += 1
            start_index, fill = (k % 2, 'nan' if k % 3 else 'attr')
            if mesh in ('fan', 'qqq') and fill == 'attr' and not ({'edge_face', 'face_face'} & set(supply)):
                fill = 'nan'
            for buffer in ((0,) if q else (0, 1)):
                for via in (('clip', 'mask_twice', 'same_dir') if q else ('clip', 'mask', 'mask_twice', 'same_dir')):
                    if via == 'mask_twice' and q and k % 3 != 1:
                        continue
                    if via == 'same_dir' and k % 3 != 2:
                        continue
                    yield Case(f'{check}:mesh:{mesh}:{"+".join(supply) or "none"}:start{start_index}:{fill}:buf{buffer}:{via}', body_mesh,
                               dict(mesh=mesh, supply=supply, start_index=start_index, fill=fill, buffer=buffer, via=via, check=check),
                               patches=_patches, max_paths=2000)


def functions():
    from emsarray import masking, utils
    from emsarray.conventions import _base, grid, arakawa_c, ugrid
    return [masking.mask_grid_dataset, masking.mask_grid_data_array, masking.find_fill_value, masking.calculate_grid_mask_bounds,
            utils.dataset_like, utils._update_no_clobber, grid.CFGrid.apply_clip_mask, arakawa_c.ArakawaC.apply_clip_mask,
            ugrid.UGrid.apply_clip_mask, ugrid.update_connectivity, _base.Convention.clip]


def run(tier, seed=0, replay=None, procs=None, only=None, prop=PROP, check='values'):
    if replay:
        return replay_file(replay, list(cases('thorough', check)) + list(cases('quick', check)))
    cs = list(cases(tier, check))
    if only:
        cs = [c for c in cs if re.search(only, c.name)]
    q = tier == 'quick'
    from symx import envsweep
    return main_run(
        prop, tier, cs, functions=functions(), seed=seed, procs=procs or 16,
        late_checks=envsweep.late([('clip_save_reopen', 'the clipped dataset can be saved and reopened as a dataset of the same convention',
                                    lambda v: v['convention'] == 'CFGrid1D' and v['shape'] == [2, 2, 2] and v['values'] == [0.0, 1.0, 4.0, 5.0, 12.0, 13.0, 16.0, 17.0]
                                    and len(v['polygons']) == 4 and v['instants'][0].startswith('2020-01-01T00:00:00'))], only),
        bounds=dict(
            datasets=f'grids 2x2..{"2x3" if q else "3x3"} of every convention with float variables (spatial dimensions first / middle / last), '
                     f'int without fill, int with _FillValue / missing_value, non-spatial and scalar variables; meshes '
                     f'{"tqp" if q else "tqp, fan, qqq"} with six subsets of the optional connectivity, 0/1-based, NaN / _FillValue',
            selections='every subset of intersecting cells (symbolic, behind the STRtree contract) x buffer 0..'
                       f'{1 if q else 2}; mask applied directly or via clip(); in replay also saved to netCDF and reloaded',
            symbolic='all float data values: Real + NaN flag',
            outside='the netCDF round trip, on-disk dtype/_FillValue and dask loading are validated on witnesses only'),
        stubs=['per-variable netCDF round trip (utils.to_netcdf_with_fixes, Dataset/DataArray.to_netcdf, xarray.open_mfdataset) -> '
               'in-memory store: what was written is what is merged back (symbolic mode only; replay uses real files)',
               'STRtree.query -> exactly the chosen cells, non-sorted order'],
        assumptions=['xarray where/isel/merge treat object arrays like float arrays (every path is replayed on real files)'],
    )
