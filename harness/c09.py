"""C09 - clipped and subsetted datasets remain valid datasets with unchanged geometry.

Uses the clip machinery of c08.py (symbolic data values, symbolic hit set, the
in-memory round-trip contract / real files in replay) and checks the geometry
side: same convention, selected cells keep their polygon, no new polygon,
mesh connectivity consistent under the new numbering with index base and
integer type kept; select_variables leaves every polygon identical.
"""
import re

import numpy
import xarray

from symx import builders
from symx.core import And, Not, Or, same
from symx.runner import Case, main_run, replay_file
from harness import c08, clipcommon

PROP = 'C09'


def save_and_reopen(ctx, out, cls, polygons_expected):
    """replay only: the clipped dataset can be saved through the convention and reopened as the same convention"""
    if ctx.symbolic:
        return
    import os
    import emsarray
    with clipcommon.work_dir(ctx) as wd:
        path = os.path.join(wd, 'clipped.nc')
        try:
            out.ems.to_netcdf(path)
        except Exception as e:
            ctx.check(False, f'the clipped dataset can be saved: {type(e).__name__}: {str(e)[:160]}')
            return
        back = emsarray.open_dataset(path)
        try:
            ctx.check(type(back.ems) is cls, 'the clipped dataset can be saved and reopened as a dataset of the same convention')
            got = back.ems.polygons
            ctx.check(len(got) == len(polygons_expected) and all(
                (a is None and b is None) or (a is not None and b is not None and ring_of(a) == ring_of(b)) for a, b in zip(got, polygons_expected)),
                'the reopened dataset has the same polygons')
        finally:
            back.close()


def ring_of(p):
    return [tuple(round(float(v), 9) for v in c) for c in p.exterior.coords[:-1]]


def check_grid_geometry(ctx, ds, cv, out, kinds, masks, conv):
    from emsarray.conventions import get_dataset_convention
    cls = get_dataset_convention(out)
    ctx.check(cls is type(cv), f'the clipped dataset is again a {type(cv).__name__} dataset')
    if cls is not type(cv):
        return
    ocv = cls(out)
    info = kinds['face']
    oid = numpy.asarray(out[info['id']].values)
    M = masks['face']
    H, W = info['shape']
    old = cv.polygons
    new = ocv.polygons
    ctx.check(len(new) == oid.size, 'one polygon slot per remaining cell')
    if len(new) != oid.size:
        return
    old_rings = {tuple(ring_of(p)) for p in old if p is not None}
    for k, m in enumerate(oid.reshape(-1)):
        j, i = divmod(int(m), W)
        if M[j, i]:
            ctx.check(new[k] is not None and old[int(m)] is not None and ring_of(new[k]) == ring_of(old[int(m)]),
                      'every selected cell has exactly its original polygon')
        if new[k] is not None:
            ctx.check(tuple(ring_of(new[k])) in old_rings, 'no polygon appears that the original did not have')
    save_and_reopen(ctx, out, cls, new)
    # the geometry variables survive with their attributes
    for name in cv.get_all_geometry_names():
        ctx.check(name in out.variables and out[name].attrs == ds[name].attrs, f'geometry variable {name} survives with its attributes')
        ctx.check((name in out.coords) == (name in ds.coords), f'{name} stays a {"coordinate" if name in ds.coords else "plain variable"}')


def check_mesh_topology(ctx, ds, cv, out, info, kept, supply, start_index):
    from emsarray.conventions import get_dataset_convention
    from emsarray.conventions.ugrid import Mesh2DTopology, UGrid
    nodes, faces, ne = info
    cls = get_dataset_convention(out)
    ctx.check(cls is UGrid, 'the clipped dataset is again a UGRID dataset')
    if cls is not UGrid:
        return
    old_topo = Mesh2DTopology(ds)
    topo = Mesh2DTopology(out)
    kept = sorted(kept)
    keep_nodes = sorted({v for f in kept for v in faces[f]})
    nmap = {v: k for k, v in enumerate(keep_nodes)}
    fmap = {f: k for k, f in enumerate(kept)}
    keep_edges, emap = [], {}
    if ne is not None:
        en_old = [frozenset(int(x) for x in e) for e in old_topo.edge_node_array]
        pairs = {frozenset(p) for f in kept for p in zip(faces[f], faces[f][1:] + faces[f][:1])}
        keep_edges = [e for e in range(len(en_old)) if en_old[e] in pairs]
        emap = {e: k for k, e in enumerate(keep_edges)}

    def rows(arr):
        return [[int(v) for v in numpy.ma.compressed(r)] for r in arr]
    # face_node under the new numbering
    ctx.check(rows(topo.face_node_array) == [[nmap[v] for v in faces[f]] for f in kept],
              'face-node connectivity refers to surviving nodes under the new numbering')
    # polygons unchanged
    ocv = UGrid(out)
    ctx.check(all(c08_ring(p) == c08_ring(cv.polygons[f]) for p, f in zip(ocv.polygons, kept)),
              'every selected face has exactly its original polygon')
    ctx.check(len(ocv.polygons) == len(kept), 'no face appears that was not selected')
    save_and_reopen(ctx, out, UGrid, ocv.polygons)
    present = {
        'face_node': 'face_node', 'edge_node': 'edge_node', 'face_edge': 'face_edge', 'edge_face': 'edge_face', 'face_face': 'face_face'}
    for name in ['face_node'] + list(supply):
        ctx.check(name in out.data_vars, f'connectivity variable {name} is present in the output')
        if name not in out.data_vars:
            continue
        src, res = ds[name], out[name]
        ctx.check(res.dims == src.dims, f'{name} keeps its dimension order')
        ctx.check(int(res.attrs.get('start_index', 0)) == int(src.attrs.get('start_index', 0)), f'{name} keeps its index base')
        want_dtype = src.encoding.get('dtype', src.dtype)
        got_dtype = res.encoding.get('dtype', res.dtype)
        ctx.check(numpy.dtype(got_dtype).kind in 'iu' and numpy.dtype(got_dtype) == numpy.dtype(want_dtype), f'{name} keeps its integer type')
    if 'edge_node' in supply:
        en = rows(topo.edge_node_array)
        ctx.check(en == [[nmap[int(v)] for v in old_topo.edge_node_array[e]] for e in keep_edges],
                  'edge-node connectivity: surviving edges in original order, nodes renumbered')
    if 'face_edge' in supply:
        fe_old = rows(old_topo.face_edge_array)
        ctx.check(rows(topo.face_edge_array) == [[emap[e] for e in fe_old[f]] for f in kept],
                  'face-edge connectivity refers to surviving edges under the new numbering')
    if 'edge_face' in supply:
        ef_old = rows(old_topo.edge_face_array)
        ctx.check([sorted(r) for r in rows(topo.edge_face_array)] == [sorted(fmap[f] for f in ef_old[e] if f in fmap) for e in keep_edges],
                  'edge-face connectivity lists exactly the surviving faces of each surviving edge')
    if 'face_face' in supply:
        ff_old = rows(old_topo.face_face_array)
        ctx.check([sorted(r) for r in rows(topo.face_face_array)] == [sorted(fmap[g] for g in ff_old[f] if g in fmap) for f in kept],
                  'face-face connectivity lists exactly the surviving neighbours')
    if ne is None:
        pass          # no edges: nothing derived from them
    elif 'edge_node' in supply or not ({'face_edge', 'edge_face'} & set(supply)):
        # derived tables of the output agree with its own face-node table
        en2 = [frozenset(e) for e in rows(topo.edge_node_array)]
        fe2 = rows(topo.face_edge_array)
        fn2 = rows(topo.face_node_array)
        ctx.check(all([en2[e] for e in fe2[k]] == [frozenset(p) for p in zip(fn2[k], fn2[k][1:] + fn2[k][:1])] for k in range(len(fn2))),
                  'the connectivity variables of the output agree with each other')
    elif {'face_edge', 'edge_face'} <= set(supply):
        # no edge-node table in the file: the edge numbers live in face_edge / edge_face only, which must agree with
        # each other (edge e lists face f exactly when face f lists edge e)
        fe2, ef2 = rows(topo.face_edge_array), rows(topo.edge_face_array)
        ctx.check(all((e in fe2[f]) == (f in ef2[e]) for f in range(len(fe2)) for e in range(len(ef2))),
                  'the connectivity variables of the output agree with each other')


def c08_ring(p):
    return ring_of(p)


def body_select_variables(ctx, conv, bounds_as_coords=False, one_axis=False, padded_bounds_name=False):
    """Keeping only some data variables leaves the geometry, and therefore every polygon, identical."""
    if conv == 'ugrid':
        ds, cv, info = c08.mesh_dataset(ctx, 'tqp', ('edge_node', 'face_edge'), 1, 'nan')
        datavars = ['v_face', 'v_node', 'v_edge', 'id_face']
    else:
        ds, cv, kinds = c08.grid_dataset(ctx, conv, (2, 2), as_coords=(conv != 'cf2d'))
        datavars = [n for n in ('temp', 'botz', 'flag', 'clock', 'v_face', 'v_left', 'id_node') if n in ds.data_vars][:4]
        if bounds_as_coords:
            # bounds variables promoted to coordinates, as xarray does with decode_coords='all'
            bnds = [n for n in ds.data_vars if n.endswith('_bnds')]
            ds = ds.set_coords(bnds)
            cv = type(cv)(ds)
    if one_axis:
        # explicit bounds on one axis only (the other axis has none and is derived)
        gone = [n for n in ds.variables if str(n).endswith('_bnds')][-1]
        ds = ds.drop_vars(gone)
        for v in ds.variables.values():
            if v.attrs.get('bounds') == gone:
                del v.attrs['bounds']
        cv = type(cv)(ds)
    if padded_bounds_name:
        # a bounds attribute that matches a variable name only after stripping blanks: whatever the library makes of
        # it (stored bounds or derived ones), the subset is treated the same way
        for v in ds.variables.values():
            if isinstance(v.attrs.get('bounds'), str):
                v.attrs['bounds'] = v.attrs['bounds'] + '  '
        cv = type(cv)(ds)
    keep = [n for k, n in enumerate(datavars) if bool(ctx.bool(f'keep{k}'))]      # forks: every subset
    ctx.note('subset', keep)
    sub = cv.select_variables(keep)
    ctx.check(set(keep) <= set(sub.data_vars), 'the requested variables are kept')
    ctx.check(not (set(datavars) - set(keep)) & set(sub.data_vars), 'the other data variables are dropped')
    for name in cv.get_all_geometry_names():
        ctx.check(name in sub.variables, f'geometry variable {name} is kept')
    from emsarray.conventions import get_dataset_convention
    cls = get_dataset_convention(sub)
    ctx.check(cls is type(cv), 'the subset is a dataset of the same convention')
    if cls is type(cv):
        a, b = cv.polygons, cls(sub).polygons
        ctx.check(len(a) == len(b) and all((p is None and q is None) or (p is not None and q is not None and ring_of(p) == ring_of(q)) for p, q in zip(a, b)),
                  'every polygon is identical after subsetting variables')
    for n in keep:
        src, res = ds[n], sub[n]
        ctx.check(res.dims == src.dims and And(*[same(x, y) for x, y in zip(res.values.ravel(), src.values.ravel())]), f'{n} is unchanged')


def cases(tier):
    for c in c08.cases(tier, check='geometry'):
        yield c
    for conv in ('cf1d', 'cf2d', 'shoc_simple', 'shoc_standard', 'ugrid'):
        yield Case(f'select_variables:{conv}', body_select_variables, dict(conv=conv), max_paths=200)
    for conv in ('cf1d', 'cf2d'):
        yield Case(f'select_variables:{conv}:bounds-on-one-axis', body_select_variables, dict(conv=conv, one_axis=True), max_paths=200)
    for conv in ('cf1d', 'cf2d'):
        yield Case(f'select_variables:{conv}:padded-bounds-name', body_select_variables, dict(conv=conv, padded_bounds_name=True), max_paths=200)
    for conv in ('cf1d', 'cf2d', 'shoc_simple'):
        yield Case(f'select_variables:{conv}:bounds-as-coordinates', body_select_variables, dict(conv=conv, bounds_as_coords=True), max_paths=200)


def run(tier, seed=0, replay=None, procs=None, only=None):
    if replay:
        return replay_file(replay, list(cases('thorough')) + list(cases('quick')))
    cs = list(cases(tier))
    if only:
        cs = [c for c in cs if re.search(only, c.name)]
    from symx.runner import main_run
    q = tier == 'quick'
    from symx import envsweep
    return main_run(
        PROP, tier, cs, functions=c08.functions() + _more_functions(), seed=seed, procs=procs or 16,
        late_checks=envsweep.late([('clip_save_reopen', 'the clipped dataset can be saved and reopened as a dataset of the same convention',
                                    lambda v: v['convention'] == 'CFGrid1D' and v['shape'] == [2, 2, 2] and v['values'] == [0.0, 1.0, 4.0, 5.0, 12.0, 13.0, 16.0, 17.0]
                                    and len(v['polygons']) == 4 and v['instants'][0].startswith('2020-01-01T00:00:00'))], only),
        bounds=dict(
            datasets='as C08: grids 2x2..3x3 of every convention (coordinates as xarray coordinates or plain variables), meshes with six '
                     'subsets of the optional connectivity, 0/1-based, NaN / _FillValue attribute',
            selections=f'every subset of intersecting cells x buffer 0..{1 if q else 2}; every subset of 4 data variables for select_variables',
            outside='saving and reopening the result is exercised in replay only (real netCDF files)'),
        stubs=['in-memory store for the per-variable netCDF round trip (symbolic mode only)', 'STRtree.query -> exactly the chosen cells'],
        assumptions=['the convention detectors are deterministic (C11)'],
    )


def _more_functions():
    from emsarray.conventions import _base, ugrid
    return [ugrid._masked_integer_data_array, ugrid._get_start_index, _base.Convention.select_variables]
