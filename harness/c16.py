"""C16 - the geometry cache key depends on the geometry and on nothing else.

(a) The byte stream fed to the hash: the real Convention.hash_geometry /
    make_cache_key / hash_string / hash_int / hash_attributes run on a dataset
    stand-in whose geometry fields are symbolic (names and dtype names: byte
    strings, sizes and shapes: Ints, data and marshalled attributes: byte
    sequences).  The `hash` argument is a recorder, so the result is the *stream
    grammar* as a z3 Seq(BitVec 8) term.  z3 then decides single-edit sensitivity
    (equal streams => equal field) and determinism (equal geometry => equal stream).
(b) Real datasets of every convention: non-geometry edits keep the real key,
    single geometry edits change it, fresh interpreters with other hash seeds agree
    (validated on witnesses).
"""
import hashlib
import itertools
import json
import os
import re
import subprocess
import sys
import time

import numpy
import z3

from symx import builders, env
from symx.core import HarnessError, SymBool, SymInt, ctx as cur_ctx, And, Not, Or, same
from symx.runner import Case, VERIF, main_run, replay_file

PROP = 'C16'
BV8 = z3.BitVecSort(8)


class SymBytes:
    """A byte string of known length whose bytes are z3 BitVec(8) terms (or ints)."""
    def __init__(self, cells):
        self.cells = list(cells)

    def __len__(self):
        return len(self.cells)


class SymStr:
    """ASCII string of known length with symbolic characters."""
    def __init__(self, cells):
        self.cells = list(cells)

    def encode(self, encoding='utf-8'):
        return SymBytes(self.cells)

    def __len__(self):
        return len(self.cells)

    @property
    def name(self):       # numpy dtype .name
        return self


def sym_str(x=''):
    if isinstance(x, SymStr):
        return x
    return str(x)


class Recorder:
    """hashlib-style object that records the stream instead of hashing it."""
    def __init__(self):
        self.cells = []

    def update(self, b):
        if isinstance(b, SymBytes):
            self.cells.extend(b.cells)
        elif isinstance(b, (bytes, bytearray, memoryview)):
            self.cells.extend(int(x) for x in bytes(b))
        else:
            raise HarnessError(f'hash.update received {type(b).__name__}')

    def hexdigest(self):
        return 'symbolic'


def cells_equal(a, b):
    if len(a) != len(b):
        return z3.BoolVal(False)
    cs = []
    for x, y in zip(a, b):
        if isinstance(x, int) and isinstance(y, int):
            if x != y:
                return z3.BoolVal(False)
            continue
        cs.append((x if not isinstance(x, int) else z3.BitVecVal(x, 8)) == (y if not isinstance(y, int) else z3.BitVecVal(y, 8)))
    return z3.And(*cs) if cs else z3.BoolVal(True)


class FakeAttrs(dict):
    """Attribute dictionary stand-in: `count` attributes whose marshalled form is `marshalled`."""
    def __init__(self, count, marshalled):
        super().__init__()
        self.count, self.marshalled = count, marshalled

    def __len__(self):
        return self.count


def marshal_dumps(attrs, version):
    """Contract of marshal.dumps for attribute dictionaries: some byte string determined by the dictionary
    value AND by which equal objects are shared (CPython back-references), injective in the value."""
    if not isinstance(attrs, FakeAttrs):
        import marshal
        return marshal.dumps(attrs, version)
    if version != 4:
        raise HarnessError('marshal version changed')
    return attrs.marshalled


class FakeValues:
    def __init__(self, dtype):
        self.dtype = dtype


class FakeDType:
    isnative = True             # native byte order (other byte orders: real datasets below)
    byteorder = '='

    def __init__(self, name):
        self.name = name


class FakeNumpy:
    """ndarray.tobytes contract: order='C' gives the values in logical (row-major) order - a function of the
    values alone; any other order depends on how the array happens to be laid out in memory."""
    counter = 0

    def __init__(self, data, dtype=None):
        self.data = data
        self.dtype = dtype or FakeDType('float64')

    def tobytes(self, order='C'):
        if order == 'C':
            return self.data
        FakeNumpy.counter += 1
        return SymBytes([z3.BitVec(f'layout{FakeNumpy.counter}_{k}', 8) for k in range(len(self.data))])


class FakeArray:
    def __init__(self, g):
        self.g = g
        self.encoding = {}
        self.values = FakeValues(FakeDType(g['dtype']))
        self.size = g['size']
        self.shape = tuple(g['shape'])
        self.attrs = FakeAttrs(g['nattrs'], g['marshalled'])
        self.chunks = None          # an array held in memory (chunked arrays: real datasets below)

    def to_numpy(self):
        return FakeNumpy(self.g['data'], self.values.dtype)


class _KeyedDataset:
    def __init__(self, geoms):
        self.by = {id(g['name']): FakeArray(g) for g in geoms}
        self.ems = None
        self.encoding = {}          # dataset-level encoding (unlimited dimensions ...): not geometry

    def __getitem__(self, name):
        return self.by[id(name)]


def make_fake(geoms, cls):
    """The *real* hash_geometry function object is bound to a stand-in convention whose
    dataset hands out the symbolic geometry variables."""
    class Conv(cls):
        def __init__(self):
            pass

        def get_all_geometry_names(self):
            return [g['name'] for g in geoms]
    Conv.__name__, Conv.__qualname__, Conv.__module__ = cls.__name__, cls.__qualname__, cls.__module__
    conv = Conv()
    conv.dataset = _KeyedDataset(geoms)
    return conv


def sym_cells(ctx, tag, n):
    return [z3.BitVec(f'{tag}_{k}', 8) for k in range(n)]


def pick_len(ctx, name, lo, hi):
    return int(ctx.int(name, lo, hi))      # forks: every length in the range


def geom(ctx, tag, rank, itemsize, maxsize=2):
    """A geometry variable with symbolic contents; lengths are enumerated by forking."""
    nl = pick_len(ctx, f'{tag}_namelen', 1, 2)
    dl = pick_len(ctx, f'{tag}_dtypelen', 1, 2)
    shape = [pick_len(ctx, f'{tag}_shape{k}', 1, maxsize) for k in range(rank)]
    size = int(numpy.prod(shape)) if rank else 1
    ml = pick_len(ctx, f'{tag}_marshallen', 1, 2)
    na = pick_len(ctx, f'{tag}_nattrs', 0, 1)
    return dict(name=SymStr(sym_cells(ctx, f'{tag}_name', nl)), dtype=SymStr(sym_cells(ctx, f'{tag}_dtype', dl)),
                size=size, shape=shape, data=SymBytes(sym_cells(ctx, f'{tag}_data', size * itemsize)),
                nattrs=na, marshalled=SymBytes(sym_cells(ctx, f'{tag}_marshal', ml)), itemsize=itemsize)


def _patches():
    from emsarray.conventions import _base
    from emsarray.operations import cache
    import marshal
    return env.patched(
        (cache, 'marshal', env.Proxy(marshal, dict(dumps=marshal_dumps))),
        (_base, 'str', sym_str),
    )


def record(geoms, cls=None, through='make_cache_key'):
    """Run the real code on the stand-in and return the recorded stream (list of byte cells)."""
    from emsarray.conventions import _base
    from emsarray.operations import cache
    from emsarray.conventions.grid import CFGrid1D
    cls = cls or CFGrid1D
    conv = make_fake(geoms, cls)
    rec = Recorder()
    if through == 'hash_geometry':
        _base.Convention.hash_geometry(conv, rec)
    else:
        ds = conv.dataset
        ds.ems = conv
        cache.make_cache_key(ds, rec)
    return rec.cells


def body_edit(ctx, field, rank, itemsize, nvars):
    """Single-edit sensitivity: G' = G with one field replaced; equal streams force the field to be equal."""
    if not ctx.symbolic:
        ctx.check(True, 'covered by the real-dataset checks')
        return
    gs = [geom(ctx, f'g{k}', rank, itemsize) for k in range(nvars)]
    tgt = gs[0]
    ed = dict(tgt)
    if field == 'name':
        n2 = SymStr(sym_cells(ctx, 'name2', pick_len(ctx, 'name2_len', 0, 2)))
        ed['name'] = n2
        differs = z3.Not(cells_equal(n2.cells, tgt['name'].cells))
    elif field == 'dtype':
        d2 = SymStr(sym_cells(ctx, 'dtype2', pick_len(ctx, 'dtype2_len', 1, 2)))
        ed['dtype'] = d2
        differs = z3.Not(cells_equal(d2.cells, tgt['dtype'].cells))
    elif field == 'data':
        d2 = SymBytes(sym_cells(ctx, 'data2', len(tgt['data'])))
        ed['data'] = d2
        differs = z3.Not(cells_equal(d2.cells, tgt['data'].cells))
    elif field == 'shape':
        # same bytes, same size, another shape (of any rank 0..2)
        r2 = pick_len(ctx, 'rank2', 0, 2)
        sh2 = [pick_len(ctx, f'shape2_{k}', 0, 4) for k in range(r2)]
        if (int(numpy.prod(sh2)) if r2 else 1) != tgt['size'] or sh2 == tgt['shape']:
            ctx.check(True, 'not an edit')
            return
        ed['shape'] = sh2
        differs = z3.BoolVal(True)
    elif field == 'attrs':
        m2 = SymBytes(sym_cells(ctx, 'marshal2', pick_len(ctx, 'marshal2_len', 1, 2)))
        ed['marshalled'] = m2
        ed['nattrs'] = pick_len(ctx, 'nattrs2', 0, 1)
        # injectivity of marshal: a different attribute dictionary marshals differently
        differs = z3.Not(cells_equal(m2.cells, tgt['marshalled'].cells))
    else:
        raise ValueError(field)
    s1 = record(gs)
    s2 = record([ed] + gs[1:])
    ctx.check(SymBool(z3.Implies(cells_equal(s1, s2), z3.Not(differs))),
              f'a change of the {field} of a geometry variable changes the hashed stream')


def body_determinism(ctx, rank, itemsize):
    """Equal geometry (same field values) => equal stream."""
    if not ctx.symbolic:
        _concrete_determinism(ctx)
        return
    g = geom(ctx, 'g0', rank, itemsize)
    h = dict(g)
    # the same attribute *value*, marshalled in another sharing context: the contract does not promise equal bytes
    h['marshalled'] = SymBytes(sym_cells(ctx, 'marshal_other', pick_len(ctx, 'marshal_other_len', 1, 2)))
    s1 = record([g])
    s2 = record([h])
    ctx.check(SymBool(cells_equal(s1, s2)),
              'the same geometry variable (equal names, types, shapes, values, attributes) gives the same stream')


def body_convention(ctx, rank, itemsize):
    from emsarray.conventions.grid import CFGrid1D, CFGrid2D
    if not ctx.symbolic:
        ctx.check(True, 'covered by the real-dataset checks')
        return
    import emsarray
    g = geom(ctx, 'g0', rank, itemsize)
    s1 = record([g], CFGrid1D)
    s2 = record([g], CFGrid2D)
    ctx.check(SymBool(z3.Not(cells_equal(s1, s2))), 'a different convention class gives a different stream')
    s3 = record([g], CFGrid1D, through='hash_geometry')
    ctx.check(len(s3) <= len(s1) and z3.is_true(z3.simplify(cells_equal(s1[:len(s3)], s3))),
              'make_cache_key hashes the geometry first')
    exp = []
    for text in (CFGrid1D.__module__, CFGrid1D.__name__, emsarray.__version__):
        exp.extend(int(x) for x in numpy.int32(len(text)).tobytes())
        exp.extend(int(x) for x in text.encode('utf-8'))
    ctx.check(s1[len(s3):] == exp, 'after the geometry come exactly module, class name and package version, length-prefixed')


# ---- concrete counterparts (replay of witnesses on the real stack) ----------------------------

def _dataset(conv):
    import xarray
    if conv == 'cf1d':
        ds = builders.cf1d(2, 3, lat_bounds=numpy.array([[9.5, 10.5], [10.5, 11.5]]),
                           lon_bounds=numpy.array([[99.0, 101.0], [101.0, 103.0], [103.0, 105.0]]),
                           data_vars={'temp': (('t', 'y', 'x'), numpy.arange(12.0).reshape(2, 2, 3))})
    elif conv == 'cf2d':
        jj, ii = numpy.meshgrid(numpy.arange(2.0), numpy.arange(2.0), indexing='ij')
        lat, lon = 10.0 + jj + 0.25 * ii, 100.0 + 2.0 * ii - 0.5 * jj
        off = [(-1, -1), (1, -1), (1, 1), (-1, 1)]
        ds = builders.cf2d(2, 2, lat=lat, lon=lon, lon_bounds=numpy.stack([lon + a for a, b in off], axis=-1),
                           lat_bounds=numpy.stack([lat + b * 0.5 for a, b in off], axis=-1),
                           data_vars={'temp': (('t', 'y', 'x'), numpy.arange(8.0).reshape(2, 2, 2))})
    elif conv == 'cf1d-wide':
        # geometry variables of more than 64 KiB (a 9000-column axis, bounds twice that)
        n = 9000
        lon = 100.0 + numpy.arange(n) * 0.01
        ds = builders.cf1d(2, n, lon=lon, lon_bounds=numpy.stack([lon - 0.005, lon + 0.005], axis=-1))
    elif conv == 'cf2d-wide':
        jj, ii = numpy.meshgrid(numpy.arange(100.0), numpy.arange(110.0), indexing='ij')
        ds = builders.cf2d(100, 110, lat=10.0 + 0.01 * jj + 0.001 * ii, lon=100.0 + 0.02 * ii - 0.001 * jj)
    elif conv == 'shoc_standard':
        ds = builders.shoc_standard(2, 2, data_vars={'temp': (('t',) + builders.SHOC_DIMS['face'], numpy.arange(8.0).reshape(2, 2, 2))})
    elif conv == 'ugrid':
        ds = builders.ugrid('tqp', supply=('edge_node',), fill='nan',
                            data_vars={'temp': (('t', 'nface'), numpy.arange(6.0).reshape(2, 3))})
    return ds.assign_attrs(title='x')


def make_cache_key_direct(ds):
    from emsarray.operations.cache import make_cache_key
    return make_cache_key(ds)


def key_of(ds):
    from emsarray.operations.cache import make_cache_key
    return make_cache_key(ds.copy())


CLASSES = dict(cf1d='CFGrid1D', cf2d='CFGrid2D', shoc_standard='ShocStandard', ugrid='UGrid')


def real_dataset_checks(tier):
    import xarray
    viol, notes = [], []

    def V(case, label, detail):
        viol.append(dict(case=case, label=label, inputs={}, detail=str(detail)[:1200], how='real make_cache_key on real datasets'))
    for conv in ('cf1d', 'cf2d', 'shoc_standard', 'ugrid'):
        ds = _dataset(conv)
        k0 = key_of(ds)
        geom_names = list(ds.copy().ems.get_all_geometry_names())
        # non-geometry edits: must not change the key
        edits = {
            'data values': lambda d: d.assign(temp=d['temp'] + 1),
            'extra variable': lambda d: d.assign(extra=(('t',), numpy.array([1.0, 2.0]))),
            'global attribute': lambda d: d.assign_attrs(title='another title', history='edited'),
            'fewer time steps': lambda d: d.isel(t=slice(0, 1)),
            'data variable attribute': lambda d: d.assign(temp=d['temp'].assign_attrs(units='K')),
            'variable dropped': lambda d: d.drop_vars('temp'),
        }
        for name, fn in edits.items():
            if key_of(fn(ds.copy(deep=True))) != k0:
                V(f'real:{conv}:{name}', 'editing non-geometry content does not change the cache key', name)
        # single geometry edits: must change the key
        g = geom_names[0] if conv != 'ugrid' else 'node_x'
        gv = ds[g]

        def put(d, da):
            # keep coordinate-ness and attrs of the edited geometry variable
            if g in d.coords:
                return d.assign_coords({g: da})
            return d.assign({g: da})
        vals = gv.values.copy()
        flat = vals.reshape(-1).copy()
        flat[0] = flat[0] + 0.125
        gedits = {
            'one value': lambda d: put(d, gv.copy(data=flat.reshape(vals.shape))),
            'dtype': lambda d: put(d, gv.astype('float32')),
            'attribute added': lambda d: put(d, gv.assign_attrs(comment='x')),
            'attribute changed': lambda d: put(d, gv.assign_attrs(units='degrees')),
            # attributes are attributes, whatever they are called
            'underscore attribute added': lambda d: put(d, gv.assign_attrs(_note='x')),
            'fill value attribute added': lambda d: put(d, gv.assign_attrs(_FillValue=numpy.float64(-999.0))),
            'attribute removed': lambda d: put(d, gv.assign_attrs({k: v for k, v in list(gv.attrs.items())[1:]}).pipe(lambda a: _drop_first_attr(a, gv))),
        }
        for name, fn in gedits.items():
            try:
                d2 = fn(ds.copy(deep=True))
                k2 = key_of(d2)
            except Exception as e:
                notes.append(f'{conv}:{name}: edit not applicable ({type(e).__name__})')
                continue
            if k2 == k0:
                V(f'real:{conv}:{name}', 'a single edit of a geometry variable changes the cache key', name)
        notes.append(conv)
    # the key is a function of the values, not of the memory layout of the arrays that hold them
    for conv in ('cf2d', 'shoc_standard'):
        ds = _dataset(conv)
        k0 = key_of(ds)
        g = [n for n in ds.copy().ems.get_all_geometry_names() if ds[n].ndim == 2][0]
        alt = ds.copy(deep=True)
        f = numpy.asfortranarray(ds[g].values)
        alt[g] = (ds[g].dims, f, dict(ds[g].attrs))
        if g in ds.coords:
            alt = alt.set_coords(g)
        if not (alt[g].values.flags.f_contiguous and alt.identical(ds)):
            notes.append(f'{conv}: could not build a Fortran-ordered twin')
        elif key_of(alt) != k0:
            V(f'real:{conv}:memory-layout', 'identical geometry values give the same key whatever the memory layout of the arrays', g)
    # ... nor of how a lazily loaded dataset happens to be split into chunks
    for conv in ('cf2d', 'shoc_standard', 'ugrid', 'cf1d'):
        ds = _dataset(conv)
        k0 = key_of(ds)
        for dim in list(ds.dims):
            try:
                chunked = ds.chunk({dim: 1})
            except Exception as e:
                notes.append(f'{conv}: chunking not available ({type(e).__name__})')
                break
            if key_of(chunked) != k0:
                V(f'real:{conv}:chunked-along-{dim}', 'identical geometry values give the same key however the arrays are chunked', dim)
        else:
            chunked = ds.chunk({d: 1 for d in ds.dims})
            if key_of(chunked) != k0:
                V(f'real:{conv}:chunked-everywhere', 'identical geometry values give the same key however the arrays are chunked', 'all dimensions')
    # attribute values that are arrays (valid_range, flag_values): every element counts, to the last bit
    for conv in ('cf1d', 'ugrid'):
        ds = _dataset(conv)
        g = list(ds.copy().ems.get_all_geometry_names())[0] if conv != 'ugrid' else 'node_x'
        long = numpy.arange(1500, dtype='float64')
        long2 = long.copy()
        long2[750] += 1.0
        pairs = {'a float element changed in the tenth digit': ('valid_range', numpy.array([-180.0, 180.0]), numpy.array([-180.0, 180.000000001])),
                 'an element in the middle of a long array': ('flag_values', long, long2),
                 'an integer element': ('flag_values', numpy.array([1, 2, 4], dtype='int16'), numpy.array([1, 2, 8], dtype='int16')),
                 'the type of the array': ('valid_range', numpy.array([0, 360], dtype='int32'), numpy.array([0, 360], dtype='int64'))}
        for name, (attr, v1, v2) in pairs.items():
            d1, d2 = ds.copy(deep=True), ds.copy(deep=True)
            d1[g].attrs[attr] = v1
            d2[g].attrs[attr] = v2
            try:
                k1, k1b, k2 = key_of(d1), key_of(d1.copy(deep=True)), key_of(d2)
            except Exception as e:
                V(f'real:{conv}:array-attribute', 'a geometry variable with an array-valued attribute can be keyed', f'{name}: {type(e).__name__}: {e}')
                continue
            if k1 != k1b:
                notes.append(f'{conv}: array attribute keys differ between equal copies ({name})')
            elif k1 == k2:
                V(f'real:{conv}:array-attribute:{name}', 'a single edit of a geometry variable changes the cache key', f'{attr}: {name}')
    # geometry arrays in the other byte order: keyed like any other array - again and again, and left as they were
    for conv in ('cf2d', 'ugrid'):
        ds = _dataset(conv)
        g = [n for n in ds.copy().ems.get_all_geometry_names() if ds[n].dtype == numpy.dtype('float64')][0]
        swapped = ds.copy(deep=True)
        other = '>f8' if numpy.dtype('float64').byteorder in '=<' and sys.byteorder == 'little' else '<f8'
        swapped[g] = ds[g].copy(data=ds[g].values.astype(other))
        if g in ds.coords:
            swapped = swapped.set_coords(g)
        before = numpy.array(swapped[g].values, dtype='float64')
        ka = make_cache_key_direct(swapped)
        kb = make_cache_key_direct(swapped)
        after = numpy.array(swapped[g].values, dtype='float64')
        if ka != kb:
            V(f'real:{conv}:other-byte-order', 'keying the same dataset twice gives the same key', f'{g} stored as {other}')
        if not numpy.array_equal(before, after, equal_nan=True):
            V(f'real:{conv}:other-byte-order', 'identical geometry values give the same key (the values are still what they were after keying)', f'{g} stored as {other}')
        rebuilt = ds.copy(deep=True)
        rebuilt[g] = ds[g].copy(data=ds[g].values.astype(other))
        if g in ds.coords:
            rebuilt = rebuilt.set_coords(g)
        if make_cache_key_direct(rebuilt) != ka:
            V(f'real:{conv}:other-byte-order', 'identical datasets get the same key whichever was keyed first', f'{g} stored as {other}')
    # using the dataset does not change its key: polygons derived from centres with a one-cell-wide channel (a cell
    # whose two neighbours along an axis are missing), key taken before and after the geometry has been worked out
    for conv in ('cf2d', 'shoc_simple'):
        jj, ii = numpy.meshgrid(numpy.arange(3.0), numpy.arange(4.0), indexing='ij')
        lat, lon = 10.0 + jj + 0.25 * ii, 100.0 + 2.0 * ii - 0.5 * jj
        for (j, i) in ((1, 0), (1, 2), (1, 3)):
            lat[j, i] = numpy.nan
            lon[j, i] = numpy.nan
        river = (builders.cf2d if conv == 'cf2d' else builders.shoc_simple)(3, 4, lat=lat, lon=lon)
        twin = river.copy(deep=True)
        k_before = make_cache_key_direct(river)
        river.ems.polygons, river.ems.bounds, river.ems.strtree
        if make_cache_key_direct(river) != k_before or make_cache_key_direct(twin) != k_before or not river.identical(twin):
            V(f'real:{conv}:key-after-use', 'identical geometry values give the same key before and after the polygons have been worked out', 'derived bounds, one-cell-wide channel')
    # every record of a geometry variable counts, whatever the dataset-level encoding says about its dimensions
    rec = _dataset('cf1d')
    rec = rec.assign(lat_bnds=(('t', 'y', 'Two'), numpy.stack([rec['lat_bnds'].values, rec['lat_bnds'].values + 0.0])))
    rec.encoding['unlimited_dims'] = {'t'}
    if 'lat_bnds' in set(rec.copy().ems.get_all_geometry_names()):
        edited = rec.copy(deep=True)
        edited['lat_bnds'].values[1, 0, 0] += 0.125
        edited.encoding['unlimited_dims'] = {'t'}
        if make_cache_key_direct(edited) == make_cache_key_direct(rec):
            V('real:cf1d:record-dimension', 'a single edit of a geometry variable changes the cache key', 'lat_bnds(t, y, Two) edited in its second record, t unlimited')
        plain = rec.copy(deep=True)
        plain.encoding.pop('unlimited_dims', None)
        if make_cache_key_direct(plain) != make_cache_key_direct(rec):
            V('real:cf1d:record-dimension', 'editing non-geometry content does not change the cache key', 'dataset encoding unlimited_dims')
    else:
        notes.append('cf1d: bounds with a record dimension are not geometry here')
    # a mesh that was refused (an index base the conventions do not know) and then corrected in place is keyed like a
    # fresh copy of the corrected mesh - every table counts
    try:
        from emsarray.exceptions import ConventionViolationError
    except Exception:
        ConventionViolationError = Exception
    broken = builders.ugrid('tqp', supply=('edge_node', 'face_edge'), fill='nan', start_index=1)
    broken['face_edge'].attrs['start_index'] = 2
    try:
        make_cache_key_direct(broken)
        refused = False
    except Exception:
        refused = True
    broken['face_edge'].attrs['start_index'] = 1
    fresh = builders.ugrid('tqp', supply=('edge_node', 'face_edge'), fill='nan', start_index=1)
    try:
        k_fixed, k_fresh = make_cache_key_direct(broken), key_of(fresh)
        if k_fixed != k_fresh:
            V('real:ugrid:corrected-in-place', 'identical geometry values give the same key (a dataset refused earlier and corrected in place)', f'refused first: {refused}')
        edited = broken.copy(deep=True)
        edited['face_edge'].values[0, 0] = edited['face_edge'].values[0, 1]
        if make_cache_key_direct(broken) == key_of(edited) and refused:
            V('real:ugrid:corrected-in-place', 'a single edit of a geometry variable changes the cache key', 'face_edge edited after the mesh was refused once and corrected')
        broken['face_edge'].values[0, 0] = broken['face_edge'].values[0, 1]
        if make_cache_key_direct(broken) == k_fixed:
            V('real:ugrid:corrected-in-place', 'a single edit of a geometry variable changes the cache key', 'face_edge edited in place on the corrected mesh')
    except Exception as e:
        V('real:ugrid:corrected-in-place', 'a corrected mesh can be keyed', f'{type(e).__name__}: {e}')
    # names are compared exactly: two spellings of the same text (precomposed / decomposed characters) are two names
    import unicodedata
    for conv in ('cf1d', 'ugrid'):
        ds = _dataset(conv)
        g = list(ds.copy().ems.get_all_geometry_names())[0] if conv != 'ugrid' else 'node_x'
        a_name, b_name = 'szeroko\u015b\u0107_' + str(g), unicodedata.normalize('NFD', 'szeroko\u015b\u0107_' + str(g))
        try:
            da, db = ds.rename({g: a_name}), ds.rename({g: b_name})
            for d, nm in ((da, a_name), (db, b_name)):
                for v in d.variables.values():
                    for k_, val in list(v.attrs.items()):
                        if isinstance(val, str) and str(g) in val.split():
                            v.attrs[k_] = ' '.join(nm if w == str(g) else w for w in val.split())
            ka, kb = key_of(da), key_of(db)
            if a_name != b_name and ka == kb:
                V(f'real:{conv}:equivalent-spellings', 'a change of the name of a geometry variable changes the cache key', 'precomposed vs decomposed spelling')
        except Exception as e:
            notes.append(f'{conv}: unicode names not applicable ({type(e).__name__}: {str(e)[:80]})')
    # long names: every character counts (names of 300 and 1,000 characters that differ in their last one)
    for conv in ('cf1d', 'ugrid'):
        ds = _dataset(conv)
        g = list(ds.copy().ems.get_all_geometry_names())[0] if conv != 'ugrid' else 'node_x'
        for length in (257, 300, 1000):
            stem = (str(g) + '_' + 'x' * length)[:length - 1]
            try:
                pair = []
                for last in ('a', 'b'):
                    d = ds.rename({g: stem + last})
                    for v in d.variables.values():
                        for k_, val in list(v.attrs.items()):
                            if isinstance(val, str) and str(g) in val.split():
                                v.attrs[k_] = ' '.join(stem + last if w == str(g) else w for w in val.split())
                    pair.append(key_of(d))
                if pair[0] == pair[1]:
                    V(f'real:{conv}:long-names', 'a change of the name of a geometry variable changes the cache key', f'names of {length} characters that differ in the last one')
            except Exception as e:
                notes.append(f'{conv}: long names not applicable ({type(e).__name__}: {str(e)[:80]})')
    # a declared edge dimension that only the face-edge table uses, fill values of every size: the table is geometry
    for mesh, fills in (('qqq', (9, 10, 11, 12, 99)), ('grid4', (41, 60, 63, 64, 99, 999))):
        for fv in fills:
            try:
                dm = builders.ugrid(mesh, supply=('face_edge',), fill='nan', fill_value=fv, with_edges=True, edge_marker=False)
                names_m = set(dm.copy().ems.get_all_geometry_names())
                ne = len(builders.mesh_edges(builders.MESHES[mesh][1])[0])
                if fv > ne and 'face_edge' not in names_m:
                    V('real:ugrid:face-edge-fill', 'every supplied connectivity table is a geometry variable', f'{mesh}: {ne} edges, fill value {fv}')
                    continue
                if 'face_edge' in names_m:
                    ed = dm.copy(deep=True)
                    ed['face_edge'].attrs['comment'] = 'edited'
                    if key_of(ed) == key_of(dm):
                        V('real:ugrid:face-edge-fill', 'a single edit of a geometry variable changes the cache key', f'{mesh}: fill value {fv}')
            except Exception as e:
                notes.append(f'ugrid {mesh} fill {fv}: not applicable ({type(e).__name__}: {str(e)[:60]})')
    # a mesh whose tables are stored (nodes per face, faces): every optional table is still part of the key
    tmesh = builders.ugrid('tqp', supply=('edge_node', 'face_edge', 'face_face'), fill='nan', transposed=True)
    names_t = set(tmesh.copy().ems.get_all_geometry_names())
    if not {'face_edge', 'face_face', 'edge_node'} <= names_t:
        V('real:ugrid:transposed-tables', 'every supplied connectivity table is a geometry variable', f'{sorted(map(str, names_t))}')
    for tbl in ('face_edge', 'face_face', 'edge_node'):
        ed = tmesh.copy(deep=True)
        ed[tbl].attrs['comment'] = 'edited'
        if key_of(ed) == key_of(tmesh):
            V('real:ugrid:transposed-tables', 'a single edit of a geometry variable changes the cache key', f'{tbl} attribute edited on a mesh stored transposed')
    # face / edge coordinates named with other white space between the two names (two blanks, a tab, a line break)
    for sep in (' ', '  ', '\t', '\n', ' \t '):
        try:
            fm = builders.ugrid('tqp', supply=('edge_node',), fill='nan')
            mesh_name = next(n for n, v in fm.variables.items() if v.attrs.get('cf_role') == 'mesh_topology')
            fdim = fm[fm[mesh_name].attrs['face_node_connectivity']].dims[0]
            nfm = fm.sizes[fdim]
            fm['face_x'] = ((fdim,), numpy.arange(nfm, dtype=float) + 0.5)
            fm['face_y'] = ((fdim,), numpy.arange(nfm, dtype=float) * 2.0 + 0.25)
            fm[mesh_name].attrs['face_coordinates'] = 'face_x' + sep + 'face_y'
            names_f = set(fm.copy().ems.get_all_geometry_names())
            if not {'face_x', 'face_y'} <= names_f:
                V('real:ugrid:face-coordinates', 'the face coordinates named by the mesh are geometry variables', f'separator {sep!r}: {sorted(map(str, names_f))}')
                continue
            for which in ('face_x', 'face_y'):
                ed = fm.copy(deep=True)
                vals_ = ed[which].values.copy()
                vals_[-1] += 1.0
                ed[which] = (ed[which].dims, vals_, dict(ed[which].attrs))
                if key_of(ed) == key_of(fm):
                    V('real:ugrid:face-coordinates', 'a single edit of a geometry variable changes the cache key', f'one value of {which}, separator {sep!r}')
        except Exception as e:
            notes.append(f'ugrid face coordinates sep {sep!r}: not applicable ({type(e).__name__}: {str(e)[:60]})')
    # an empty selection along one axis: the (empty) geometry variables still have names, types, shapes and attributes
    for conv in ('cf1d',):
        try:
            full = _dataset(conv)
            gnames = [str(g) for g in full.copy().ems.get_all_geometry_names()]
            for g in gnames:
                if full[g].ndim < 1:
                    continue
                empty = full.isel({full[g].dims[0]: slice(0, 0)})
                base_key = key_of(empty)
                for label, edit in (('attribute added', lambda d, g=g: d[g].attrs.__setitem__('comment', 'edited')),
                                    ('type changed', lambda d, g=g: d.__setitem__(g, (d[g].dims, d[g].values.astype('float32' if d[g].dtype != numpy.dtype('float32') else 'float64'), dict(d[g].attrs))))):
                    ed = empty.copy(deep=True)
                    edit(ed)
                    if key_of(ed) == base_key:
                        V(f'real:{conv}:empty-selection', 'a single edit of a geometry variable changes the cache key', f'{g} (length 0): {label}')
        except Exception as e:
            notes.append(f'{conv}: empty selection not applicable ({type(e).__name__}: {str(e)[:80]})')
    # the key of a SHOC dataset does not depend on what other datasets were opened with earlier in the process
    from emsarray.conventions.arakawa_c import ArakawaCGridKind as K
    from emsarray.conventions.shoc import ShocStandard
    plain = _dataset('shoc_standard')
    k_before = key_of(plain)
    try:
        oc = ShocStandard(builders.shoc_standard(3, 2), coordinate_names={K.left: ('y_back', 'x_back'), K.back: ('y_left', 'x_left'),
                                                                       K.face: ('y_centre', 'x_centre'), K.node: ('y_grid', 'x_grid')})
        oc.get_all_geometry_names()
    except Exception as e:
        notes.append(f'shoc_standard: custom coordinate names not applicable ({type(e).__name__})')
    if key_of(_dataset('shoc_standard')) != k_before:
        V('real:shoc_standard:after-custom-names', 'identical geometry values give the same key whatever was opened before', 'ShocStandard(other, coordinate_names=...) earlier')
    edited = _dataset('shoc_standard')
    edited['y_left'].values.reshape(-1)[0] += 0.125
    if key_of(edited) == k_before:
        V('real:shoc_standard:after-custom-names', 'a single edit of a geometry variable changes the cache key', 'y_left edited after another dataset was opened with custom names')
    # a dataset derived from one that has been hashed before is keyed by what it holds
    for conv in ('cf1d', 'cf2d', 'ugrid'):
        ds = _dataset(conv)
        g = list(ds.copy().ems.get_all_geometry_names())[0] if conv != 'ugrid' else 'node_x'
        k0 = make_cache_key_direct(ds)
        derived = ds.copy()
        old = ds[g]
        if old.dtype == numpy.dtype('float64'):
            derived[g] = old.copy(data=old.values.view('int64'))     # same bytes, same shape, same attributes: another type
            if g in ds.coords:
                derived = derived.set_coords(g)
            if make_cache_key_direct(derived) == k0:
                V(f'real:{conv}:derived-after-hashing', 'a single edit of a geometry variable changes the cache key',
                  f'{g} reinterpreted as int64 in a dataset derived from one that was hashed before')
    # content that is neither geometry nor a data variable: coordinates left behind by a selection, auxiliary coordinates
    for conv in ('cf1d', 'ugrid'):
        base = _dataset(conv)
        base = base.assign_coords(time=(('t',), numpy.array(['2020-01-01', '2020-01-02'], dtype='datetime64[ns]')),
                                  run=((), 7))
        k0 = key_of(base.isel(t=slice(0, 1)))
        for name, d in (('first time step selected (scalar time coordinate)', base.isel(t=0)),
                        ('second time step selected (scalar time coordinate)', base.isel(t=1)),
                        ('another scalar coordinate value', base.isel(t=0).assign_coords(run=((), 8))),
                        ('auxiliary coordinate on the time dimension', base.assign_coords(label=(('t',), numpy.array([3.0, 4.0]))))):
            if key_of(d) != k0:
                V(f'real:{conv}:{name}', 'editing non-geometry content does not change the cache key', name)
    # the convention is part of the key: the class the dataset is bound to, not the one detection would pick
    from emsarray.conventions.grid import CFGrid1D, CFGrid2D
    from emsarray.conventions.shoc import ShocSimple
    from emsarray.operations.cache import make_cache_key

    class Flavour(CFGrid1D):
        pass
    a, b = _dataset('cf1d').copy(), _dataset('cf1d').copy()
    CFGrid1D(a).bind()
    Flavour(b).bind()
    if make_cache_key(a) == make_cache_key(b):
        V('real:cf1d:bound-subclass', 'a dataset bound to another convention class gets a different key', 'CFGrid1D vs a subclass bound by hand')
    a, b = builders.shoc_simple(2, 2), builders.shoc_simple(2, 2)
    ShocSimple(a).bind()
    CFGrid2D(b).bind()
    if make_cache_key(a) == make_cache_key(b):
        V('real:shoc_simple:bound-cf2d', 'a dataset bound to another convention class gets a different key', 'ShocSimple vs CFGrid2D on the same file')
    # which variables are geometry does not depend on unrelated content: the size-two dimension of the edge tables has
    # another name here, and an unrelated variable brings in a dimension called Two
    mesh = builders.ugrid('tqp', supply=('edge_node', 'edge_face'), fill='nan').rename_dims({'Two': 'nv'})
    k0 = key_of(mesh)
    extra = mesh.assign(time_bnds=(('t', 'Two'), numpy.zeros((3, 2))))
    if key_of(extra) != k0:
        V('real:ugrid:unrelated-Two-dimension', 'editing non-geometry content does not change the cache key', 'a variable time_bnds(t, Two) added')
    edited = extra.copy(deep=True)
    edited['edge_node'].values[0, 0] += 1
    if key_of(edited) == key_of(extra):
        V('real:ugrid:unrelated-Two-dimension', 'a single edit of a geometry variable changes the cache key', 'edge_node edited while an unrelated Two dimension exists')
    # bounds held as xarray coordinates are geometry all the same
    builders.BOUNDS_AS_COORDS = True
    try:
        for conv in ('cf1d', 'cf2d'):
            d0 = _dataset(conv)
            b = [n for n in d0.coords if str(n).endswith('_bnds')][0]
            d1 = d0.copy(deep=True)
            d1[b].values.reshape(-1)[0] += 0.125
            if key_of(d1) == key_of(d0):
                V(f'real:{conv}:bounds-as-coordinates', 'a single edit of a geometry variable changes the cache key', f'{b} (a coordinate) edited')
    finally:
        builders.BOUNDS_AS_COORDS = False
    # connectivity variables: index tables and their fill / start_index attributes are geometry too
    for supply, extra in ((('edge_node', 'face_edge'), dict()), (('face_edge',), dict(edge_dimension_attr=False, with_edges=False)),
                          (('edge_node', 'edge_face', 'face_face'), dict())):
        try:
            ds = builders.ugrid('tqp', supply=supply, fill='attr', start_index=1, **extra)
            names = list(ds.copy().ems.get_all_geometry_names())
        except Exception as e:
            notes.append(f'ugrid {supply}: not applicable ({type(e).__name__})')
            continue
        k0 = key_of(ds)
        for g in ('face_node',) + tuple(supply):
            if g not in names:
                continue          # the library does not count it as geometry for this mesh: nothing to claim
            gv = ds[g]
            vals = gv.values.copy()
            vals.reshape(-1)[0] = vals.reshape(-1)[0] + 1 if int(vals.reshape(-1)[0]) + 1 != int(gv.attrs['_FillValue']) else vals.reshape(-1)[0] + 2
            for name, da in (('one index', gv.copy(data=vals)), ('fill value attribute', gv.assign_attrs(_FillValue=numpy.int32(-1))),
                             ('start_index attribute', gv.assign_attrs(start_index=0)), ('dtype', gv.astype('int64'))):
                if key_of(ds.assign({g: da})) == k0:
                    V(f'real:ugrid:{"+".join(supply)}:{g}:{name}', 'a single edit of a geometry variable changes the cache key', f'{g}: {name}')
        # whether a connectivity variable the mesh names counts as geometry must not depend on unrelated attributes
        for g in supply:
            if g not in names:
                V(f'real:ugrid:{"+".join(supply)}:{g}', 'every connectivity variable named by the mesh is part of the geometry', f'{g} missing from {names}')
    # every value of a geometry variable takes part, however long the variable is
    for conv, g in (('cf1d-wide', 'lon'), ('cf1d-wide', 'lon_bnds'), ('cf2d-wide', 'lat'), ('cf2d-wide', 'lon')):
        ds = _dataset(conv)
        k0 = key_of(ds)
        size = ds[g].size
        for pos in (0, size // 3, size // 2, size - 2, size - 1) + ((size - 4097, 8192, 8193) if tier != 'quick' else ()):
            d2 = ds.copy(deep=True)
            flat = d2[g].values.reshape(-1)
            flat[pos] += 0.125
            if not numpy.shares_memory(flat, d2[g].values):
                notes.append(f'{conv}:{g}: reshape copied')
                continue
            if key_of(d2) == k0:
                V(f'real:{conv}:{g}[{pos} of {size}]', 'a single edit of a geometry variable changes the cache key',
                  f'value {pos} of {size} of {g} (array of {ds[g].values.nbytes} bytes)')
    # histories on ONE dataset object: key, edit a geometry variable in place, key again
    from emsarray.operations.cache import make_cache_key
    for conv in ('cf1d', 'ugrid'):
        ds = _dataset(conv).copy(deep=True)
        g = 'lon' if conv == 'cf1d' else 'node_x'
        k1 = make_cache_key(ds)
        k1b = make_cache_key(ds)
        if k1 != k1b:
            V(f'real:{conv}:history', 'the key of an unchanged dataset is stable', 'two calls differ')
        ds[g].values[0] += 0.5
        k2 = make_cache_key(ds)
        fresh = _dataset(conv).copy(deep=True)
        fresh[g].values[0] += 0.5
        if k2 == k1:
            V(f'real:{conv}:history', 'a single edit of a geometry variable changes the cache key', f'in-place edit of {g} after a first call')
        if k2 != make_cache_key(fresh):
            V(f'real:{conv}:history', 'datasets with the same geometry get the same key whatever was computed before', f'{g}')
        ds[g].attrs['note'] = 'edited'
        if make_cache_key(ds) == k2:
            V(f'real:{conv}:history', 'a single edit of a geometry variable changes the cache key', f'in-place attribute edit of {g} after earlier calls')
    # other interpreter, other hash seed
    repo_src = os.path.join(os.environ.get('SYMX_DEV_REPO', '/repo'), 'src')
    code = ("import sys; sys.path.insert(0, %r); sys.path.insert(0, %r); "
            "from harness import c16; import json; "
            "print(json.dumps({c: c16.key_of(c16._dataset(c)) for c in ('cf1d','cf2d','shoc_standard','ugrid')}))" % (repo_src, VERIF))
    outs = []
    for seed in ('1', '12345', '2', '3', '77', '4242') if tier != 'quick' else ('1', '12345', '2', '3'):
        envv = dict(os.environ, PYTHONHASHSEED=seed)
        p = subprocess.run([sys.executable, '-W', 'ignore', '-c', "import sys; sys.path.append(%r + '/.deps'); " % VERIF + code],
                           capture_output=True, text=True, env=envv, timeout=300)
        if p.returncode != 0:
            notes.append('subprocess failed: ' + p.stderr[-300:])
            continue
        outs.append(json.loads(p.stdout.strip().splitlines()[-1]))
    here = {c: key_of(_dataset(c)) for c in ('cf1d', 'cf2d', 'shoc_standard', 'ugrid')}
    for o in outs:
        if o != here:
            V('real:hashseed', 'the key is the same in a fresh interpreter with another hash seed', f'{o} != {here}')
    return viol, notes


def _drop_first_attr(a, gv):
    k = list(gv.attrs)[0]
    a.attrs.pop(k, None)
    for kk, vv in list(gv.attrs.items())[1:]:
        a.attrs[kk] = vv
    return a


def _concrete_determinism(ctx):
    """Two datasets with equal geometry (names, types, shapes, values, attributes) must get the same key -
    including when the attribute values are built from differently shared string objects."""
    ds = _dataset('cf1d')
    shared = ''.join(['lat', 'itude'])
    a = ds.copy(deep=True)
    a['lat'].attrs.update(long_name=shared, comment=shared)
    b = ds.copy(deep=True)
    b['lat'].attrs.update(long_name=''.join(['lat', 'itude']), comment=''.join(['latit', 'ude']))
    ctx.check(a['lat'].attrs == b['lat'].attrs and a.identical(b), 'the two datasets are identical')
    ctx.check(key_of(a) == key_of(b),
              'the same geometry variable (equal names, types, shapes, values, attributes) gives the same stream')


def cases(tier):
    q = tier == 'quick'
    for field in ('name', 'dtype', 'data', 'shape', 'attrs'):
        for rank, itemsize, nvars in ([(1, 2, 1), (2, 1, 1)] if q else [(0, 1, 1), (1, 4, 1), (2, 1, 1), (1, 1, 2), (2, 2, 1)]):
            yield Case(f'edit:{field}:rank{rank}:item{itemsize}:vars{nvars}', body_edit,
                       dict(field=field, rank=rank, itemsize=itemsize, nvars=nvars), patches=_patches, validate=False,
                       max_paths=200000, split=32)
    for rank, itemsize in ([(1, 4)] if q else [(1, 4), (2, 8)]):
        yield Case(f'determinism:rank{rank}:item{itemsize}', body_determinism, dict(rank=rank, itemsize=itemsize),
                   patches=_patches, max_paths=20000, split=16)
        yield Case(f'convention:rank{rank}:item{itemsize}', body_convention, dict(rank=rank, itemsize=itemsize),
                   patches=_patches, validate=False, max_paths=20000, split=16)


def functions():
    from emsarray.operations import cache
    from emsarray.conventions import _base, grid, arakawa_c, ugrid
    return [cache.make_cache_key, cache.hash_attributes, cache.hash_string, cache.hash_int, _base.Convention.hash_geometry,
            grid.CFGrid.get_all_geometry_names, arakawa_c.ArakawaC.get_all_geometry_names, ugrid.UGrid.get_all_geometry_names]


def run(tier, seed=0, replay=None, procs=None, only=None):
    if replay:
        return replay_file(replay, list(cases('thorough')) + list(cases('quick')))
    cs = list(cases(tier))
    if only:
        cs = [c for c in cs if re.search(only, c.name)]
    def late():
        rv, notes = real_dataset_checks(tier)
        return rv, [], dict(real_dataset_notes=notes)
    return main_run(
        PROP, tier, cs, functions=functions(), seed=seed, procs=procs, late_checks=late,
        bounds=dict(
            stream='1-2 geometry variables, names 1-2 bytes (edited: 0-2), dtype names 1-2 bytes, rank 0-2, dimensions 1-2, itemsize in '
                   '{1,2,4}, 0-1 attributes, marshalled attributes 1-2 bytes; every length enumerated by forking, every byte a z3 BitVec(8)',
            real='one dataset per convention: 6 non-geometry edits, 5 single geometry edits, 2 fresh interpreters with other hash seeds',
            outside='collision resistance of blake2b; non-ASCII names (length prefix counts code points); general injectivity '
                    'across different numbers of variables'),
        stubs=['hash argument -> recorder (the functions take it as a parameter)',
               'geometry variable stand-ins: name / dtype name with symbolic characters (str.encode -> the bytes, ASCII), '
               'to_numpy().tobytes() -> size*itemsize symbolic bytes; numpy.int32 / numpy.array(...).tobytes() run for real',
               'marshal.dumps(attrs, 4) -> symbolic bytes determined by the attribute VALUE and by an unconstrained sharing context '
               '(CPython back-references depend on object identity), injective in the value'],
        assumptions=['blake2b is collision resistant', 'marshal.dumps is injective in the dictionary value'],
    )
