"""C15 - geometry export round-trips every cell with its indexes.

Symbolic: all coordinates and the hole pattern (NaN flags).  The real exporters
run on the symbolic polygon array; the serializers (json.dump, geojson.Feature,
shapefile.Writer, shapely.MultiPolygon / to_wkt / to_wkb) are recorders, so the
postcondition is about what is handed to each serializer.  In replay the real
files are written and read back in all four formats.
"""
import json
import os
import re
import shutil
import tempfile

import numpy
import shapely

from symx import env, geo
from symx.core import And, Iff, Not, Or, same
from symx.runner import Case, VERIF, main_run, replay_file
from harness import pipeline

PROP = 'C15'


class RecFeature(dict):
    def __init__(self, geometry=None, properties=None, **kw):
        super().__init__(type='Feature', geometry=geometry, properties=properties or {})


class RecFeatureCollection(dict):
    def __init__(self, features, **kw):
        super().__init__(type='FeatureCollection', features=features)


class RecWriter:
    """shapefile.Writer contract: fields are declared once; each record() is paired with the next shape();
    field names are limited to 10 characters and keyword values are matched on the (truncated) field name."""
    last = None

    def __init__(self, target=None, **kw):
        self.fields, self.records, self.shapes = [], [], []
        # pyshp names the .shp / .shx / .dbf files after the target with its last extension removed
        self.base = None if target is None else os.path.splitext(str(target))[0]
        RecWriter.last = self

    def __enter__(self):
        return self

    def __exit__(self, *a):
        return False

    def field(self, name, field_type='C', size=50, decimal=0):
        self.fields.append(str(name)[:10])
        self.specs = getattr(self, 'specs', []) + [(str(field_type), int(size))]

    def record(self, *values, **named):
        if named:
            rec = [named.get(f) for f in self.fields]
        else:
            rec = list(values) + [None] * (len(self.fields) - len(values))
        # character values longer than the field are cut (pyshp only warns); numbers that do not fit are lost
        out = []
        for v, (ft, size) in zip(rec, self.specs):
            if v is not None and ft == 'C':
                v = str(v)[:size]
            elif v is not None and ft == 'N' and len(str(v)) > size:
                v = None
            out.append(v)
        self.records.append(dict(zip(self.fields, out)))

    def shape(self, geo_interface):
        self.shapes.append(geo_interface)


def _geo_interface(self):
    return {'type': 'Polygon', 'coordinates': [list(self.coords) + [self.coords[0]]]}


geo.SymPoly.__geo_interface__ = property(_geo_interface)


class Recorded:
    dumped = None
    multi = []


def _patches(valid='all'):
    base = pipeline.patches(valid)

    def make():
        import emsarray.operations.geometry as G
        import contextlib

        def dump(obj, f, **kw):
            feats = [f for f in iter(obj['features'])]          # drains the streaming iterator exactly once
            Recorded.dumped = feats
            f.write('{}')

        def multipolygon(polys):
            Recorded.multi = list(polys)
            return ('MULTI', Recorded.multi)

        @contextlib.contextmanager
        def both():
            with base(), env.patched(
                (G, 'json', env.Proxy(json, dict(dump=dump))),
                (G, 'geojson', env.Proxy(G.geojson, dict(Feature=RecFeature, FeatureCollection=RecFeatureCollection))),
                (G, 'shapefile', env.Proxy(G.shapefile, dict(Writer=RecWriter))),
                (G, 'shapely', env.Proxy(shapely, dict(MultiPolygon=multipolygon, to_wkt=lambda g, **k: 'WKT', to_wkb=lambda g, **k: b'WKB'))),
            ):
                yield
        return both()
    return make


def body(ctx, conv, shape, bounds, nan_cells=None, mesh_opts=None, history=False, data_first=False, twin=False):
    from emsarray.operations import geometry as G
    from emsarray.state import State
    data = None
    if data_first:
        # a data variable stored (x, y), listed before the geometry variables
        probe = {'cf1d': ('y', 'x'), 'cf2d': ('y', 'x'), 'shoc_simple': ('j', 'i')}[conv]
        data = {'temp': (probe[::-1], numpy.zeros(shape[::-1]))}
        pipeline.builders.DATA_FIRST = True
    try:
        P = pipeline.build(ctx, conv, shape, bounds=bounds, nan_cells=nan_cells, mesh_opts=mesh_opts, data=data)
    finally:
        pipeline.builders.DATA_FIRST = False
    cv, ds = P.convention, P.ds
    if not State.get(ds).is_bound():
        cv.bind()
    polygons = cv.polygons
    N = P.ncells
    present = [n for n in range(N) if polygons[n] is not None]
    ctx.note('config', dict(conv=conv, shape=str(shape), present=present))
    if not ctx.symbolic:
        # (replay, concrete coordinates) the independent reference geometry as well
        from harness import geomref
        geomref.check(ctx, ds, cv, kind=conv)
    # what is exported is compared with the library's polygons below; those are first compared with the cells the
    # dataset describes (reference corners and native indexes written from the convention documents)
    for n in present:
        ctx.check(pipeline.ring_matches(geo.poly_coords(polygons[n]), P.corners(n)), "polygon n is built from cell n's own coordinates")
        ctx.check(tuple(cv.wind_index(n)) == tuple(P.native(n)), 'native index n is the row-major native index of cell n')
    if twin:
        # the geometry has been worked out on one Dataset object; what is exported is a second object that shares its
        # arrays (a shallow copy, a selection of variables): same content, same cells
        ds = ds.copy()
    os.makedirs(os.path.join(VERIF, '.work'), exist_ok=True)
    work = tempfile.mkdtemp(dir=os.path.join(VERIF, '.work'), prefix='c15-')
    try:
        if history:
            # an export depends on the dataset, not on what was exported before: another dataset that carries the
            # same source path (a file replaced on disk, a subset of the same file) is exported first, in every format
            from symx import builders
            ds.encoding['source'] = '/data/model/run1.nc'
            earlier = builders.cf1d(3, 2)
            earlier.encoding['source'] = ds.encoding['source']
            for fn, name in ((G.write_geojson, 'e.geojson'), (G.write_shapefile, 'e.shp'), (G.write_wkt, 'e.wkt'), (G.write_wkb, 'e.wkb')):
                fn(earlier, os.path.join(work, name))
        # GeoJSON
        G.write_geojson(ds, os.path.join(work, 'g.geojson'))
        if ctx.symbolic:
            feats = Recorded.dumped
            rows = [(f['properties'].get('linear_index'), f['properties'].get('index'), geo.poly_coords(f['geometry'])) for f in feats]
        else:
            data = json.load(open(os.path.join(work, 'g.geojson')))
            rows = [(f['properties'].get('linear_index'), f['properties'].get('index'), [tuple(c) for c in f['geometry']['coordinates'][0][:-1]])
                    for f in data['features']]
        check_rows(ctx, P, cv, rows, present, polygons, 'GeoJSON', jsonish=not ctx.symbolic)
        # Shapefile
        G.write_shapefile(ds, os.path.join(work, 's.shp'))
        if ctx.symbolic:
            w = RecWriter.last
            ctx.check(len(w.records) == len(w.shapes), 'Shapefile: one shape per record')
            rows = [(r.get('linear_ind'), json.loads(r['index']) if r.get('index') is not None else None, [tuple(c) for c in s['coordinates'][0][:-1]])
                    for r, s in zip(w.records, w.shapes)]
            names = [r.get('name') for r in w.records]
        else:
            import shapefile
            rd = shapefile.Reader(os.path.join(work, 's.shp'))
            fields = [f[0] for f in rd.fields[1:]]
            recs = [dict(zip(fields, list(r))) for r in rd.records()]
            rows = [(r.get('linear_ind'), json.loads(r['index']) if r.get('index') else None, [tuple(c) for c in s.points[:-1]])
                    for r, s in zip(recs, rd.shapes())]
            names = [r.get('name') for r in recs]
            rd.close()
        check_rows(ctx, P, cv, rows, present, polygons, 'Shapefile', jsonish=True, ring_any_direction=True)
        ctx.check(names == [f'polygon{n}' for n in present], 'Shapefile: name field identifies the cell')
        # WKT / WKB
        for fmt, fn, path, mode in (('WKT', G.write_wkt, 'g.wkt', 'r'), ('WKB', G.write_wkb, 'g.wkb', 'rb')):
            fn(ds, os.path.join(work, path))
            if ctx.symbolic:
                parts = Recorded.multi
                if twin:
                    ctx.check(len(parts) == len(present) and And(*[pipeline.ring_matches(geo.poly_coords(a), geo.poly_coords(polygons[n])) for a, n in zip(parts, present)]),
                              f'{fmt}: exactly the cells that have polygons, in linear order')
                else:
                    ctx.check(len(parts) == len(present) and all(a is polygons[n] for a, n in zip(parts, present)),
                              f'{fmt}: exactly the cells that have polygons, in linear order')
            else:
                raw = open(os.path.join(work, path), mode).read()
                g = shapely.from_wkt(raw) if fmt == 'WKT' else shapely.from_wkb(raw)
                parts = list(g.geoms)
                ctx.check(len(parts) == len(present), f'{fmt}: exactly the cells that have polygons')
                def rnd(ring):
                    return [(round(float(x), 5), round(float(y), 5)) for x, y in ring]
                ctx.check(all(pipeline.ring_matches(rnd([tuple(c) for c in a.exterior.coords[:-1]]), rnd(geo.poly_coords(polygons[n])))
                              for a, n in zip(parts, present)), f'{fmt}: the coordinates are those of the cells, in linear order')
                ctx.check(all(pipeline.ring_matches([tuple(c) for c in a.exterior.coords[:-1]], geo.poly_coords(polygons[n]))
                              for a, n in zip(parts, present)), f'{fmt}: coordinates are written without rounding', soft=(fmt == 'WKT'))
    finally:
        shutil.rmtree(work, ignore_errors=True)


def body_large(ctx, conv):
    """A grid large enough for long native indexes (three-digit j, two-digit i, multi-kind index): the attribute
    fields of every record must still identify their cell.  Coordinates are concrete here."""
    from emsarray.operations import geometry as G
    from symx import builders
    nj, ni = 101, 11
    if conv == 'shoc_standard':
        ds = builders.shoc_standard(nj, ni, face_x=numpy.zeros((nj, ni)), face_y=numpy.zeros((nj, ni)))
    elif conv == 'cf2d-holes':
        # fewer polygons than cells, across a digit boundary: 12 cells, 4 of them without geometry, so the largest
        # linear index (11) has more digits than the number of polygons (8)
        nj, ni = 3, 4
        jj, ii = numpy.meshgrid(numpy.arange(nj, dtype=float), numpy.arange(ni, dtype=float), indexing='ij')
        lat, lon = 10.0 + jj, 100.0 + ii
        lonb = numpy.stack([lon - .5, lon + .5, lon + .5, lon - .5], axis=-1)
        latb = numpy.stack([lat - .5, lat - .5, lat + .5, lat + .5], axis=-1)
        for (j, i) in ((0, 0), (0, 2), (1, 1), (1, 3)):
            lonb[j, i] = numpy.nan
            latb[j, i] = numpy.nan
        # ... and, after those holes, a cell whose corners are listed crosswise (self-intersecting: dropped with a warning)
        lonb[2, 1] = lonb[2, 1][[0, 2, 1, 3]]
        latb[2, 1] = latb[2, 1][[0, 2, 1, 3]]
        ds = builders.cf2d(nj, ni, lat=lat, lon=lon, lat_bounds=latb, lon_bounds=lonb)
    elif conv == 'cf1d-0-360':
        # longitudes on a 0..360 axis, crossing the antimeridian: coordinates are exported as they are
        nj, ni = 3, 6
        ds = builders.cf1d(nj, ni, lat=numpy.array([-10.0, -5.0, 0.0]), lon=numpy.array([170.0, 175.0, 180.0, 185.0, 190.0, 195.0]))
    elif conv == 'cf1d-int':
        # whole-degree coordinates stored in integer types, odd spacings (cell edges are half-way values)
        nj, ni = 3, 4
        ds = builders.cf1d(nj, ni, lat=numpy.array([-2, -1, 2], dtype='int32'), lon=numpy.array([150, 151, 154, 155], dtype='int64'))
    elif conv == 'cf2d-bowtie0':
        # the only cell without a valid outline is the very first one (corners listed crosswise)
        nj, ni = 2, 3
        jj, ii = numpy.meshgrid(numpy.arange(nj, dtype=float), numpy.arange(ni, dtype=float), indexing='ij')
        lat, lon = 10.0 + jj, 100.0 + ii
        lonb = numpy.stack([lon - .5, lon + .5, lon + .5, lon - .5], axis=-1)
        latb = numpy.stack([lat - .5, lat - .5, lat + .5, lat + .5], axis=-1)
        lonb[0, 0] = lonb[0, 0][[0, 2, 1, 3]]
        latb[0, 0] = latb[0, 0][[0, 2, 1, 3]]
        ds = builders.cf2d(nj, ni, lat=lat, lon=lon, lat_bounds=latb, lon_bounds=lonb)
    elif conv == 'mesh-bowtie0':
        ds = builders.ugrid(([(0, 0), (1, 0), (1, 1), (0, 1), (2, 0), (2, 1), (3, 0), (3, 1)], [[0, 2, 1, 3], [1, 4, 5, 2], [4, 6, 7, 5]]))
    elif conv == 'cf1d-huge':
        # more than 2**16 cells
        nj, ni = 260, 257
        ds = builders.cf1d(nj, ni, lat=numpy.linspace(-44.0, -10.0, nj), lon=numpy.linspace(110.0, 158.0, ni))
    elif conv == 'cf2d-20k':
        nj, ni = 130, 154
        jj, ii = numpy.meshgrid(numpy.arange(nj, dtype=float), numpy.arange(ni, dtype=float), indexing='ij')
        ds = builders.cf2d(nj, ni, lat=-40.0 + 0.1 * jj + 0.01 * ii, lon=140.0 + 0.1 * ii - 0.01 * jj)
    elif conv.startswith('mesh-'):
        # faces with up to twelve nodes
        ds = builders.ugrid(conv[5:])
    else:
        ds = builders.cf1d(nj, ni)
    cv = ds.ems
    from harness import geomref
    geomref.check(ctx, ds, cv)
    present = [n for n, p in enumerate(cv.polygons) if p is not None]
    N = len(present)
    os.makedirs(os.path.join(VERIF, '.work'), exist_ok=True)
    work = tempfile.mkdtemp(dir=os.path.join(VERIF, '.work'), prefix='c15L-')
    try:
        # a target given as a path object whose name has dots of its own: the files are the ones asked for
        import pathlib
        target = pathlib.Path(work) / 'cells.v2.shp'
        G.write_shapefile(ds, target)
        if ctx.symbolic:
            w = RecWriter.last
            recs = w.records
            ctx.check(w.base == os.path.join(work, 'cells.v2'), 'Shapefile: the files written are the ones named by the target')
        else:
            import shapefile
            ctx.check(all(os.path.exists(os.path.join(work, 'cells.v2' + ext)) for ext in ('.shp', '.shx', '.dbf')),
                      'Shapefile: the files written are the ones named by the target')
            rd = shapefile.Reader(str(target))
            fields = [f[0] for f in rd.fields[1:]]
            recs = [dict(zip(fields, list(r))) for r in rd.records()]
            rd.close()
        ctx.check(len(recs) == N, 'one record per cell')
        bad = []
        for n, r in zip(present, recs):
            try:
                idx = json.loads(r['index'])
            except Exception:
                bad.append(n)
                continue
            want = json.loads(json.dumps(cv.wind_index(n)))
            if idx != want or r.get('linear_ind') is None or int(r['linear_ind']) != n or r.get('name') != f'polygon{n}':
                bad.append(n)
        ctx.check(not bad, f'Shapefile: every record carries the linear and native index of its cell (also for long indexes); first bad: {bad[:3]}')
        G.write_geojson(ds, os.path.join(work, 'g.geojson'))
        if ctx.symbolic:
            props = [f['properties'] for f in Recorded.dumped]
            rings = [([tuple(c) for c in f['geometry']['coordinates'][0][:-1]] if isinstance(f['geometry'], dict)
                      else geo.poly_coords(f['geometry'])) for f in Recorded.dumped]
        else:
            feats = json.load(open(os.path.join(work, 'g.geojson')))['features']
            props = [f['properties'] for f in feats]
            rings = [[tuple(c) for c in f['geometry']['coordinates'][0][:-1]] for f in feats]
        want = [[tuple(float(v) for v in c) for c in geo.poly_coords(cv.polygons[n])] for n in present]
        ctx.check(len(rings) == len(want) and all(
            len(a) == len(b) and all(abs(float(p[0]) - q[0]) <= 1e-6 and abs(float(p[1]) - q[1]) <= 1e-6 for p, q in zip(a, b))
            for a, b in zip(rings, want)), 'GeoJSON: identical coordinates (concrete grid, to the 6 decimals the geojson package keeps)')
        ctx.check(len(props) == N and all(p['linear_index'] == n and json.loads(json.dumps(p['index'])) == json.loads(json.dumps(cv.wind_index(n))) for n, p in zip(present, props)),
                  'GeoJSON: every feature carries the linear and native index of its cell (also for long indexes)')
    finally:
        shutil.rmtree(work, ignore_errors=True)


def _large_patches():
    def make():
        import emsarray.operations.geometry as G

        def dump(obj, f, **kw):
            Recorded.dumped = [x for x in iter(obj['features'])]
            f.write('{}')
        return env.patched(
            (G, 'json', env.Proxy(json, dict(dump=dump))),
            (G, 'shapefile', env.Proxy(G.shapefile, dict(Writer=RecWriter))),
        )
    return make


def check_rows(ctx, P, cv, rows, present, polygons, fmt, jsonish, ring_any_direction=False):
    ctx.check(len(rows) == len(present), f'{fmt}: one feature per cell that has a polygon, none for holes')
    if len(rows) != len(present):
        return
    for (lin, idx, ring), n in zip(rows, present):
        ctx.check(lin is not None and int(lin) == n, f'{fmt}: features are in linear order and record their linear index')
        want = cv.wind_index(n)
        want_j = json.loads(json.dumps(want)) if jsonish else want
        got = list(idx) if isinstance(idx, (list, tuple)) else idx
        ctx.check(got == (list(want_j) if isinstance(want_j, (list, tuple)) else want_j), f'{fmt}: the native index of the cell is recorded')
        # the recorded native index identifies the same cell
        back = tuple(idx) if isinstance(idx, (list, tuple)) else idx
        if isinstance(back, tuple) and isinstance(back[0], str):
            kind = next(k for k in cv.grid_kinds if k.value == back[0])
            back = (kind,) + tuple(back[1:])
        ctx.check(cv.ravel_index(back) == n, f'{fmt}: linear and native index identify the same cell')
        if fmt == 'GeoJSON' and jsonish:
            # real files: first up to 1e-6 (which cell is it?), then exactly (is anything rounded?)
            coarse = [(round(float(x), 5), round(float(y), 5)) for x, y in ring]
            ref = [(round(float(x), 5), round(float(y), 5)) for x, y in geo.poly_coords(polygons[n])]
            ctx.check(pipeline.ring_matches(coarse, ref), f'{fmt}: the coordinates are those of the cell')
            ctx.check(pipeline.ring_matches(list(ring), geo.poly_coords(polygons[n])), f'{fmt}: coordinates are written without rounding', soft=True)
        else:
            ctx.check(pipeline.ring_matches(list(ring), geo.poly_coords(polygons[n])), f'{fmt}: identical coordinates')


def cases(tier):
    q = tier == 'quick'
    cfgs = [('cf1d', (2, 2), 'none', ()), ('cf2d', (2, 2), 'stored', None), ('shoc_standard', (1, 2), 'none', None),
            ('shoc_simple', (2, 2), 'none', ((0, 0), (1, 1))), ('cf1d', (2, 3), 'stored', ()), ('cf2d', (2, 3), 'misdim', ())]
    if not q:
        cfgs += [('cf1d', (3, 3), 'stored', ()), ('cf2d', (2, 3), 'none', ((0, 1), (1, 1), (1, 2))), ('shoc_standard', (2, 2), 'none', ((0, 0), (1, 1), (2, 2))),
                 ('cf2d', (3, 2), 'stored', ((0, 0), (2, 1), (1, 1)))]
    for conv, shape, bounds, nan_cells in cfgs:
        nm = 'all' if nan_cells is None else len(nan_cells)
        yield Case(f'{conv}:{shape[0]}x{shape[1]}:{bounds}:nan{nm}', body, dict(conv=conv, shape=shape, bounds=bounds, nan_cells=nan_cells),
                   patches=_patches(), max_paths=5000, split=8)
    for conv, shape, bounds, nan_cells in (cfgs[1:2] if q else cfgs[1:4]):
        nm = 'all' if nan_cells is None else len(nan_cells)
        yield Case(f'{conv}:{shape[0]}x{shape[1]}:{bounds}:nan{nm}:after-another-export', body,
                   dict(conv=conv, shape=shape, bounds=bounds, nan_cells=nan_cells, history=True), patches=_patches(), max_paths=5000, split=8)
    for conv, shape, bounds in (('cf1d', (2, 3), 'none'), ('cf2d', (3, 2), 'stored')):
        yield Case(f'{conv}:{shape[0]}x{shape[1]}:{bounds}:nan0:data-first', body,
                   dict(conv=conv, shape=shape, bounds=bounds, nan_cells=(), data_first=True), patches=_patches(), max_paths=5000, split=8)
    for fmt, ext in (('wkt', '.json'), ('geojson', '.wkb'), ('wkb', '.wkt'), ('geojson', '.geojson')):
        yield Case(f'cli:{fmt}:{ext}', body_cli, dict(fmt=fmt, ext=ext), max_paths=3)
    yield Case('large:cf2d-holes:3x4', body_large, dict(conv='cf2d-holes'), patches=_large_patches(), max_paths=5)
    yield Case('large:cf1d-0-360:3x6', body_large, dict(conv='cf1d-0-360'), patches=_large_patches(), max_paths=5)
    yield Case('large:cf1d-int:3x4', body_large, dict(conv='cf1d-int'), patches=_large_patches(), max_paths=5)
    for conv in ('cf2d-bowtie0', 'mesh-bowtie0', 'mesh-nonagon', 'mesh-fan9', 'mesh-poly34567', 'cf1d-huge', 'cf2d-20k'):
        yield Case(f'large:{conv}', body_large, dict(conv=conv), patches=_large_patches(), max_paths=5)
    for conv in ('shoc_standard', 'cf1d'):
        yield Case(f'large:{conv}:101x11', body_large, dict(conv=conv), patches=_large_patches(), max_paths=5)
    for mesh in (['tqp'] if q else ['tqp', 'fan', 'tq']):
        for mo in (dict(), dict(start_index=1, fill='attr' if mesh in ('tqp', 'tq') else 'none', supply=('edge_node',)),
                   dict(start_index=0, start_index_as_text=True), dict(start_index=1, fill='nan', start_index_as_text=True)):
            tag = '+'.join(f'{k}={v}' for k, v in mo.items()) or 'default'
            yield Case(f'ugrid:{mesh}:{tag}', body, dict(conv='ugrid', shape=mesh, bounds='none', mesh_opts=mo), patches=_patches(), max_paths=100)


    # a square connectivity table (four quads) stored (nodes per face, faces)
    yield Case('ugrid:qqqq:transposed', body, dict(conv='ugrid', shape='qqqq', bounds='none', mesh_opts=dict(transposed=True, fill='none')), patches=_patches(), max_paths=100)
    for mesh, mo in (('fan', dict(start_index=1, fill='none', supply=('edge_node',))), ('tqp', dict(start_index=1, fill='attr', fill_value=0))):
        tag = '+'.join(f'{k}={v}' for k, v in mo.items())
        yield Case(f'ugrid:{mesh}:{tag}:second-dataset-object', body, dict(conv='ugrid', shape=mesh, bounds='none', mesh_opts=mo, twin=True),
                   patches=_patches(), max_paths=100)
    yield Case('cf2d:2x2:stored:nanall:second-dataset-object', body, dict(conv='cf2d', shape=(2, 2), bounds='stored', nan_cells=None, twin=True),
               patches=_patches(), max_paths=5000, split=8)


def functions():
    from emsarray.operations import geometry as G
    return [G.to_geojson, G._dumpable_iterator, G.write_geojson, G.write_shapefile, G._to_multipolygon, G.write_wkt, G.write_wkb]


def body_cli(ctx, fmt, ext):
    """The export-geometry command is an entry point to the same exporters: the format asked for is the format
    written, whatever the extension of the output file, and the file reads back as that format with every cell."""
    from symx import builders
    from emsarray.cli import main
    from emsarray.operations import geometry as G
    import emsarray
    os.makedirs(os.path.join(VERIF, '.work'), exist_ok=True)
    work = tempfile.mkdtemp(dir=os.path.join(VERIF, '.work'), prefix='c15cli-')
    try:
        ds = builders.cf1d(2, 3, data_vars={'temp': (('y', 'x'), numpy.arange(6.0).reshape(2, 3))})
        src = os.path.join(work, 'in.nc')
        ds.to_netcdf(src)
        out = os.path.join(work, 'cells' + ext)
        try:
            main(['-q', 'export-geometry', src, out, '--format', fmt])
            status = 0
        except SystemExit as e:
            status = e.code or 0
        ctx.check(status == 0 and os.path.exists(out), 'export-geometry succeeds')
        ref = os.path.join(work, 'reference')
        {'geojson': G.write_geojson, 'wkt': G.write_wkt, 'wkb': G.write_wkb}[fmt](emsarray.open_dataset(src), ref)
        ctx.check(os.path.exists(out) and open(out, 'rb').read() == open(ref, 'rb').read(),
                  'the command line writes the requested format (same bytes as the library writer), whatever the file is called')
    finally:
        shutil.rmtree(work, ignore_errors=True)


def run(tier, seed=0, replay=None, procs=None, only=None):
    if replay:
        return replay_file(replay, list(cases('thorough')) + list(cases('quick')))
    cs = list(cases(tier))
    if only:
        cs = [c for c in cs if re.search(only, c.name)]
    from symx import envsweep
    first = sorted([[99.0, 9.5], [101.0, 9.5], [101.0, 10.5], [99.0, 10.5]])
    last = sorted([[105.0, 11.5], [107.0, 11.5], [107.0, 12.5], [105.0, 12.5]])
    return main_run(
        PROP, tier, cs, functions=functions(), seed=seed, procs=procs,
        late_checks=envsweep.late([('export_with_staggered_axes', 'GeoJSON: one feature per cell that has a polygon, none for holes',
                                    lambda v: v['convention'] == 'CFGrid1D' and v['count'] == 12 and v['indexes'] == list(range(12)) and v['first'] == first and v['last'] == last)], only),
        bounds=dict(
            datasets='CF 1-D 2x2/2x3, CF 2-D / SHOC simple 2x2..3x2 (symbolic missing cells), SHOC standard 1x2/2x2 (symbolic missing nodes), '
                     'meshes of 2-4 faces (multi-kind native indexes), all four formats',
            symbolic='all coordinates: Real; hole pattern: NaN flags (forked)',
            outside="the serializers' own encoding (json, pyshp, GEOS WKT/WKB writers): validated by writing and re-reading real files "
                    'for every path witness'),
        stubs=['json.dump -> drains and records the feature stream; geojson.Feature / FeatureCollection -> records',
               'shapefile.Writer -> records fields / records / shapes; keyword record values are matched on the field name '
               'truncated to 10 characters (DBF limit, as pyshp does)',
               'shapely.MultiPolygon / to_wkt / to_wkb -> record their argument', 'polygon pipeline stubs as in C02'],
        assumptions=['floats are reals + NaN flag'],
    )
