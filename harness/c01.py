"""C01 - native and linear indexes form a bijection on every grid.

Real code executed: DimensionConvention.ravel_index / wind_index / grid_shape /
grid_size, the three pack_index / unpack_index pairs, grid_dimensions,
grid_kinds and the topology helpers they read.  The linear index and the
components of the native index are unbounded z3 Ints.
"""
import itertools

import numpy

from symx import builders, env
from symx.core import And, Not, Or, Implies, same, SymInt
from symx.runner import Case, main_run, replay_file

PROP = 'C01'


def _patches():
    import emsarray.conventions._base as base
    return env.patched(
        (base, 'numpy', env.numpy_proxy()),
        (base, 'int', env.sym_int),
    )


def make_dataset(conv, shape, variant):
    """Returns (dataset, convention instance, {kind_name: expected shape})."""
    from emsarray.conventions.grid import CFGrid1D, CFGrid2D
    from emsarray.conventions.shoc import ShocSimple, ShocStandard
    from emsarray.conventions.ugrid import UGrid
    if conv == 'cf1d':
        ny, nx = shape
        if variant in ('explicit', 'explicit-topology'):
            # coordinate variables without identifying attributes: the caller names them
            ds = builders.cf1d(ny, nx, ydim='a', xdim='b', lat_name='northing', lon_name='easting', as_coords=False,
                               lat_attrs=dict(units='m', standard_name='projection_y_coordinate'),
                               lon_attrs=dict(units='m', standard_name='projection_x_coordinate'),
                               data_vars={'v': (('b', 'a'), numpy.zeros((nx, ny)))})
            if variant == 'explicit':
                return ds, CFGrid1D(ds, latitude='northing', longitude='easting'), {'face': (ny, nx)}
            from emsarray.conventions.grid import CFGrid1DTopology
            return ds, CFGrid1D(ds, topology=CFGrid1DTopology(ds, latitude='northing', longitude='easting')), {'face': (ny, nx)}
        if variant == 'explicit-one':
            # only the longitude needs naming (the latitude is recognisable); a longitude-like variable of another size
            # - the axis of a second, staggered grid - comes first in the file
            ds = builders.cf1d(ny, nx, ydim='a', xdim='b', lat_name='northing', lon_name='easting', as_coords=False,
                               lon_attrs=dict(units='m', standard_name='projection_x_coordinate'),
                               data_vars={'lon_u': (('c',), numpy.arange(nx + 2.0), {'units': 'degrees_east', 'standard_name': 'longitude'}),
                                          'v': (('b', 'a'), numpy.zeros((nx, ny)))})
            ds = ds[['lon_u'] + [n for n in ds.variables if n != 'lon_u']]
            from emsarray.conventions.grid import CFGrid1DTopology
            return ds, CFGrid1D(ds, topology=CFGrid1DTopology(ds, longitude='easting')), {'face': (ny, nx)}
        ydim, xdim = {'yx': ('y', 'x'), 'index': ('lat', 'lon'), 'swapnames': ('x', 'y')}[variant]
        ds = builders.cf1d(ny, nx, ydim=ydim, xdim=xdim,
                           data_vars={'v': ((xdim, ydim), numpy.zeros((nx, ny)))})
        return ds, CFGrid1D(ds), {'face': (ny, nx)}
    if conv == 'cf2d':
        ny, nx = shape
        ds = builders.cf2d(ny, nx, as_coords=(variant != 'plainvars'),
                           data_vars={'v': (('x', 'y'), numpy.zeros((nx, ny)))})
        if variant == 'lonT':
            # the longitude variable stored (x, y) next to a latitude stored (y, x): the grid is (y, x) all the same
            lon = ds['lon']
            ds = ds.drop_vars('lon').assign_coords(lon=(('x', 'y'), lon.values.T, lon.attrs))
        return ds, CFGrid2D(ds), {'face': (ny, nx)}
    if conv == 'shoc_simple':
        nj, ni = shape
        data = {'v': (('i', 'j'), numpy.zeros((ni, nj)))}
        if variant == 'lookalikes':
            # variables that carry the standard names of the coordinates without being them (a 3-D latitude field, a
            # transposed copy), listed first: the grid is still the (j, i) grid of the real coordinate variables
            data = {'lat3d': (('k', 'j', 'i'), numpy.zeros((2, nj, ni)), {'standard_name': 'latitude', 'units': 'degrees_north'}),
                    'lonT': (('i', 'j'), numpy.zeros((ni, nj)), {'standard_name': 'longitude', 'units': 'degrees_east'}), **data}
            builders.DATA_FIRST = True
        try:
            ds = builders.shoc_simple(nj, ni, data_vars=data)
        finally:
            builders.DATA_FIRST = False
        return ds, ShocSimple(ds), {'face': (nj, ni)}
    if conv == 'shoc_standard':
        nj, ni = shape
        ds = builders.shoc_standard(nj, ni)
        if variant == 'named':
            # the generic Arakawa C convention with the coordinate names given by the caller, keys in an arbitrary order
            from emsarray.conventions.arakawa_c import ArakawaC, ArakawaCGridKind as K
            names = {K.node: ('y_grid', 'x_grid'), K.back: ('y_back', 'x_back'), K.face: ('y_centre', 'x_centre'), K.left: ('y_left', 'x_left')}
            return ds, ArakawaC(ds, coordinate_names=names), builders.shoc_shapes(nj, ni)
        if variant == 'after-custom-names':
            # another SHOC dataset was opened earlier in this process with coordinate names given by the caller (left and
            # back exchanged): the predefined names of the convention are what they were
            from emsarray.conventions.arakawa_c import ArakawaCGridKind as K
            other = builders.shoc_standard(nj + 1, ni + 2)
            try:
                oc = ShocStandard(other, coordinate_names={K.left: ('y_back', 'x_back'), K.back: ('y_left', 'x_left'),
                                                           K.face: ('y_centre', 'x_centre'), K.node: ('y_grid', 'x_grid')})
                oc.grid_shape
            except Exception:
                pass
        return ds, ShocStandard(ds), builders.shoc_shapes(nj, ni)
    if conv == 'ugrid':
        mesh, mode = shape, variant
        kw = {
            'noedge': dict(),
            'edgedim': dict(with_edges=True),
            'edgeimplied': dict(supply=('edge_node',), edge_dimension_attr=False),
            'edgeboth': dict(supply=('edge_node', 'face_edge'), start_index=1, fill='attr'),
            # connectivity stored with the element dimension last: the *_dimension attributes name the grids
            'edgeT': dict(supply=('edge_node',), transposed=True),
            'edgefaceT': dict(supply=('edge_face',), transposed=True, fill='attr'),
            # the mesh names an edge-node table that is not in the dataset (dropped with its variables): no edge grid
            'dangling': dict(),
            # a second mesh topology variable (a 1-D network, a coarser mesh) after the one the dataset is about
            'secondmesh': dict(supply=('edge_node',)),
            # Conventions lists several conventions; the convention is the one the library detects by itself
            'listed': dict(supply=('edge_node',)),
            # start_index stored as the text "0"
            'textbase': dict(supply=('edge_node',), start_index=0, start_index_as_text=True),
        }[mode]
        ds = builders.ugrid(mesh, **kw)
        if mode == 'secondmesh':
            ds = ds.assign(
                coarse_node_x=(('ncoarse',), numpy.array([0.0, 1.0, 0.0])), coarse_node_y=(('ncoarse',), numpy.array([0.0, 0.0, 1.0])),
                coarse_face_node=(('ncoarseface', 'Three'), numpy.array([[0, 1, 2]], dtype='int32'), {'cf_role': 'face_node_connectivity', 'start_index': 0}),
                coarse=((), numpy.int32(0), {'cf_role': 'mesh_topology', 'topology_dimension': 2, 'node_coordinates': 'coarse_node_x coarse_node_y',
                                            'face_node_connectivity': 'coarse_face_node'}),
                network=((), numpy.int32(0), {'cf_role': 'mesh_topology', 'topology_dimension': 1, 'node_coordinates': 'coarse_node_x coarse_node_y',
                                             'edge_node_connectivity': 'edge_node'}))
        if mode == 'dangling':
            ds['mesh'].attrs['edge_node_connectivity'] = 'edge_node_that_was_dropped'
            ds['mesh'].attrs['edge_face_connectivity'] = 'edge_face_that_was_dropped'
        nodes, faces = builders.MESHES[mesh]
        if mode == 'listed':
            ds.attrs['Conventions'] = 'CF-1.8 UGRID-1.0 Deltares-0.10' if mesh == 'tq' else 'CF-1.6, UGRID-1.0'
            for nname, sn, un in (('node_x', 'longitude', 'degrees_east'), ('node_y', 'latitude', 'degrees_north')):
                ds[nname].attrs.update(standard_name=sn, units=un)
            exp = {'face': (len(faces),), 'node': (len(nodes),), 'edge': (len(builders.mesh_edges(faces)[0]),)}
            return ds, ds.ems, exp
        exp = {'face': (len(faces),), 'node': (len(nodes),)}
        if mode not in ('noedge', 'dangling'):
            exp['edge'] = (len(builders.mesh_edges(faces)[0]),)
        return ds, UGrid(ds), exp
    raise ValueError(conv)


def native(conv, kind_obj, comps):
    """Reference native index, written from the convention documentation."""
    if conv in ('cf1d', 'cf2d', 'shoc_simple'):
        return tuple(comps)
    if conv == 'shoc_standard':
        return (kind_obj,) + tuple(comps)
    return (kind_obj, comps[0])


def split_native(conv, idx):
    """Reference decomposition of a native index -> (kind or None, components)."""
    if conv in ('cf1d', 'cf2d', 'shoc_simple'):
        return None, tuple(idx)
    return idx[0], tuple(idx[1:])


def in_range(comps, shape):
    return And(*[And(c >= 0, c < d) for c, d in zip(comps, shape)])


def row_major(comps, shape):
    acc = 0
    for c, d in zip(comps, shape):
        acc = acc * d + c
    return acc


def body(ctx, conv, shape, variant, kind, part, data_first=False, via=None):
    builders.DATA_FIRST = data_first
    try:
        ds, convention, expected = make_dataset(conv, shape, variant)
    finally:
        builders.DATA_FIRST = False
    if via is not None:
        # the convention object after a trip through pickle / copy (a bound dataset sent to a worker): it still
        # describes the grid it was built for
        import copy
        import pickle
        if via == 'used-pickle':
            convention.grid_size, convention.grid_shape
        convention = {'pickle': lambda c: pickle.loads(pickle.dumps(c)), 'used-pickle': lambda c: pickle.loads(pickle.dumps(c)),
                      'copy': copy.copy, 'deepcopy': copy.deepcopy}[via](convention)
    kind_obj = next(k for k in convention.grid_kinds if k.value == kind)
    eshape = expected[kind]
    size = int(numpy.prod(eshape))
    ctx.note('grid', dict(conv=conv, variant=variant, kind=kind, shape=list(eshape)))

    if part == 'meta':
        ctx.check({k.value for k in convention.grid_kinds} == set(expected), 'grid_kinds')
        ctx.check(tuple(convention.grid_shape[kind_obj]) == tuple(eshape), 'grid_shape')
        ctx.check(convention.grid_size[kind_obj] == size, 'grid_size = number of addressable locations')
        ctx.check(convention.default_grid_kind.value == 'face', 'default kind is the face grid')
        # the number of distinct linear indexes that wind successfully equals grid_size:
        # injectivity of wind_index on its domain
        if size < 2:
            return
        a, b = ctx.int('a'), ctx.int('b')
        ctx.assume(And(a >= 0, a < size, b >= 0, b < size, Not(same(a, b))))
        ia = convention.wind_index(a, grid_kind=kind_obj)
        ib = convention.wind_index(b, grid_kind=kind_obj)
        _, ca = split_native(conv, ia)
        _, cb = split_native(conv, ib)
        ctx.check(Not(And(*[same(x, y) for x, y in zip(ca, cb)])), 'distinct linear -> distinct native')
        return

    if part == 'wind':
        n = ctx.int('n')
        try:
            if kind == 'face' and variant != 'explicitkind':
                idx = convention.wind_index(n)
            else:
                idx = convention.wind_index(n, grid_kind=kind_obj)
        except Exception as e:
            if type(e).__name__ in ('HarnessError',):
                raise
            ctx.check(Or(n < 0, n >= size), f'wind_index raised {type(e).__name__} only out of range')
            return
        ctx.check(And(n >= 0, n < size), 'wind_index returned only for in-range index (no wrap / clamp)')
        k, comps = split_native(conv, idx)
        ctx.check(len(comps) == len(eshape), 'native index arity')
        if k is not None:
            ctx.check(k == kind_obj, 'native index carries the requested grid kind')
        ctx.check(in_range(comps, eshape), 'native components in range')
        ctx.check(same(row_major(comps, eshape), n), 'linear order is row-major')
        back = convention.ravel_index(idx)
        ctx.check(same(back, n), 'ravel_index(wind_index(n)) == n')
        # the deprecated spelling shares the guarantee, on every grid kind
        import warnings
        with warnings.catch_warnings():
            warnings.simplefilter('ignore')
            old = convention.unravel_index(n, kind_obj)
        k_old, comps_old = split_native(conv, old)
        ctx.check((k_old is None or k_old == kind_obj) and len(comps_old) == len(comps) and And(*[same(x, y) for x, y in zip(comps_old, comps)]),
                  'the deprecated alias unravel_index(n, grid_kind) is wind_index(n, grid_kind)')
        return

    if part == 'huge':
        # indexes beyond 32 bits: far out of range on a small grid (refused, never wrapped), and in range on a grid
        # with more than 2**31 cells (row-major like any other)
        for n in (2 ** 31, 2 ** 32 + 7, 2 ** 32, 2 ** 33 + size - 1, -2 ** 32 - 1, 2 ** 63 - 1):
            try:
                got = convention.wind_index(n, grid_kind=kind_obj)
            except Exception:
                got = None
            ctx.check(got is None, 'wind_index returned only for in-range index (no wrap / clamp)')
        # the sizes themselves and their neighbours, as Python and numpy integers
        for n in (size, size + 1, numpy.int64(size), numpy.int32(size), -1, numpy.int64(-1)):
            try:
                got = convention.wind_index(n, grid_kind=kind_obj)
            except Exception:
                got = None
            ctx.check(got is None, 'wind_index returned only for in-range index (no wrap / clamp)')
        # native indexes with a component that is not a whole number name no location: refused, or at least never
        # moved onto a neighbouring location (whatever comes back must convert back to what was given)
        template = convention.wind_index(size - 1, grid_kind=kind_obj)
        comps_at = [k for k, c in enumerate(template) if isinstance(c, (int, numpy.integer)) and not isinstance(c, bool)] if isinstance(template, tuple) else None
        for frac in (-0.5, 0.5, -1e-300, 5e-324, 0.999999, -0.999999, 1.5):
            for pos in (comps_at if comps_at is not None else [None]):
                if pos is None:
                    given = frac
                else:
                    lst = list(template)
                    lst[pos] = (0 if frac < 1 else lst[pos] - 1) + frac if lst[pos] >= 1 or frac < 1 else frac
                    given = tuple(lst)
                try:
                    n = convention.ravel_index(given)
                except Exception:
                    continue
                try:
                    back = convention.wind_index(int(n), grid_kind=kind_obj)
                except Exception:
                    back = None
                ctx.check(back is not None and back == given, 'ravel_index returned only for in-range index (no wrap / clamp)')
        if conv == 'cf1d':
            from emsarray.conventions.grid import CFGrid1D
            big = builders.cf1d(50000, 50001, lat=numpy.linspace(-80.0, 80.0, 50000), lon=numpy.linspace(0.0, 359.0, 50001))
            bc = CFGrid1D(big)
            for j, i in ((42949, 33647), (49999, 50000), (42950, 0), (0, 50000)):
                n = j * 50001 + i
                r = bc.ravel_index((j, i))
                ctx.check(int(r) == n, 'linear order is row-major')
                back = bc.wind_index(n)
                ctx.check(tuple(int(v) for v in back) == (j, i), 'wind_index(ravel_index(idx)) == idx')
                # index components held in narrow numpy integer types (as read from a table) mean the same cell
                r16 = bc.ravel_index((numpy.int32(j), numpy.int32(i)))
                ctx.check(int(r16) == n, 'linear order is row-major')
            # every cell of some wider grids, concretely (row lengths 49, 103, 197, 1000 ...): a witness sweep for
            # arithmetic the integer encoding does not cover (floating point reciprocals, narrow integer types)
            for ny_, nx_ in ((2, 49), (33, 32), (40, 103), (7, 197), (1025, 2), (3, 1000), (9, 1117)):
                wide = CFGrid1D(builders.cf1d(ny_, nx_, lat=numpy.linspace(-60.0, 60.0, ny_), lon=numpy.linspace(0.0, 300.0, nx_)))
                bad = None
                for n in range(ny_ * nx_):
                    got = wide.wind_index(n)
                    if tuple(int(v) for v in got) != (n // nx_, n % nx_) or int(wide.ravel_index(got)) != n:
                        bad = n
                        break
                ctx.check(bad is None, 'wind_index(ravel_index(idx)) == idx')
            small = CFGrid1D(builders.cf1d(200, 300))
            for j, i in ((150, 299), (199, 0), (110, 7)):
                ctx.check(int(small.ravel_index((numpy.int16(j), numpy.int16(i)))) == j * 300 + i, 'linear order is row-major')
                ctx.check(int(small.ravel_index((numpy.uint8(j), numpy.uint16(i)))) == j * 300 + i, 'linear order is row-major')
        if conv == 'shoc_standard':
            from emsarray.conventions.shoc import ShocStandard
            wide = ShocStandard(builders.shoc_standard(6, 107))
            for k_ in wide.grid_kinds:
                shp_ = wide.grid_shape[k_]
                bad = None
                for n in range(int(numpy.prod(shp_))):
                    got = wide.wind_index(n, grid_kind=k_)
                    if got[0] is not k_ or tuple(int(v) for v in got[1:]) != (n // shp_[1], n % shp_[1]) or int(wide.ravel_index(got)) != n:
                        bad = n
                        break
                ctx.check(bad is None, 'wind_index(ravel_index(idx)) == idx')
        return

    if part == 'helper':
        # the grid kind's call helper is the documented way to write Arakawa C indexes: kind(j, i) == (kind, j, i).
        # (components in a bounded range around the grid, so that a helper that coerces them stays explorable)
        comps = tuple(ctx.int(f'c{d}', -1, eshape[d]) for d in range(len(eshape)))
        helped = kind_obj(*comps)
        ok = isinstance(helped, tuple) and len(helped) == 3 and helped[0] == kind_obj
        ctx.check(ok and And(same(helped[1], comps[0]), same(helped[2], comps[1])), 'kind(j, i) is the native index (kind, j, i)')
        if ok:
            try:
                r = convention.ravel_index(helped)
            except Exception as e:
                if type(e).__name__ in ('HarnessError',):
                    raise
                ctx.check(Not(in_range(comps, eshape)), f'ravel_index(kind(j, i)) raised {type(e).__name__} only out of range')
                return
            ctx.check(And(in_range(comps, eshape), same(r, row_major(comps, eshape))), 'ravel_index(kind(j, i)) is the row-major position of (j, i)')
        return

    if part == 'ravel':
        comps = tuple(ctx.int(f'c{d}') for d in range(len(eshape)))
        idx = native(conv, kind_obj, comps)
        try:
            r = convention.ravel_index(idx)
        except Exception as e:
            if type(e).__name__ in ('HarnessError',):
                raise
            ctx.check(Not(in_range(comps, eshape)), f'ravel_index raised {type(e).__name__} only out of range')
            return
        ctx.check(in_range(comps, eshape), 'ravel_index returned only for in-range index (no wrap / clamp)')
        ctx.check(And(r >= 0, r < size), 'linear index in [0, size)')
        ctx.check(same(r, row_major(comps, eshape)), 'linear order is row-major')
        idx2 = convention.wind_index(r, grid_kind=kind_obj)
        k2, comps2 = split_native(conv, idx2)
        ctx.check(And(*[same(x, y) for x, y in zip(comps2, comps)]), 'wind_index(ravel_index(idx)) == idx')
        if k2 is not None:
            ctx.check(k2 == kind_obj, 'round trip keeps the grid kind')
        return
    raise ValueError(part)


def cases(tier):
    # larger grids (more than 1,024 locations, row lengths such as 49 and 103 whose reciprocal is not exact): the index
    # arithmetic is symbolic, so the size of the grid costs nothing
    for conv, shp, variant, kinds in (('cf1d', (2, 49), 'yx', ['face']), ('cf1d', (33, 32), 'index', ['face']), ('cf2d', (40, 103), 'coords', ['face']),
                                      ('shoc_standard', (7, 197), '-', ['face', 'left', 'node']), ('shoc_simple', (1025, 2), '-', ['face']),
                                      ('ugrid', 'strip1100', 'edgedim', ['face', 'node', 'edge'])):
        for kind in kinds:
            for part in ('meta', 'wind', 'ravel'):
                yield Case(f'{conv}:{shp}:{variant}:{kind}:{part}:large'.replace(' ', ''), body, dict(conv=conv, shape=shp, variant=variant, kind=kind, part=part),
                           patches=_patches, max_paths=500)
    # (cheap concrete cases first: a change that makes the symbolic cases below run long is still reported)
    for conv, shp, variant, kind in (('cf1d', (2, 3), 'yx', 'face'), ('shoc_standard', (2, 3), '-', 'left'), ('ugrid', 'tqp', 'edgedim', 'edge')):
        yield Case(f'{conv}:{shp}:{variant}:{kind}:huge'.replace(' ', ''), body, dict(conv=conv, shape=shp, variant=variant, kind=kind, part='huge'), max_paths=5)
    top = 3 if tier == 'quick' else 6
    shapes = list(itertools.product(range(1, top + 1), repeat=2))
    configs = []
    for shp in shapes:
        for variant in ('yx', 'index', 'swapnames', 'explicit', 'explicit-topology', 'explicit-one'):
            configs.append(('cf1d', shp, variant, ['face']))
        for variant in ('coords', 'plainvars', 'lonT'):
            configs.append(('cf2d', shp, variant, ['face']))
        configs.append(('shoc_simple', shp, '-', ['face']))
        if shp[0] != shp[1]:
            configs.append(('shoc_simple', shp, 'lookalikes', ['face']))
        configs.append(('shoc_standard', shp, '-', ['face', 'left', 'back', 'node']))
        if shp[0] != shp[1]:
            configs.append(('shoc_standard', shp, 'named', ['face', 'left', 'back', 'node']))
        if shp in ((2, 3), (3, 1)):
            configs.append(('shoc_standard', shp, 'after-custom-names', ['left', 'back']))
    meshes = ['tq', 'tqp', 'fan', 'tri'] if tier == 'quick' else list(builders.MESHES)
    for mesh in meshes:
        configs.append(('ugrid', mesh, 'noedge', ['face', 'node']))
        configs.append(('ugrid', mesh, 'dangling', ['face', 'node']))
        if mesh in ('tq', 'tqp'):
            configs.append(('ugrid', mesh, 'secondmesh', ['face', 'node', 'edge']))
            configs.append(('ugrid', mesh, 'listed', ['face', 'node', 'edge']))
            configs.append(('ugrid', mesh, 'textbase', ['face', 'edge']))
        configs.append(('ugrid', mesh, 'edgedim', ['face', 'node', 'edge']))
        configs.append(('ugrid', mesh, 'edgeimplied', ['face', 'node', 'edge']))
        if mesh not in ('tri', 'qqq', 'fan'):
            configs.append(('ugrid', mesh, 'edgeboth', ['face', 'node', 'edge']))
        configs.append(('ugrid', mesh, 'edgeT', ['face', 'node', 'edge']))
        if mesh != 'tri':
            configs.append(('ugrid', mesh, 'edgefaceT', ['face', 'node', 'edge']))
    for conv, shp, variant, kinds in configs:
        for kind in kinds:
            for part in ('meta', 'wind', 'ravel') + (('helper',) if conv == 'shoc_standard' and shp[0] != shp[1] else ()):
                name = f'{conv}:{shp}:{variant}:{kind}:{part}'
                name = name.replace(' ', '')
                yield Case(name, body, dict(conv=conv, shape=shp, variant=variant, kind=kind, part=part),
                           patches=_patches, max_paths=500)
    for conv, shp, variant, kinds in [('cf1d', (2, 3), 'explicit', ['face']), ('cf1d', (3, 2), 'explicit-topology', ['face']),
                                      ('cf2d', (2, 3), 'lonT', ['face']), ('shoc_standard', (2, 3), 'named', ['face', 'left']),
                                      ('ugrid', 'tqp', 'edgeimplied', ['face', 'edge'])]:
        for kind in kinds:
            for via in ('pickle', 'used-pickle', 'copy', 'deepcopy'):
                for part in ('meta', 'wind', 'ravel'):
                    yield Case(f'{conv}:{shp}:{variant}:{kind}:{part}:after-{via}'.replace(' ', ''), body,
                               dict(conv=conv, shape=shp, variant=variant, kind=kind, part=part, via=via), patches=_patches, max_paths=500)
    # a data variable stored (x, y) listed before the geometry variables: the dataset's own dimension order is x, y
    for conv, variant in (('cf1d', 'yx'), ('cf2d', 'plainvars'), ('shoc_simple', '-')):
        for shp in ((2, 3), (3, 1)) if tier == 'quick' else ((2, 3), (3, 1), (1, 4), (4, 5)):
            for part in ('meta', 'wind', 'ravel'):
                yield Case(f'{conv}:{shp}:{variant}:face:{part}:datafirst'.replace(' ', ''), body,
                           dict(conv=conv, shape=shp, variant=variant, kind='face', part=part, data_first=True),
                           patches=_patches, max_paths=500)


def functions():
    from emsarray.conventions import _base, grid, arakawa_c, ugrid
    return [
        _base.DimensionConvention.ravel_index, _base.DimensionConvention.wind_index,
        _base.DimensionConvention.grid_shape.fget, _base.DimensionConvention.grid_size.fget,
        grid.CFGrid.pack_index, grid.CFGrid.unpack_index, grid.CFGrid.grid_dimensions.func,
        arakawa_c.ArakawaC.pack_index, arakawa_c.ArakawaC.unpack_index, arakawa_c.ArakawaC.grid_dimensions.func,
        ugrid.UGrid.pack_index, ugrid.UGrid.unpack_index, ugrid.UGrid.grid_dimensions.func,
        ugrid.UGrid.grid_kinds.func, ugrid.Mesh2DTopology.has_edge_dimension.fget,
        ugrid.Mesh2DTopology.edge_dimension.func,
    ]


def run(tier, seed=0, replay=None, procs=None, only=None):
    import re
    cs = list(cases(tier))
    if replay:
        return replay_file(replay, list(cases('thorough')))
    if only:
        cs = [c for c in cs if re.search(only, c.name)]
    n_conf = env.conformance_ravel()
    top = 3 if tier == 'quick' else 6
    return main_run(
        PROP, tier, cs, functions=functions(), seed=seed, procs=procs,
        bounds=dict(grid_shapes=f'all (ny,nx) with 1<=ny,nx<={top} for CF 1-D (3 dimension-name layouts), CF 2-D '
                                f'(coordinates / plain variables), SHOC simple, SHOC standard (4 kinds)',
                    meshes='UGRID meshes of 1-4 faces x {no edge dimension, declared, implied by edge_node, '
                           'declared + 1-based + _FillValue attribute}',
                    symbolic='linear index n: unbounded Int; native components: unbounded Ints',
                    outside='grid shapes beyond the bound (numpy shapes are concrete)'),
        stubs=[f'numpy.ravel_multi_index / numpy.unravel_index: formula per numpy documentation honouring mode= and '
               f'order=, ValueError out of range in mode="raise"; conformance: {n_conf} concrete comparisons with real numpy',
               'builtin int(): identity on symbolic Ints (module global shadow in emsarray.conventions._base)'],
        assumptions=['numpy.ravel_multi_index and unravel_index behave as documented (checked on small domains each run)',
                     'shapes above the bound behave like shapes within it'],
    )
