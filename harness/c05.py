"""C05 - index and point selection return the stored values, complete and in order.

Every stored data value is symbolic (Real + NaN flag).  The requested native
indexes are symbolic integers (concretised by forking where numpy needs them);
for point requests the outcome of each lookup (miss, or which cell) is a
symbolic integer behind the STRtree contract.
"""
import re

import numpy
import pandas
import shapely
import xarray

from symx import builders, geo
from symx.core import And, HarnessError, Iff, Not, Or, same, isnan, SymInt
from symx.runner import Case, main_run, replay_file

PROP = 'C05'


INT_COORDS = False
MESH_TRANSPOSED = False      # connectivity stored with the element dimension last (the *_dimension attributes name the grids)
POINT_TAKEN = False          # the dataset already has a dimension called 'point', used by a variable on the face grid


def make(ctx, conv, bounds_coords=False, int_coords=False, transposed=False, point_taken=False):
    global INT_COORDS, MESH_TRANSPOSED, POINT_TAKEN
    MESH_TRANSPOSED, POINT_TAKEN = transposed, point_taken
    builders.BOUNDS_AS_COORDS = bounds_coords
    INT_COORDS = int_coords
    try:
        ds, cv, info = _make(ctx, conv)
    finally:
        builders.BOUNDS_AS_COORDS = False
        INT_COORDS = False
        MESH_TRANSPOSED = POINT_TAKEN = False
    # the cells that can be selected are the cells the dataset describes
    from harness import geomref
    geomref.check(ctx, ds, cv, kind=conv)
    return ds, cv, info


def _make(ctx, conv):
    """Dataset with symbolic data on every grid kind, an integer variable, geometry."""
    from emsarray.conventions.grid import CFGrid1D, CFGrid2D
    from emsarray.conventions.shoc import ShocSimple, ShocStandard
    from emsarray.conventions.ugrid import UGrid

    def sym(name, shape):
        arr = numpy.empty(shape, dtype=object if ctx.symbolic else float)
        for k, idx in enumerate(numpy.ndindex(*shape)):
            arr[idx] = ctx.real(f'{name}{k}', nan=True, hint=100.0 * (1 + len(name)) + k)
        return arr
    info = {}
    if conv == 'cf1d':
        ny, nx = 2, 2
        data = {'temp': (('t', 'y', 'x'), sym('temp', (2, ny, nx))), 'botz': (('x', 'y'), sym('botz', (nx, ny))),
                'count': (('y', 'x'), numpy.arange(10, 10 + ny * nx, dtype='int32').reshape(ny, nx)),
                'single': (('one', 'y', 'x'), sym('single', (1, ny, nx))),
                # values of other types: missing is NaT for instants and durations
                'when': (('y', 'x'), (numpy.datetime64('2020-01-01T00:00', 'ns') + numpy.arange(ny * nx) * numpy.timedelta64(1, 'h')).reshape(ny, nx)),
                'lag': (('x', 'y'), (numpy.arange(ny * nx) * numpy.timedelta64(90, 'm')).astype('timedelta64[ns]').reshape(nx, ny)),
                'clock': (('t',), numpy.array([5.0, 6.0]))}
        if POINT_TAKEN:
            data['tracked'] = (('point', 'y', 'x'), sym('tracked', (2, ny, nx)))
        if INT_COORDS == 'descending':
            # latitude stored from north to south, once with derived and (further down) stored bounds
            ds = builders.cf1d(ny, nx, lat=numpy.array([11.0, 10.0]), lon=numpy.array([100.0, 103.0]), data_vars=data)
        elif INT_COORDS == 'descending-stored':
            ds = builders.cf1d(ny, nx, lat=numpy.array([11.0, 10.0]), lon=numpy.array([100.0, 103.0]), data_vars=data,
                               lat_bounds=numpy.array([[10.5, 11.5], [9.5, 10.5]]), lon_bounds=numpy.array([[98.5, 101.5], [101.5, 104.5]]))
        elif INT_COORDS:
            # whole-degree coordinates stored in integer types, odd spacings (cell edges are half-way values)
            ds = builders.cf1d(ny, nx, lat=numpy.array([10, 11], dtype='int32'), lon=numpy.array([100, 103], dtype='int64'), data_vars=data)
        else:
            ds = builders.cf1d(ny, nx, data_vars=data)
        cv = CFGrid1D(ds)
        info = dict(kinds={'face': (('y', 'x'), (ny, nx))}, geometry=['lat', 'lon'])
    elif conv in ('cf2d', 'shoc_simple'):
        ny, nx = 2, 2
        yd, xd = ('y', 'x') if conv == 'cf2d' else ('j', 'i')
        data = {'temp': (('t', yd, xd), sym('temp', (2, ny, nx))), 'botz': ((xd, yd), sym('botz', (nx, ny))),
                'count': ((yd, xd), numpy.arange(10, 10 + ny * nx, dtype='int32').reshape(ny, nx)),
                'single': ((yd, 'one', xd), sym('single', (ny, 1, nx))),
                'clock': (('t',), numpy.array([5.0, 6.0]))}
        jj, ii = numpy.meshgrid(numpy.arange(ny, dtype=float), numpy.arange(nx, dtype=float), indexing='ij')
        lat, lon = 10.0 + jj, 100.0 + 2 * ii
        lonb = numpy.stack([lon - 1, lon + 1, lon + 1, lon - 1], axis=-1)
        latb = numpy.stack([lat - .5, lat - .5, lat + .5, lat + .5], axis=-1)
        if INT_COORDS == 'misdim':
            # bounds stored (x, y, 4) next to coordinates stored (y, x): not this grid's layout - ignored, cells derived
            kwb = dict(lat_bounds=latb.transpose(1, 0, 2).copy() + 0.125, lon_bounds=lonb.transpose(1, 0, 2).copy() - 0.25, bounds_dims=(xd, yd, 'four'))
            ds = (builders.cf2d if conv == 'cf2d' else builders.shoc_simple)(ny, nx, lat=lat, lon=lon, data_vars=data, **kwb)
            cv = (CFGrid2D if conv == 'cf2d' else ShocSimple)(ds)
            info = dict(kinds={'face': ((yd, xd), (ny, nx))}, geometry=[n for n in ds.variables if n not in data])
        elif conv == 'cf2d':
            ds = builders.cf2d(ny, nx, lat=lat, lon=lon, lat_bounds=latb, lon_bounds=lonb, data_vars=data)
            cv = CFGrid2D(ds)
            info = dict(kinds={'face': ((yd, xd), (ny, nx))}, geometry=['lat', 'lon', 'lat_bnds', 'lon_bnds'])
        else:
            ds = builders.shoc_simple(ny, nx, lat=lat, lon=lon, lat_bounds=latb, lon_bounds=lonb, data_vars=data)
            cv = ShocSimple(ds)
            info = dict(kinds={'face': ((yd, xd), (ny, nx))},
                        geometry=['latitude', 'longitude', 'latitude_bnds', 'longitude_bnds'])
    elif conv == 'shoc_standard':
        ny, nx = 2, 2
        D, S = builders.SHOC_DIMS, builders.shoc_shapes(ny, nx)
        data = {'temp': (('t',) + D['face'], sym('temp', (2,) + S['face'])), 'botz': (D['face'][::-1], sym('botz', S['face'][::-1])),
                'u1': (D['left'], sym('u', S['left'])), 'u2': (D['back'], sym('w', S['back'])),
                'nodal': (D['node'] + ('t',), sym('n', S['node'] + (2,))),
                'count': (D['face'], numpy.arange(10, 10 + ny * nx, dtype='int32').reshape(ny, nx)),
                'single': (('one',) + D['face'], sym('single', (1,) + S['face'])),
                'single_left': (D['left'] + ('one',), sym('sl', S['left'] + (1,))),
                'clock': (('t',), numpy.array([5.0, 6.0]))}
        ds = builders.shoc_standard(ny, nx, data_vars=data)
        cv = ShocStandard(ds)
        info = dict(kinds={k: (D[k], S[k]) for k in D}, geometry=[n for k in builders.SHOC_COORDS for n in builders.SHOC_COORDS[k]])
    elif conv == 'ugrid':
        mesh = 'tqp'
        nodes, faces = builders.MESHES[mesh]
        ne = len(builders.mesh_edges(faces)[0])
        data = {'temp': (('t', 'nface'), sym('temp', (2, len(faces)))), 'botz': (('nface',), sym('botz', (len(faces),))),
                'flux': (('nedge', 't'), sym('flux', (ne, 2))), 'nodal': (('nnode',), sym('n', (len(nodes),))),
                'count': (('nface',), numpy.arange(10, 10 + len(faces), dtype='int32')),
                'single': (('one', 'nface'), sym('single', (1, len(faces)))),
                'single_node': (('nnode', 'one'), sym('sn', (len(nodes), 1))),
                'clock': (('t',), numpy.array([5.0, 6.0]))}
        # one-based integer tables with the fill value kept as an attribute (mask_and_scale=False / built in memory)
        if POINT_TAKEN:
            data['tracked'] = (('point', 'nface'), sym('tracked', (2, len(faces))))
        ds = builders.ugrid(mesh, supply=('edge_node',), data_vars=data, start_index=1, fill='attr', transposed=MESH_TRANSPOSED)
        cv = UGrid(ds)
        info = dict(kinds={'face': (('nface',), (len(faces),)), 'edge': (('nedge',), (ne,)), 'node': (('nnode',), (len(nodes),))},
                    geometry=['mesh', 'face_node', 'node_x', 'node_y', 'edge_node'])
    else:
        raise ValueError(conv)
    info['on_kind'] = {k: [n for n, v in ds.data_vars.items() if n not in info['geometry'] and set(dims) <= set(v.dims)]
                       for k, (dims, _) in info['kinds'].items()}
    return ds, cv, info


def native(cv, conv, kind, comps):
    if conv in ('cf1d', 'cf2d', 'shoc_simple'):
        return tuple(comps)
    k = next(g for g in cv.grid_kinds if g.value == kind)
    return (k,) + tuple(comps) if conv == 'shoc_standard' else (k, comps[0])


def check_selected(ctx, ds, out, info, kind, concrete_indexes, dim, label, drop_geometry=True):
    """`out` holds exactly the stored values at `concrete_indexes` (list of component tuples), in order, along `dim`."""
    dims, shape = info['kinds'][kind]
    expect_vars = set(info['on_kind'][kind])
    got_vars = set(out.data_vars) - (set() if drop_geometry else set(info['geometry']))
    ctx.check(got_vars == expect_vars, f'{label}: exactly the variables defined on the selected grid are present')
    if drop_geometry:
        ctx.check(not (set(info['geometry']) & set(out.variables)), f'{label}: geometry variables are absent')
    for name in sorted(expect_vars & set(out.data_vars)):
        src = ds[name]
        res = out[name]
        other = [d for d in src.dims if d not in dims]
        exp_dims = [d for d in src.dims if d not in dims]
        # position of the new dimension: where the first grid dimension was (xarray vectorised isel)
        ctx.check(set(res.dims) == set(other) | ({dim} if dim else set()), f'{label}: other dimensions intact ({name})')
        for d in other:
            ctx.check(res.sizes[d] == src.sizes[d], f'{label}: size of {d} intact')
        if dim:
            ctx.check(res.sizes[dim] == len(concrete_indexes), f'{label}: one entry per request')
        oks = []
        for k, comps in enumerate(concrete_indexes):
            sel_src = dict(zip(dims, comps))
            for oidx in numpy.ndindex(*[src.sizes[d] for d in other]):
                s = dict(sel_src)
                s.update(dict(zip(other, oidx)))
                r = dict(zip(other, oidx))
                if dim:
                    r[dim] = k
                a = res.values[tuple(r[d] for d in res.dims)]
                b = src.values[tuple(s[d] for d in src.dims)]
                oks.append(same(a, b))
        ctx.check(And(*oks), f'{label}: entry k holds the values stored at request k ({name})')


def body_indexes(ctx, conv, kind, nreq, mode, bounds_coords=False, transposed=False):
    ds, cv, info = make(ctx, conv, bounds_coords, transposed=transposed)
    dims, shape = info['kinds'][kind]
    reqs = []
    for k in range(nreq):
        comps = []
        for d, n in enumerate(shape):
            c = ctx.int(f'r{k}_{d}', 0, n - 1)
            comps.append(int(c))          # concretised by forking: numpy.array(index_tuples) needs integers
        reqs.append(tuple(comps))
    idxs = [native(cv, conv, kind, c) for c in reqs]
    ctx.note('request', dict(conv=conv, kind=kind, indexes=[list(r) for r in reqs], mode=mode))
    if mode == 'select_index':
        out = cv.select_index(idxs[0])
        check_selected(ctx, ds, out, info, kind, [reqs[0]], None, 'select_index')
    elif mode == 'keep_geometry':
        out = cv.select_index(idxs[0], drop_geometry=False)
        keep = [g for g in info['geometry'] if g in ds.variables and set(ds[g].dims) & set(dims)]
        ctx.check(all(g in out.variables for g in keep),
                  'drop_geometry=False keeps the geometry variables that use a selected dimension')
    elif mode == 'select_indexes':
        out = cv.select_indexes(idxs)
        ctx.check('index' in out.dims, 'default index dimension name')
        check_selected(ctx, ds, out, info, kind, reqs, 'index', 'select_indexes')
    elif mode == 'after_edit':
        # "the values stored at those cells" are the values stored when the selection is made: an earlier
        # selection through the same convention, followed by in-place edits of the dataset, changes nothing
        cv.select_index(idxs[0])
        name = info['on_kind'][kind][0]
        fresh = numpy.empty(ds[name].shape, dtype=object if ctx.symbolic else float)
        for k, idx in enumerate(numpy.ndindex(*fresh.shape)):
            fresh[idx] = ctx.real(f'e{k}', nan=True, hint=900.0 + k)
        ds[name] = (ds[name].dims, fresh)
        added = numpy.empty(shape, dtype=object if ctx.symbolic else float)
        for k, idx in enumerate(numpy.ndindex(*shape)):
            added[idx] = ctx.real(f'a{k}', nan=True, hint=700.0 + k)
        ds['added'] = (dims, added)
        info['on_kind'][kind] = list(info['on_kind'][kind]) + ['added']
        out = cv.select_indexes(idxs)
        check_selected(ctx, ds, out, info, kind, reqs, 'index', 'select_indexes after an in-place edit')
    elif mode == 'custom_dim':
        out = cv.select_indexes(idxs, index_dimension='pick')
        check_selected(ctx, ds, out, info, kind, reqs, 'pick', 'select_indexes(index_dimension=)')
    elif mode == 'out_of_range':
        # an index that is not a location of the grid (one past the end, or further) selects nothing: it is refused
        d = nreq % len(shape)
        over = int(ctx.int('over', 0, shape[d]))
        bad = tuple(shape[k] + over if k == d else c for k, c in enumerate(reqs[0]))
        for call, args in ((cv.select_index, (native(cv, conv, kind, bad),)), (cv.select_indexes, ([idxs[0], native(cv, conv, kind, bad)],))):
            try:
                call(*args)
            except (IndexError, ValueError, KeyError):
                ctx.check(True, 'an index outside the grid is refused')
            else:
                ctx.check(False, 'an index outside the grid is refused')
    elif mode == 'mixed_kinds':
        kinds = list(info['kinds'])
        other = next(k for k in kinds if k != kind)
        odims, oshape = info['kinds'][other]
        bad = idxs[:1] + [native(cv, conv, other, tuple(0 for _ in oshape))]
        try:
            cv.select_indexes(bad)
        except ValueError:
            ctx.check(True, 'indexes of different grid kinds are refused')
        else:
            ctx.check(False, 'indexes of different grid kinds are refused')
    else:
        raise ValueError(mode)


def body_twisted(ctx, conv):
    """A grid with a missing cell *before* a self-intersecting one: the cells that answer point selections are the
    complete, valid cells - each returns its own values, the other two return nothing."""
    from emsarray.conventions.grid import CFGrid2D
    from emsarray.conventions.shoc import ShocSimple
    from harness import geomref
    ny, nx = 2, 3
    jj, ii = numpy.meshgrid(numpy.arange(ny, dtype=float), numpy.arange(nx, dtype=float), indexing='ij')
    lat, lon = 10.0 + jj, 100.0 + 2 * ii
    lonb = numpy.stack([lon - 1, lon + 1, lon + 1, lon - 1], axis=-1)
    latb = numpy.stack([lat - .5, lat - .5, lat + .5, lat + .5], axis=-1)
    lonb[0, 0] = numpy.nan
    latb[0, 0] = numpy.nan
    lonb[1, 0] = lonb[1, 0][[0, 2, 1, 3]]
    latb[1, 0] = latb[1, 0][[0, 2, 1, 3]]
    vals = numpy.empty((ny, nx), dtype=object if ctx.symbolic else float)
    for k, idx in enumerate(numpy.ndindex(ny, nx)):
        vals[idx] = ctx.real(f'v{k}', nan=True, hint=50.0 + k)
    yd, xd = ('y', 'x') if conv == 'cf2d' else ('j', 'i')
    build = builders.cf2d if conv == 'cf2d' else builders.shoc_simple
    ds = build(ny, nx, lat=lat, lon=lon, lat_bounds=latb, lon_bounds=lonb, data_vars={'temp': ((yd, xd), vals)})
    cv = (CFGrid2D if conv == 'cf2d' else ShocSimple)(ds)
    geomref.check(ctx, ds, cv, kind=conv)
    for n in range(ny * nx):
        j, i = divmod(n, nx)
        pt = shapely.Point(float(lon[j, i]) + 0.25, float(lat[j, i]) + 0.125)     # inside the nominal rectangle of cell n
        alive = (j, i) not in ((0, 0), (1, 0))
        try:
            got = cv.select_point(pt)
        except ValueError:
            ctx.check(not alive, 'a point in a cell that has geometry is found')
            continue
        ctx.check(alive, 'a point in a cell without geometry (missing or self-intersecting) selects nothing')
        ctx.check(same(got['temp'].values[()], vals[j, i]), 'the point returns the values stored at its own cell')


class OutcomeTree:
    """STRtree contract specialised to point requests whose outcome is a symbolic
    integer: query(point k) returns [] (miss) or [cell] for the outcome of request k."""
    def __init__(self, geoms, outcomes, multi=None):
        self.geometries = numpy.asarray(geoms, dtype=object)
        self.outcomes = outcomes
        self.multi = multi or [False] * len(outcomes)

    def query(self, geometry, predicate=None, distance=None):
        if predicate != 'intersects':
            raise HarnessError(f'OutcomeTree: unexpected predicate {predicate!r}')
        k = int(round(geometry.x))
        o = self.outcomes[k]
        if self.multi[k] and 0 <= o < len(self.geometries) - 1 and self.geometries[o + 1] is not None:
            # a point on a shared boundary: two hits, and the tree documents no order - higher index first
            return numpy.array([o + 1, o], dtype=numpy.intp)
        return numpy.array([] if o < 0 else [o], dtype=numpy.intp)


class DescendingTree:
    """Replay side of the 'hits come in no particular order' contract: the real STRtree, its hits reported
    highest index first."""
    def __init__(self, tree):
        self.tree = tree
        self.geometries = tree.geometries

    def query(self, geometry, predicate=None, distance=None):
        hits = self.tree.query(geometry, predicate=predicate, distance=distance)
        return numpy.sort(hits)[::-1]


def body_points(ctx, conv, nreq, policy, api, dimname, boundary=False, bounds_coords=False, relabel=False, int_coords=False, point_taken=False, after_other=False, after_failure=False):
    ds, cv, info = make(ctx, conv, bounds_coords, int_coords, point_taken=point_taken)
    polygons = cv.polygons
    N = len(polygons)
    dims, shape = info['kinds']['face']
    outcomes = [int(ctx.int(f'o{k}', -1, N - 1)) for k in range(nreq)]     # forks: (N+1)^nreq outcome vectors
    multi = [bool(ctx.bool(f'm{k}')) for k in range(nreq)] if boundary else [False] * nreq
    ctx.note('request', dict(conv=conv, outcomes=outcomes, policy=policy, api=api))
    if ctx.symbolic:
        cv.__dict__['strtree'] = OutcomeTree(polygons, outcomes, multi)
        State = __import__('emsarray.state', fromlist=['State']).State
        coords = [(float(k), 0.0) for k in range(nreq)]
    else:
        coords = []
        for k, o in enumerate(outcomes):
            if o < 0:
                coords.append((-1000.0 - len(coords), -1000.0))
                continue
            p = polygons[o].representative_point()
            if multi[k]:
                # a point on the boundary shared with a higher-numbered cell; the cell it denotes is the lowest
                # one that really intersects it (decided by GEOS, not by the tree order)
                for o2 in range(o + 1, N):
                    if polygons[o2] is not None and polygons[o2].intersects(polygons[o]):
                        p = polygons[o2].intersection(polygons[o]).representative_point()
                        break
                real = [i for i in range(N) if polygons[i] is not None and polygons[i].intersects(p)]
                outcomes[k] = min(real) if real else -1
            coords.append((p.x, p.y))
        if boundary:
            cv.__dict__['strtree'] = DescendingTree(cv.strtree)
    # bind so that dataset.ems (used by extract_points) is this convention instance
    from emsarray.state import State
    st = State.get(ds)
    if not st.is_bound():
        cv.bind()
    points = [shapely.Point(x, y) for x, y in coords]
    if after_other:
        # the same stations were looked up in another model (other cells over the same region) earlier in this process
        import gc
        other = builders.cf1d(5, 7, lat=numpy.linspace(-1.0, 14.0, 5), lon=numpy.linspace(-2.0, 108.0, 7),
                              data_vars={'temp': (('y', 'x'), numpy.arange(35.0).reshape(5, 7))})
        for p in points:
            other.ems.get_index_for_point(p)
        try:
            other.ems.select_points(points, missing_points='drop')
        except Exception:
            pass
        del other
        gc.collect()
    if after_failure and not ctx.symbolic:
        # the same list object was offered before with a point far outside the model (refused), then corrected in place
        from emsarray.operations import point_extraction as _pe
        offered = [shapely.Point(-1234.0, -1234.0)] + list(points[1:])
        try:
            _pe.extract_points(ds, offered, missing_points='error')
        except _pe.NonIntersectingPoints:
            pass
        offered[0] = points[0]
        points = offered
    hits = [k for k, o in enumerate(outcomes) if o >= 0]
    misses = [k for k, o in enumerate(outcomes) if o < 0]
    hit_cells = [tuple(int(v) for v in numpy.unravel_index(outcomes[k], shape)) for k in hits]
    # (the default name steps aside when the dataset already has a dimension called 'point')
    dim = dimname or ('point_0' if point_taken else 'point')

    from emsarray.operations import point_extraction
    if api == 'select_points':
        kw = dict(missing_points=policy)
        if dimname:
            kw['point_dimension'] = dimname
        try:
            out = cv.select_points(points, **kw)
        except point_extraction.NonIntersectingPoints as e:
            ctx.check(policy == 'error' and bool(misses), 'NonIntersectingPoints only under policy error with a miss')
            ctx.check(list(int(i) for i in e.indexes) == misses, "'error' names exactly the points that miss, by position")
            ctx.check([p.wkt for p in e.points] == [points[k].wkt for k in misses], "'error' lists exactly the missing points")
            return
        except ValueError as e:
            # nothing to select (every point dropped) is refused by select_indexes
            ctx.check(not hits, f'ValueError only when no point hits: {e}')
            return
        ctx.check(not (policy == 'error' and misses), "'error' must raise when a point misses")
        check_selected(ctx, ds, out, info, 'face', hit_cells, dim, f'select_points[{policy}]')
        ctx.check(list(int(v) for v in out[dim].values) == hits, "'drop' labels the remaining points with their original positions")
        return

    # extract_dataframe
    df = pandas.DataFrame({'lon': [c[0] for c in coords], 'lat': [c[1] for c in coords],
                           'tag': [f'row{k}' for k in range(nreq)]})
    if relabel:
        # a table whose index is not 0..n-1 (rows picked out of a larger table): requests are still answered row by
        # row, in row order, and numbered by row number
        # (a list of labels, or the range index that a strided slice of a larger table keeps)
        df.index = pandas.RangeIndex(4, 4 + 2 * nreq, 2) if relabel == 'range' else [7, 3, 5, 1][:nreq]
    try:
        out = point_extraction.extract_dataframe(ds, df, ('lon', 'lat'), point_dimension=dim, missing_points=policy)
    except point_extraction.NonIntersectingPoints as e:
        ctx.check(policy == 'error' and bool(misses), 'NonIntersectingPoints only under policy error with a miss')
        ctx.check(list(int(i) for i in e.indexes) == misses, "'error' names exactly the rows that miss")
        return
    except ValueError as e:
        ctx.check(not hits, f'ValueError only when no point hits: {e}')
        return
    ctx.check(not (policy == 'error' and misses), "'error' must raise when a point misses")
    rows = list(range(nreq)) if policy == 'fill' else hits
    ctx.check(list(int(v) for v in out[dim].values) == rows, f"'{policy}': rows kept and labelled with their original positions")
    ctx.check(list(out['tag'].values) == [f'row{k}' for k in rows], 'dataframe columns intact and aligned')
    ctx.check(all(abs(float(out['lon'].values[i]) - coords[k][0]) < 1e-9 for i, k in enumerate(rows)), 'coordinate columns intact')
    ctx.check('lon' in out.coords and 'lat' in out.coords, 'coordinate columns become coordinates')
    for name in info['on_kind']['face']:
        src, res = ds[name], out[name]
        other = [d for d in src.dims if d not in dims]
        oks = []
        for i, k in enumerate(rows):
            for oidx in numpy.ndindex(*[src.sizes[d] for d in other]):
                r = dict(zip(other, oidx))
                r[dim] = i
                a = res.values[tuple(r[d] for d in res.dims)]
                if outcomes[k] < 0:
                    if name != 'count':
                        oks.append(isnan(a))       # 'fill': misses hold missing data
                else:
                    s = dict(zip(dims, numpy.unravel_index(outcomes[k], shape)))
                    s.update(dict(zip(other, oidx)))
                    b = src.values[tuple(int(s[d]) for d in src.dims)]
                    oks.append(same(a, b))
        ctx.check(And(*oks), f"extract_dataframe[{policy}]: row k holds the values of its cell, misses hold missing data ({name})")
    ctx.check(not ((set(info['geometry']) - {'lon', 'lat'}) & set(out.variables)),
              'geometry variables are absent (lon/lat are the dataframe columns)')
    ctx.check(all(out[c].dims == (dim,) for c in ('lon', 'lat')), 'lon/lat in the result are the per-point dataframe columns')
    offgrid = [n for k in info['kinds'] if k != 'face' for n in info['on_kind'][k] if n not in info['on_kind']['face']]
    ctx.check(not (set(offgrid) & set(out.variables)), 'variables on other grids are absent')


CONVS = {'cf1d': ['face'], 'cf2d': ['face'], 'shoc_simple': ['face'],
         'shoc_standard': ['face', 'left', 'back', 'node'], 'ugrid': ['face', 'edge', 'node']}


def body_many(ctx, ny, nx, npts):
    """Many cells and many requests (beyond any block size): every request gets the value of its own cell, in request
    order, misses are handled as the policy says."""
    from emsarray.operations import point_extraction
    lat, lon = numpy.linspace(-40.0, -10.0, ny), numpy.linspace(110.0, 160.0, nx)
    cell = numpy.arange(ny * nx, dtype=float).reshape(ny, nx)
    ds = builders.cf1d(ny, nx, lat=lat, lon=lon, data_vars={'cell': (('y', 'x'), cell)})
    rng = numpy.random.default_rng(int(ctx.int('seed', 1, 2)))
    px = 109.0 + rng.random(npts) * 52.0
    py = -41.0 + rng.random(npts) * 32.0
    dy, dx = (lat[1] - lat[0]) / 2, (lon[1] - lon[0]) / 2
    inside = (px > lon[0] - dx + 1e-9) & (px < lon[-1] + dx - 1e-9) & (py > lat[0] - dy + 1e-9) & (py < lat[-1] + dy - 1e-9)
    # keep clear of cell edges so that "nearest axis value" is the cell
    fx, fy = (px - (lon[0] - dx)) / (2 * dx), (py - (lat[0] - dy)) / (2 * dy)
    clear = (numpy.abs(fx - numpy.round(fx)) > 1e-6) & (numpy.abs(fy - numpy.round(fy)) > 1e-6)
    px, py, inside = px[clear], py[clear], inside[clear]
    want = numpy.where(inside, numpy.floor((py - (lat[0] - dy)) / (2 * dy)).clip(0, ny - 1) * nx + numpy.floor((px - (lon[0] - dx)) / (2 * dx)).clip(0, nx - 1), numpy.nan)
    pts = [shapely.Point(x, y) for x, y in zip(px, py)]
    sel = ds.ems.select_points(pts, missing_points='drop')
    ctx.check([int(v) for v in sel['point'].values] == [k for k in range(len(pts)) if inside[k]], "'drop' labels the remaining points with their original positions")
    ctx.check(bool(numpy.array_equal(sel['cell'].values, want[inside])), 'select_points[drop]: each remaining request holds the value of its own cell')
    df = pandas.DataFrame({'lon': px, 'lat': py})
    ext = point_extraction.extract_dataframe(ds, df, ('lon', 'lat'), missing_points='fill')
    ctx.check(len(ext['point']) == len(pts) and bool(numpy.array_equal(ext['cell'].values, want, equal_nan=True)),
              "extract_dataframe[fill]: row k holds the values of its cell, misses hold missing data (cell)")
    try:
        ds.ems.select_points(pts, missing_points='error')
        ctx.check(bool(inside.all()), "'error' must raise when a point misses")
    except point_extraction.NonIntersectingPoints as e:
        ctx.check([int(i) for i in e.indexes] == [k for k in range(len(pts)) if not inside[k]], "'error' names exactly the points that miss, by position")


def body_reference_cells(ctx, kind):
    """Concrete datasets with special values in their geometry (a fill value of 0 in one-based tables, missing centres
    next to the border of a grid without stored bounds, a lone invalid first cell): the cells are compared with
    independent reference polygons, then points inside every reference cell, on shared sides and in the gaps are
    extracted - each request gets the values of the lowest-numbered reference cell that touches it."""
    from emsarray.operations import point_extraction
    from harness import geomref
    v = int(ctx.int('variant', 0, 1))
    if kind == 'mesh-fill0':
        ds = builders.ugrid(('qqqtt', 'tqp')[v], start_index=1, fill='attr', fill_value=0, supply=('edge_node',))
        dims = ('nface',)
    elif kind == 'mesh-fillmax':
        ds = builders.ugrid(('qqqtt', 'tqp')[v], start_index=v, fill='attr', fill_value=(2 ** 31 - 1, -1)[v], supply=())
        dims = ('nface',)
    elif kind == 'cf2d-nan-near-border':
        nj, ni = 4, 5
        jj, ii = numpy.meshgrid(numpy.arange(nj, dtype=float), numpy.arange(ni, dtype=float), indexing='ij')
        lat, lon = 10.0 + jj + 0.1 * ii, 100.0 + 2 * ii - 0.2 * jj
        for (j, i) in (((1, 2),), ((2, 1), (2, 3)))[v]:
            lat[j, i] = numpy.nan
            lon[j, i] = numpy.nan
        ds = builders.cf2d(nj, ni, lat=lat, lon=lon)
        dims = tuple(ds['lat'].dims)
    else:
        raise ValueError(kind)
    cv = ds.ems
    ref = geomref.check(ctx, ds, cv)
    N = len(ref)
    shape = tuple(ds.sizes[d] for d in dims)
    ds['cell'] = (dims, numpy.arange(N, dtype=float).reshape(shape) + 0.5)
    pts = []
    for n in range(N):
        if ref[n] is None or ref[n].is_empty:
            continue
        pts.append(ref[n].representative_point())
        c = ref[n].centroid
        for x, y in list(ref[n].exterior.coords)[:-1]:
            pts.append(shapely.Point(c.x + (x - c.x) * 0.97, c.y + (y - c.y) * 0.97))     # just inside each corner
    minx, miny, maxx, maxy = shapely.unary_union([p for p in ref if p is not None and not p.is_empty]).bounds
    pts += [shapely.Point(minx - 1.0, miny - 1.0), shapely.Point(maxx + 0.5, (miny + maxy) / 2)]
    want = []
    for p in pts:
        hit = next((n for n in range(N) if ref[n] is not None and not ref[n].is_empty and ref[n].intersects(p)), None)
        want.append(numpy.nan if hit is None else hit + 0.5)
    want = numpy.array(want)
    inside = ~numpy.isnan(want)
    sel = cv.select_points(pts, missing_points='drop')
    ctx.check([int(x) for x in sel['point'].values] == [k for k in range(len(pts)) if inside[k]], "'drop' labels the remaining points with their original positions")
    ctx.check(bool(numpy.array_equal(sel['cell'].values, want[inside])), 'select_points[drop]: each remaining request holds the value of its own cell')
    df = pandas.DataFrame({'lon': [p.x for p in pts], 'lat': [p.y for p in pts]})
    ext = point_extraction.extract_dataframe(ds, df, ('lon', 'lat'), missing_points='fill')
    ctx.check(len(ext['point']) == len(pts) and bool(numpy.array_equal(ext['cell'].values, want, equal_nan=True)),
              "extract_dataframe[fill]: row k holds the values of its cell, misses hold missing data (cell)")
    try:
        cv.select_points(pts, missing_points='error')
        ctx.check(bool(inside.all()), "'error' must raise when a point misses")
    except point_extraction.NonIntersectingPoints as e:
        ctx.check([int(i) for i in e.indexes] == [k for k in range(len(pts)) if not inside[k]], "'error' names exactly the points that miss, by position")


def cases(tier):
    for kind in ('mesh-fill0', 'mesh-fillmax', 'cf2d-nan-near-border'):
        yield Case(f'reference-cells:{kind}', body_reference_cells, dict(kind=kind), max_paths=4)
    yield Case('many:101x100:2500-points', body_many, dict(ny=101, nx=100, npts=2500), max_paths=4)
    yield Case('many:5x6:1001-points', body_many, dict(ny=5, nx=6, npts=1001), max_paths=4)
    for conv in ('cf2d', 'shoc_simple'):
        yield Case(f'points:{conv}:select_points:drop:2:misdim', body_points,
                   dict(conv=conv, nreq=2, policy='drop', api='select_points', dimname=None, int_coords='misdim'), max_paths=50000, split=16)
    q = tier == 'quick'
    for conv in ('cf2d', 'shoc_simple'):
        yield Case(f'twisted:{conv}', body_twisted, dict(conv=conv), max_paths=50)
    # stored bounds held as xarray coordinates are still geometry: absent from every selection
    for conv in ('cf2d', 'shoc_simple'):
        yield Case(f'index:{conv}:face:select_indexes2:bounds-as-coordinates', body_indexes,
                   dict(conv=conv, kind='face', nreq=2, mode='select_indexes', bounds_coords=True), max_paths=5000, split=8)
        yield Case(f'points:{conv}:extract_dataframe:drop:2:bounds-as-coordinates', body_points,
                   dict(conv=conv, nreq=2, policy='drop', api='extract_dataframe', dimname=None, bounds_coords=True), max_paths=5000, split=8)
    for conv, kinds in CONVS.items():
        for kind in kinds:
            yield Case(f'index:{conv}:{kind}:select_index', body_indexes, dict(conv=conv, kind=kind, nreq=1, mode='select_index'), max_paths=5000)
            if kind == 'face':
                yield Case(f'index:{conv}:{kind}:keep_geometry', body_indexes, dict(conv=conv, kind=kind, nreq=1, mode='keep_geometry'), max_paths=5000)
            n = 2 if (q or kind in ('node', 'edge')) else 3
            yield Case(f'index:{conv}:{kind}:select_indexes{n}', body_indexes, dict(conv=conv, kind=kind, nreq=n, mode='select_indexes'),
                       max_paths=50000, split=16)
            if kind in ('face', 'node'):
                yield Case(f'index:{conv}:{kind}:after_edit', body_indexes, dict(conv=conv, kind=kind, nreq=2, mode='after_edit'),
                           max_paths=5000, split=8)
            if kind in ('face', 'left'):
                yield Case(f'index:{conv}:{kind}:custom_dim', body_indexes, dict(conv=conv, kind=kind, nreq=2, mode='custom_dim'), max_paths=5000, split=8)
            for n in ((1, 2) if kind == 'face' else (1,)):
                yield Case(f'index:{conv}:{kind}:out_of_range{n}', body_indexes, dict(conv=conv, kind=kind, nreq=n, mode='out_of_range'), max_paths=5000)
            if len(kinds) > 1 and kind == 'face':
                yield Case(f'index:{conv}:{kind}:mixed_kinds', body_indexes, dict(conv=conv, kind=kind, nreq=1, mode='mixed_kinds'), max_paths=5000)
        nreq = 2 if q else 3
        for policy in ('error', 'drop'):
            yield Case(f'points:{conv}:select_points:{policy}:{nreq}', body_points,
                       dict(conv=conv, nreq=nreq, policy=policy, api='select_points', dimname=None), max_paths=50000, split=16)
        yield Case(f'points:{conv}:select_points:drop:custom', body_points,
                   dict(conv=conv, nreq=2, policy='drop', api='select_points', dimname='station'), max_paths=50000, split=8)
        for policy in ('error', 'drop', 'fill'):
            yield Case(f'points:{conv}:extract_dataframe:{policy}:{nreq}', body_points,
                       dict(conv=conv, nreq=nreq, policy=policy, api='extract_dataframe', dimname=None), max_paths=50000, split=16)
        # points on shared cell boundaries: several hits in no particular order, the lowest index is the cell
        yield Case(f'points:{conv}:select_points:drop:boundary', body_points,
                   dict(conv=conv, nreq=2, policy='drop', api='select_points', dimname=None, boundary=True), max_paths=50000, split=16)
        yield Case(f'points:{conv}:extract_dataframe:fill:boundary', body_points,
                   dict(conv=conv, nreq=2 if q else 3, policy='fill', api='extract_dataframe', dimname=None, boundary=True),
                   max_paths=100000, split=32)
        if conv in ('cf1d', 'ugrid'):
            for policy in ('drop', 'fill'):
                yield Case(f'points:{conv}:extract_dataframe:{policy}:2:relabelled-table', body_points,
                           dict(conv=conv, nreq=2, policy=policy, api='extract_dataframe', dimname=None, relabel=True), max_paths=50000, split=16)
                yield Case(f'points:{conv}:extract_dataframe:{policy}:2:relabelled-table:range', body_points,
                           dict(conv=conv, nreq=2, policy=policy, api='extract_dataframe', dimname=None, relabel='range'), max_paths=50000, split=16)
            for policy in ('drop', 'error'):
                yield Case(f'points:{conv}:select_points:{policy}:2:after-a-refused-request', body_points,
                           dict(conv=conv, nreq=2, policy=policy, api='select_points', dimname=None, after_failure=True), max_paths=50000, split=16)
            yield Case(f'points:{conv}:select_points:drop:2:after-another-model', body_points,
                       dict(conv=conv, nreq=2, policy='drop', api='select_points', dimname=None, after_other=True), max_paths=50000, split=16)
            yield Case(f'points:{conv}:select_points:drop:2:point-dimension-taken', body_points,
                       dict(conv=conv, nreq=2, policy='drop', api='select_points', dimname=None, point_taken=True), max_paths=50000, split=16)
            if conv == 'ugrid':
                for kind in ('edge', 'face'):
                    yield Case(f'index:{conv}:{kind}:select_indexes2:transposed-tables', body_indexes,
                               dict(conv=conv, kind=kind, nreq=2, mode='select_indexes', transposed=True), max_paths=50000, split=16)
            for variant in (('descending', 'descending-stored') if conv == 'cf1d' else ('misdim',) if conv in ('cf2d', 'shoc_simple') else ()):
                yield Case(f'points:{conv}:select_points:drop:2:{variant}', body_points,
                           dict(conv=conv, nreq=2, policy='drop', api='select_points', dimname=None, int_coords=variant), max_paths=50000, split=16)
            yield Case(f'points:{conv}:select_points:drop:2:integer-coordinates', body_points,
                       dict(conv=conv, nreq=2, policy='drop', api='select_points', dimname=None, int_coords=(conv == 'cf1d')), max_paths=50000, split=16)
        yield Case(f'points:{conv}:extract_dataframe:fill:custom', body_points,
                   dict(conv=conv, nreq=2, policy='fill', api='extract_dataframe', dimname='station'), max_paths=50000, split=8)


def functions():
    from emsarray import utils
    from emsarray.conventions import _base
    from emsarray.operations import point_extraction
    return [_base.Convention.select_index, _base.Convention.select_indexes, _base.Convention.select_point,
            _base.Convention.select_points, _base.Convention.drop_geometry, _base.DimensionConvention.selector_for_indexes,
            utils.extract_vars, point_extraction.extract_points, point_extraction.extract_dataframe,
            point_extraction._dataframe_to_dataset, point_extraction.NonIntersectingPoints]


def saved_fill_checks(tier):
    """'fill' keeps every row, misses hold missing data - also in the file the result is saved to."""
    import os
    import shutil
    import tempfile
    from emsarray.operations import point_extraction
    VERIF = os.path.dirname(os.path.dirname(os.path.abspath(__file__)))
    viol, notes = [], []
    os.makedirs(os.path.join(VERIF, '.work'), exist_ok=True)
    work = tempfile.mkdtemp(dir=os.path.join(VERIF, '.work'), prefix='c05-')
    try:
        encodings = {
            'int32': dict(dtype='int32'), 'int32+nofill': dict(dtype='int32', _FillValue=None),
            'int16+fill': dict(dtype='int16', _FillValue=numpy.int16(-1)), 'uint8+nofill': dict(dtype='uint8', _FillValue=None),
            'packed': dict(dtype='int16', _FillValue=numpy.int16(0), scale_factor=0.5),
            'float32+nofill': dict(dtype='float32', _FillValue=None),
        }
        for conv in ('cf1d', 'ugrid'):
            for tag, enc in encodings.items():
                dt = 'int32' if tag.startswith(('int', 'uint')) else 'float64'
                if conv == 'cf1d':
                    ds = builders.cf1d(2, 3, data_vars={'count': (('y', 'x'), numpy.arange(1, 7).reshape(2, 3).astype(dt))})
                else:
                    ds = builders.ugrid('tqp', fill='nan', data_vars={'count': (('nface',), numpy.arange(1, 4).astype(dt))})
                ds['count'].encoding.update(enc)
                polygons = ds.ems.polygons
                pts = [polygons[len(polygons) - 1].representative_point(), None, polygons[0].representative_point()]
                df = pandas.DataFrame({'lon': [(-170.0 if p is None else p.x) for p in pts], 'lat': [(-80.0 if p is None else p.y) for p in pts]})
                case = f'saved-fill:{conv}:{tag}'
                try:
                    out = point_extraction.extract_dataframe(ds, df, ('lon', 'lat'), missing_points='fill')
                    path = os.path.join(work, f'{conv}-{tag}.nc')
                    out.to_netcdf(path)
                    back = xarray.open_dataset(path).load()
                    back.close()
                except Exception as e:
                    viol.append(dict(case=case, label="'fill' result can be saved and read back", inputs={}, detail=f'{type(e).__name__}: {e}'[:800], how='real save / reopen'))
                    continue
                want = [float(ds['count'].values.ravel()[-1]), numpy.nan, float(ds['count'].values.ravel()[0])]
                for where, got in (('in memory', out['count'].values), ('after save and reopen', back['count'].values)):
                    got = numpy.asarray(got, dtype=float)
                    if not (got.shape == (3,) and numpy.array_equal(got, numpy.array(want), equal_nan=True)):
                        viol.append(dict(case=case, label=f"'fill': every row kept, hits hold their cell's value, misses hold missing data ({where})",
                                         inputs=dict(encoding={k: str(v) for k, v in enc.items()}), detail=f'{got.tolist()} != {want}', how='real save / reopen'))
                notes.append(case)
    finally:
        shutil.rmtree(work, ignore_errors=True)
    return viol, notes


def _late(tier):
    from symx import envsweep
    rv, notes = saved_fill_checks(tier)
    ev, _, extra = envsweep.late([
        ('stations_in_two_models', 'one entry per request in request order, each with the values of its own cell',
         lambda v: all(m['selected'] == m['want'] and m['labels'] == [0, 1, 2] and m['extracted'] == m['want'] + [None] for m in v.values()))])()
    return rv + ev, [], dict(saved_fill=notes, **extra)


def run(tier, seed=0, replay=None, procs=None, only=None):
    if replay:
        import json
        data = json.load(open(replay))
        if str(data.get('case', '')).startswith('saved-fill:'):
            rv, _ = saved_fill_checks('quick')
            rv = [v for v in rv if v['case'] == data['case']]
            for v in rv:
                print(v['label'], v['detail'])
                print(f'VIOLATION property={PROP} replay={replay}')
            return 1 if rv else 0
        return replay_file(replay, list(cases('thorough')) + list(cases('quick')))
    cs = list(cases(tier))
    if only:
        cs = [c for c in cs if re.search(only, c.name)]
    q = tier == 'quick'
    return main_run(
        PROP, tier, cs, functions=functions(), seed=seed, procs=procs,
        late_checks=(lambda: _late(tier)) if not only else None,
        bounds=dict(
            datasets='one dataset per convention (2x2 grids, mesh tqp) with float variables on every grid kind (extra dimension '
                     'first/last, transposed), an int32 variable, a non-spatial variable and the geometry variables',
            requests=f'index lists of length 1..{2 if q else 3} over the whole grid (repeats, any order) for every grid kind; point lists '
                     f'of length {2 if q else 3}: every outcome vector in (miss | cell)^n; policies error/drop/fill; custom dimension names',
            symbolic='all stored float values: Real + NaN flag; requested indexes and lookup outcomes: Ints (forked to concrete)',
            outside='boundary hits (C04 decides which cell a boundary point belongs to); larger grids; request lists longer than 3'),
        stubs=['STRtree.query(point k) -> [] or [cell] according to the symbolic outcome of request k (contract: C04); '
               'in replay real points (cell interior / far away) and the real STRtree are used'],
        assumptions=['xarray isel/merge/assign_coords and pandas to_xarray move object-array elements as they move floats '
                     '(every path witness is replayed on float arrays)'],
    )
