"""C02 - one linear order is shared by polygons, centres, flattened data and selectors.

Every coordinate value and every data value is symbolic (Real + NaN flag where
the convention allows holes).  The real polygon pipeline runs on object arrays;
shapely.polygons / is_valid / STRtree are contracts (see harness/pipeline.py).
"""
import re

import numpy
import xarray

from symx import geo
from symx.core import And, Iff, Not, Or, same, close
from symx.runner import Case, main_run, replay_file
from symx.snap import snapshot, unchanged
from harness import pipeline

PROP = 'C02'


def data_layout(P, layout):
    gd = list(P.grid_dims['face'])
    if layout == 'plain':
        return gd
    if layout == 'transposed':
        return gd[::-1]
    if layout == 'extra_first':
        return ['t'] + gd
    if layout == 'extra_mid':
        return gd[:1] + ['t'] + gd[1:] if len(gd) > 1 else ['t'] + gd
    if layout == 'extra_last':
        return gd[::-1] + ['t']
    raise ValueError(layout)


def body(ctx, conv, shape, bounds, as_coords, layout, nan_cells=None, mesh_opts=None, data_first=False, bounds_coords=False, coord_dtype=None, explicit=False):
    pipeline.EXPLICIT_NAMES = explicit
    pipeline.builders.DATA_FIRST = data_first
    pipeline.builders.BOUNDS_AS_COORDS = bounds_coords
    try:
        return _body(ctx, conv, shape, bounds, as_coords, layout, nan_cells, mesh_opts, coord_dtype)
    finally:
        pipeline.builders.DATA_FIRST = False
        pipeline.builders.BOUNDS_AS_COORDS = False
        pipeline.EXPLICIT_NAMES = False


def _body(ctx, conv, shape, bounds, as_coords, layout, nan_cells=None, mesh_opts=None, coord_dtype=None):
    # build once without data to learn the dimension names, then add the data variable
    probe = {'cf1d': ('y', 'x'), 'cf2d': ('y', 'x'), 'shoc_simple': ('j', 'i'),
             'shoc_standard': ('j_centre', 'i_centre'), 'ugrid': ('nface',)}[conv]

    class _G:
        grid_dims = {'face': probe}
    ddims = data_layout(_G, layout)
    gshape = dict(zip(probe, shape if conv != 'ugrid' else (len(pipeline.builders.MESHES[shape][1]),)))
    gshape['t'] = 2
    dshape = tuple(gshape[d] for d in ddims)
    values = numpy.empty(dshape, dtype=object if ctx.symbolic else float)
    for k, idx in enumerate(numpy.ndindex(*dshape)):
        values[idx] = ctx.real(f'd{k}', nan=True, hint=1000.0 + k)
    data = {'temp': (tuple(ddims), values)}
    if conv == 'shoc_standard':   # a variable on another grid must never be confused with the face grid
        data['u1'] = (('j_left', 'i_left'), numpy.zeros((shape[0], shape[1] + 1)))
    P = pipeline.build(ctx, conv, shape, bounds=bounds, as_coords=as_coords, nan_cells=nan_cells,
                       data=data, mesh_opts=mesh_opts, coord_dtype=coord_dtype)
    cv = P.convention
    N = P.ncells
    ctx.note('config', dict(conv=conv, shape=str(shape), bounds=bounds, layout=layout))
    if layout in ('extra_first', 'transposed'):
        # earlier on the same convention: a variable that is on no grid was offered and refused, the depth coordinates
        # were looked for (which offers every variable)
        import xarray as _xr
        for dims_ in (('k',), ('t', 'k')):
            try:
                cv.ravel(_xr.DataArray(numpy.zeros((2,) * len(dims_)), dims=dims_))
            except ValueError:
                pass
        try:
            cv.depth_coordinates
        except Exception:
            pass
    snap = snapshot(P.ds)

    polygons = cv.polygons
    ctx.check(len(polygons) == N, 'one polygon slot per cell (holes keep their slot)')
    mask = cv.mask
    centres = cv.face_centres if (P.centre is not None or not ctx.symbolic) else None
    flat = cv.ravel(P.ds['temp']).values
    face_kind = cv.default_grid_kind
    ctx.check(cv.grid_size[face_kind] == N, 'grid size equals the number of polygon slots')

    for n in range(N):
        idx = cv.wind_index(n)
        ctx.check(tuple(idx) == tuple(P.native(n)), 'wind_index(n) is the row-major native index')
        present = polygons[n] is not None
        ctx.check(Iff(present, And(Not(P.hole(n)), P.valid_ref(ctx, n))), 'polygon n is missing exactly when cell n has missing coordinates')
        ctx.check(bool(mask[n]) == present, 'mask[n] says whether polygon n exists')
        if present:
            ctx.check(pipeline.ring_matches(geo.poly_coords(polygons[n]), P.corners(n)),
                      "polygon n is built from cell n's own coordinates")
        if centres is not None and P.centre is not None:
            cx, cy = P.centre(n)
            ctx.check(And(same(centres[n][0], cx), same(centres[n][1], cy)), 'face centre n belongs to cell n')
        # flattened data and selection by native index agree with direct indexing
        sel = dict(zip(P.grid_dims['face'], (idx[-2:] if conv != 'ugrid' else idx[-1:])))
        picked = cv.select_index(idx)
        ctx.check('temp' in picked.data_vars, 'selected dataset keeps the face-grid variable')
        pv = picked['temp'].values
        oks = []
        for t in (range(2) if 't' in ddims else [None]):
            src_sel = dict(sel)
            if t is not None:
                src_sel['t'] = t
            src = values[tuple(src_sel[d] for d in ddims)]
            fl = flat[(t, n)] if t is not None else flat[n]
            pk = pv[t] if t is not None else pv[()]
            oks.append(same(fl, src))
            oks.append(same(pk, src))
        ctx.check(And(*oks), 'element n of the flattened variable == value selected by the native index of n')
        if conv == 'shoc_standard':
            ctx.check('u1' not in picked.data_vars, 'variables on another grid are absent from a face selection')

    # every cell selected in one call, in linear order: entry n is cell n
    picked_all = cv.select_indexes([cv.wind_index(n) for n in range(N)])
    pa = picked_all['temp']
    other = [d for d in ddims if d not in P.grid_dims['face']]
    ok_dims = tuple(pa.dims) == tuple([d if d in other else 'index' for d in ddims if d in other or d == [g for g in ddims if g in P.grid_dims['face']][0]])
    ctx.check(ok_dims and pa.sizes['index'] == N, 'selecting every cell in one call gives one entry per cell')
    if ok_dims and pa.sizes['index'] == N:
        oks = []
        for n in range(N):
            for t in (range(2) if 't' in ddims else [None]):
                got = pa.values[tuple({'t': t, 'index': n}[d] for d in pa.dims)]
                oks.append(same(got, flat[(t, n)] if t is not None else flat[n]))
        ctx.check(And(*oks), 'entry n of a selection of every cell is element n of the flattened variable')
    # the order is a function of the dataset: reading it must not disturb the dataset, and a convention bound
    # afterwards to the same dataset sees the same cells in the same slots
    ctx.check(unchanged(P.ds, snap), 'reading geometry / selecting leaves the dataset as it was')
    cv2 = type(cv)(P.ds, **(dict(latitude='gy', longitude='gx') if pipeline.EXPLICIT_NAMES else {}))
    polygons2 = cv2.polygons
    oks = [len(polygons2) == N]
    for n in range(N):
        oks.append((polygons2[n] is None) == (polygons[n] is None))
        if polygons2[n] is not None and polygons[n] is not None:
            oks.append(pipeline.ring_matches(geo.poly_coords(polygons2[n]), P.corners(n)))
    ctx.check(And(*oks), 'a convention bound later to the same dataset reports the same polygons in the same slots')

    # the spatial index is built over the full array: tree positions are linear indexes
    tree = cv.strtree
    geoms = tree.geometries
    ctx.check(len(geoms) == N, 'spatial index built over every slot (holes included)')
    ctx.check(all((geoms[n] is None) == (polygons[n] is None) for n in range(N)), 'holes are not compacted away')
    if ctx.symbolic:
        ctx.check(all(geoms[n] is polygons[n] for n in range(N)), 'tree position n holds polygon n')
    else:
        oks = []
        for n in range(N):
            if polygons[n] is not None and polygons[n].is_valid and polygons[n].area > 0:
                hits = tree.query(polygons[n].representative_point(), predicate='intersects')
                oks.append(n in set(int(h) for h in hits))
                oks.append(all(polygons[int(h)].intersects(polygons[n].representative_point()) for h in hits))
        ctx.check(all(oks), 'spatial index hits are linear indexes of the intersecting polygons')
    # a lookup whose spatial-index hit is position n reports cell n - every n, the first one included
    for n in range(N):
        if polygons[n] is None:
            continue
        if ctx.symbolic:
            cv.__dict__['strtree'] = _OneHit(geoms, n)
            pt = geo.SymPoint(0, 0)
        else:
            if not (polygons[n].is_valid and polygons[n].area > 0):
                continue
            pt = polygons[n].representative_point()
        item = cv.get_index_for_point(pt)
        ctx.check(item is not None and int(item.linear_index) == n and tuple(item.index) == tuple(P.native(n))
                  and item.polygon is polygons[n], 'a point lookup that hits position n reports cell n (linear index, native index, polygon)')
        if not ctx.symbolic:
            # touching counts: each corner of the cell - also one on the outer edge of the model - is found in a cell
            # that touches it (real GEOS, exact coordinates)
            import shapely
            for x, y in list(polygons[n].exterior.coords)[:-1]:
                corner = shapely.Point(x, y)
                found = cv.get_index_for_point(corner)
                ctx.check(found is not None and found.polygon is polygons[int(found.linear_index)] and bool(found.polygon.intersects(corner)),
                          'a corner of a cell (also on the outer edge of the model) is found in a cell that touches it')
    if ctx.symbolic:
        cv.__dict__['strtree'] = tree
    else:
        # the older, deprecated way to ask the same question (Convention.spatial_index) answers with the same cells
        import warnings as _w
        with _w.catch_warnings():
            _w.simplefilter('ignore')
            old = cv.spatial_index
            oks = []
            for n in range(N):
                if polygons[n] is None or not (polygons[n].is_valid and polygons[n].area > 0):
                    continue
                found = [it for _, it in old.query(polygons[n].representative_point()) if it.polygon.intersects(polygons[n].representative_point())]
                oks.append(any(int(it.linear_index) == n and it.polygon is polygons[n] and tuple(it.index) == tuple(P.native(n)) for it in found)
                           and all(polygons[int(it.linear_index)] is it.polygon for it in found))
        ctx.check(all(oks), 'the deprecated spatial index reports the linear index, native index and polygon of the same cells')


def body_large(ctx):
    """A grid with more than 2**15 cells whose native indexes arrive as narrow numpy integers (read from a table of
    stations): position n of the flattened variable, polygon n and the selection by index are the same cell."""
    from emsarray.conventions.grid import CFGrid1D
    ny, nx = 257, 258
    vals = numpy.arange(ny * nx, dtype=float).reshape(ny, nx) * 0.5
    ds = pipeline.builders.cf1d(ny, nx, lat=numpy.linspace(-40.0, -10.0, ny), lon=numpy.linspace(110.0, 160.0, nx), data_vars={'temp': (('y', 'x'), vals)})
    cv = CFGrid1D(ds)
    flat = cv.ravel(ds['temp']).values
    k = int(ctx.int('station', 0, 5))
    j, i = [(0, 0), (109, 67), (110, 7), (150, 257), (256, 0), (256, 257)][k]
    if k == 0:
        # every polygon of the large grid against the independent reference (more than 2**16 cells)
        from harness import geomref
        ref = geomref.check(ctx, ds, cv)
        centres = cv.face_centres
        ctx.check(all(ref[n].contains(__import__('shapely').Point(*centres[n])) for n in (0, 1, 4095, 4096, 16384, 65535, 65536, 65537, ny * nx - 1)),
                  'face centre n belongs to cell n')
        # a mesh with faces of nine and twelve nodes, and a node shared by nine faces
        from emsarray.conventions.ugrid import UGrid
        for mesh in ('nonagon', 'fan9', 'poly34567'):
            md = pipeline.builders.ugrid(mesh, fill='nan' if mesh != 'fan9' else 'none')
            mc = UGrid(md)
            geomref.check(ctx, md, mc)
            import shapely as _sh
            for n, poly in enumerate(mc.polygons):
                item = mc.get_index_for_point(poly.representative_point())
                ctx.check(item is not None and int(item.linear_index) == n, 'a point lookup that hits position n reports cell n (linear index, native index, polygon)')
    for dt in (numpy.int16, numpy.int32, numpy.uint16, numpy.int64):
        idx = (dt(j), dt(i))
        n = cv.ravel_index(idx)
        ctx.check(int(n) == j * nx + i, 'linear index of a native index held in a narrow integer type is its row-major position')
        ctx.check(float(flat[int(n)]) == float(vals[j, i]) and float(cv.select_index(idx)['temp'].values) == float(vals[j, i]),
                  'element n of the flattened variable == value selected by the native index of n')
        ctx.check(tuple(int(v) for v in cv.wind_index(int(n))) == (j, i), 'wind_index(ravel_index(idx)) == idx')


class _OneHit:
    """STRtree contract for a point inside exactly one cell: query(...) == [n]."""
    def __init__(self, geometries, n):
        self.geometries, self.n = geometries, n

    def query(self, geometry, predicate=None, distance=None):
        return numpy.array([self.n], dtype=numpy.intp)


def cases(tier):
    q = tier == 'quick'
    P = pipeline.patches('all')
    cfgs = []
    # (conv, shape, bounds, as_coords, layout, nan_cells)
    for layout in ('plain', 'extra_first') + (() if q else ('transposed', 'extra_mid', 'extra_last')):
        cfgs += [('cf1d', (2, 3), 'none', True, layout, ()), ('cf1d', (3, 2), 'stored', False, layout, ())]
        cfgs += [('cf2d', (2, 3), 'stored', True, layout, None), ('cf2d', (2, 2), 'none', True, layout, None)]
        cfgs += [('shoc_simple', (2, 2), 'stored', True, layout, None)]
        cfgs += [('shoc_standard', (2, 2), 'none', True, layout, ((0, 0), (1, 1), (2, 2), (0, 2)))]
    cfgs += [('cf2d', (2, 3), 'misdim', True, 'plain', ((0, 1),)), ('cf1d', (2, 3), 'misdim', True, 'plain', ()),
             ('cf2d', (3, 2), 'none', False, 'transposed', ((0, 0), (1, 1), (2, 0))),
             ('shoc_standard', (2, 3), 'none', True, 'transposed', ((1, 1), (1, 2), (2, 3)))]
    if not q:
        cfgs += [('cf1d', (2, 4), 'none', True, 'transposed', ()), ('cf1d', (4, 2), 'stored', True, 'plain', ()),
                 ('cf2d', (3, 3), 'stored', False, 'plain', ((0, 0), (1, 1), (2, 2), (0, 2), (2, 1))),
                 ('cf2d', (2, 3), 'none', True, 'plain', None),
                 ('cf2d', (3, 3), 'none', True, 'plain', ((0, 0), (1, 1), (2, 2), (0, 1), (1, 0))),
                 ('shoc_simple', (3, 2), 'none', True, 'extra_first', None),
                 ('shoc_standard', (3, 3), 'none', True, 'plain', ((0, 0), (1, 1), (2, 2), (3, 3), (1, 2))),
                 ('shoc_standard', (2, 2), 'none', False, 'plain', None)]
    # the data variables listed before the geometry variables (variable order in a file is arbitrary)
    for conv, shape, bounds in (('shoc_simple', (2, 2), 'stored'), ('cf2d', (2, 2), 'stored'), ('cf1d', (2, 3), 'none'), ('shoc_standard', (2, 2), 'none')):
        yield Case(f'{conv}:{shape[0]}x{shape[1]}:{bounds}:vars:plain:datafirst', body,
                   dict(conv=conv, shape=shape, bounds=bounds, as_coords=False, layout='plain', nan_cells=(), data_first=True),
                   patches=P, max_paths=500)
    yield Case('cf1d:257x258:narrow-integer-indexes', body_large, dict(), max_paths=10)
    # coordinate variables named by the caller
    for conv, shape, bounds in (('cf1d', (2, 3), 'none'), ('cf2d', (3, 2), 'stored')):
        yield Case(f'{conv}:{shape[0]}x{shape[1]}:{bounds}:vars:plain:explicit-names', body,
                   dict(conv=conv, shape=shape, bounds=bounds, as_coords=(conv == 'cf1d'), layout='plain', nan_cells=() if conv == 'cf1d' else None, explicit=True),
                   patches=P, max_paths=5000, split=16)
    # whole-number axes stored in an integer type (see pipeline.int_coord_array: witness strength)
    for dt, layout in (('int32', 'plain'), ('int64', 'extra_first')):
        yield Case(f'cf1d:2x3:none:coords:{layout}:nan0:{dt}-coordinates', body,
                   dict(conv='cf1d', shape=(2, 3), bounds='none', as_coords=True, layout=layout, nan_cells=(), coord_dtype=dt), patches=P, max_paths=5000, split=16)
    # stored bounds held as xarray coordinates
    for conv, shape in (('cf2d', (2, 2)), ('cf1d', (2, 3)), ('shoc_simple', (2, 2))):
        yield Case(f'{conv}:{shape[0]}x{shape[1]}:stored:coords:plain:bounds-as-coordinates', body,
                   dict(conv=conv, shape=shape, bounds='stored', as_coords=True, layout='plain', nan_cells=() if conv == 'cf1d' else None,
                        bounds_coords=True), patches=P, max_paths=5000, split=16)
    for c in cfgs:
        conv, shape, bounds, as_coords, layout, nan_cells = c
        nm = 'all' if nan_cells is None else len(nan_cells)
        yield Case(f'{conv}:{shape[0]}x{shape[1]}:{bounds}:{"coords" if as_coords else "vars"}:{layout}:nan{nm}', body,
                   dict(conv=conv, shape=shape, bounds=bounds, as_coords=as_coords, layout=layout, nan_cells=nan_cells),
                   patches=P, max_paths=5000, split=16)
    # SHOC standard with the longitude variable of a grid stored (i, j) next to a latitude stored (j, i).
    # (Not the node grid: the corner arrays of x_grid / y_grid are stacked as stored and a mixed layout is refused
    # with a ValueError - an input the convention does not support, not a wrong answer.)
    for kinds in ((('face',),) if q else (('face',), ('face', 'left', 'back'))):
        for layout in ('plain', 'transposed'):
            yield Case(f'shoc_standard:2x3:none:coords:{layout}:nan2:xT={"+".join(kinds)}', body,
                       dict(conv='shoc_standard', shape=(2, 3), bounds='none', as_coords=True, layout=layout, nan_cells=((1, 1), (2, 3)),
                            mesh_opts=dict(x_transposed=kinds)), patches=P, max_paths=5000, split=16)
    meshes = ['tqp', 'tq', 'fan'] if q else ['tqp', 'tq', 'fan', 'qqq']
    for mesh in meshes:
        for mo in (dict(), dict(start_index=1, fill='attr', face_centres=True),
                   dict(transposed=True, supply=('edge_node',), face_centres=True),
                   # unsigned tables with the all-ones fill value kept as an attribute (in-memory / mask_and_scale=False)
                   dict(fill='attr', dtype='uint32', fill_value=4294967295), dict(fill='attr', dtype='uint16', fill_value=65535, start_index=1),
                   # start_index stored as the text "0" / "1"
                   dict(start_index=0, start_index_as_text=True), dict(start_index=1, fill='attr', fill_value=0, start_index_as_text=True)):
            if mo.get('dtype', '').startswith('uint') and mesh in ('fan', 'qqq'):
                continue
            if mesh in ('fan', 'qqq') and mo.get('fill') == 'attr':
                mo = dict(mo, fill='none')
            for layout in (('plain',) if (q and mesh == 'fan') else ('plain', 'extra_first', 'extra_last')):
                tag = '+'.join(f'{k}={v}' for k, v in mo.items()) or 'default'
                yield Case(f'ugrid:{mesh}:{tag}:{layout}', body,
                           dict(conv='ugrid', shape=mesh, bounds='none', as_coords=False, layout=layout, mesh_opts=mo),
                           patches=P, max_paths=100)


def functions():
    from emsarray import utils
    from emsarray.conventions import _base, grid, arakawa_c, ugrid
    return [_base.Convention.polygons.func.__wrapped__ if hasattr(_base.Convention.polygons.func, '__wrapped__') else _base.Convention.polygons.func,
            _base.Convention.mask.func, _base.Convention.strtree.func, _base.Convention.face_centres.func,
            _base.Convention.select_index, _base.Convention.select_indexes, _base.DimensionConvention.ravel,
            _base.DimensionConvention.selector_for_indexes, _base.DimensionConvention.wind_index,
            utils.make_polygons_with_holes, utils.ravel_dimensions, utils.extract_vars,
            grid.CFGrid1D._make_polygons, grid.CFGrid2D._make_polygons, grid.CFGrid1DTopology._get_or_make_bounds,
            grid.CFGrid2DTopology._get_or_make_bounds, grid.CFGrid1D.face_centres.func, grid.CFGrid2D.face_centres.func,
            arakawa_c.ArakawaC._make_polygons, arakawa_c.ArakawaC.face_centres.func,
            ugrid.UGrid._make_polygons, ugrid.UGrid.face_centres.func, ugrid.Mesh2DTopology._to_index_array]


def run(tier, seed=0, replay=None, procs=None, only=None):
    if replay:
        return replay_file(replay, list(cases('thorough')) + list(cases('quick')))
    cs = list(cases(tier))
    if only:
        cs = [c for c in cs if re.search(only, c.name)]
    q = tier == 'quick'
    return main_run(
        PROP, tier, cs, functions=functions(), seed=seed, procs=procs,
        bounds=dict(
            grids=f'CF 1-D 2x3/3x2{"" if q else "/2x4/4x2"} (derived and stored bounds), CF 2-D / SHOC simple 2x2..'
                  f'{"3x2" if q else "3x3"} (stored and derived bounds, symbolic missing cells), SHOC standard 2x2..'
                  f'{"2x3" if q else "3x3"} (symbolic missing nodes), meshes of 2-4 faces x 3 encodings',
            symbolic='every coordinate, bounds, node and data value: Real (+NaN flag where holes are allowed); '
                     'lat/lon of one cell or node share a NaN flag',
            layouts='data variable with the grid dimensions in plain/transposed order and an extra dimension first/middle/last',
            outside='invalid (self-intersecting) cells (C06); GEOS; IEEE rounding; larger shapes'),
        stubs=['shapely.polygons(coords, indices=, out=) -> records the ring it is given at out[indices]',
               'shapely.is_valid -> True for every built polygon (validity is decided in C06)',
               'STRtree(geoms) -> records the array it is built from',
               'numpy.isnan/isfinite/nanmean on object arrays -> fork on NaN flags',
               'UGRID face centres from centroids are checked in replay only (GEOS)'],
        assumptions=['floats are reals plus a NaN flag (no rounding, no infinities)',
                     'every path witness is replayed on the unmodified stack (real shapely / STRtree) with tolerance 1e-9'],
    )
