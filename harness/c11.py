"""C11 - convention detection and binding are deterministic and stable.

(a) The registry: each registered class answers check_dataset with a symbolic
    specificity (None or an unbounded Int); the real match_conventions /
    guess_convention sort them (comparisons fork).
(b) The detectors: the attribute values a detector reads are symbolic (strings
    from a finite universe of spellings, topology_dimension an unbounded Int),
    the presence of distinguishing variables is a symbolic Bool.
(c) Binding histories: short sequences of {access accessor, construct+bind,
    copy, access on copy, bind again} chosen by symbolic selectors.
"""
import itertools
import re

import numpy
import xarray
import z3

from symx import builders, env
from symx.core import And, HarnessError, Iff, Implies, Not, Or, SymBool, SymInt, SymStr, same
from symx.runner import Case, main_run, replay_file

PROP = 'C11'


# ---- (a) -------------------------------------------------------------------------------------

def make_stub_class(name, spec_holder, rename=True):
    from emsarray.conventions._base import Convention

    class Stub(Convention):
        tag = name

        @classmethod
        def check_dataset(cls, dataset):
            return spec_holder[cls.tag]
    if rename:
        Stub.__name__ = Stub.__qualname__ = name
    # rename=False: classes made by a factory (a loop, a re-executed notebook cell) share module and qualified name;
    # they are still different conventions
    return Stub


def body_registry(ctx, n_manual, n_entry, order, rename=True, also_entry=False):
    from emsarray.conventions._registry import ConventionRegistry
    names = [f'M{k}' for k in range(n_manual)] + [f'E{k}' for k in range(n_entry)]
    spec = {}
    matches, values = {}, {}
    for nm in names:
        m = ctx.bool(f'match_{nm}')
        v = ctx.int(f'spec_{nm}')
        matches[nm], values[nm] = m, v
    # whether a class matches is decided here (forks): check_dataset returns None or the specificity
    for nm in names:
        spec[nm] = values[nm] if bool(matches[nm]) else None
    classes = {nm: make_stub_class(nm, spec, rename) for nm in names}
    reg = ConventionRegistry()
    manual = [nm for nm in names if nm.startswith('M')]
    entry = [nm for nm in names if nm.startswith('E')]
    reg.__dict__['entry_point_conventions'] = [classes[nm] for nm in entry]
    if also_entry and manual:
        # the first manually registered class is also known through an entry point (a built-in convention registered by
        # hand to give it priority): it is listed last among the entry points, and still wins ties as a manual one
        reg.__dict__['entry_point_conventions'] = [classes[nm] for nm in entry] + [classes[manual[0]]]
    perm = list(itertools.permutations(manual))[order % max(1, len(list(itertools.permutations(manual))))] if manual else ()
    for nm in perm:
        reg.add_convention(classes[nm])
    ds = xarray.Dataset()
    chosen = reg.guess_convention(ds)
    live = [nm for nm in names if spec[nm] is not None]
    if not live:
        ctx.check(chosen is None, 'a dataset nothing matches is refused (None)')
        return
    ctx.check(chosen is not None, 'a matching convention is chosen')
    cn = chosen.tag
    ctx.check(cn in live, 'the chosen convention matched the dataset')
    ctx.check(And(*[values[cn] >= values[o] for o in live]), 'the chosen convention has the highest specificity')
    # a manually registered convention wins ties
    for o in live:
        if o.startswith('M') and not cn.startswith('M'):
            ctx.check(values[cn] > values[o], 'a manually registered convention wins ties against entry-point conventions')
    # determinism and independence of non-matching registrations
    ctx.check(reg.guess_convention(ds) is chosen, 'the same answer on repetition')
    spec['Extra'] = None
    reg.add_convention(make_stub_class('Extra', spec, rename))
    ctx.check(reg.guess_convention(ds) is chosen, 'registering a convention that does not match changes nothing')
    ml = reg.match_conventions(ds)
    ctx.check([c.tag for c, s in ml if True] and And(*[a[1] >= b[1] for a, b in zip(ml, ml[1:])]) if len(ml) > 1 else True,
              'match_conventions lists matches from most to least specific')


# ---- (b) -------------------------------------------------------------------------------------

CONV_SPELLINGS = ['UGRID-1.0', 'CF-1.8, UGRID-1.0', 'UGRID', 'CF-1.8', 'ugrid-1.0', 'CMR/Timeseries/SHOC', '']
ROLE_SPELLINGS = ['mesh_topology', 'mesh_topology_contact', 'Mesh_Topology', 'face_node_connectivity', '']


def _ugrid_patches():
    from emsarray.conventions import ugrid
    return env.patched((ugrid, 'str', lambda x='': x if isinstance(x, SymStr) else str(x)))


def body_ugrid_detector(ctx):
    from emsarray.conventions.ugrid import UGrid
    conv = ctx.string('Conventions', CONV_SPELLINGS)
    role = ctx.string('cf_role', ROLE_SPELLINGS)
    td = ctx.int('topology_dimension')
    has_attr = ctx.bool('has_conventions_attr')
    has_td = ctx.bool('has_topology_dimension')
    ds = builders.ugrid('tq')
    ds['mesh'].attrs['cf_role'] = role
    if bool(has_td):
        ds['mesh'].attrs['topology_dimension'] = td
    else:
        ds['mesh'].attrs.pop('topology_dimension', None)      # a mesh variable that does not say it is 2-D
    # netCDF attributes need not be strings: a number, or several strings (a list / array attribute)
    form = int(ctx.int('conventions_attr_form', 0, 4))
    other = {1: 1.6, 2: numpy.float32(1.6), 3: ['CF-1.8', 'UGRID-1.0'], 4: numpy.array(['CF-1.8', 'Deltares-0.10'])}
    if bool(has_attr):
        ds.attrs['Conventions'] = conv if form == 0 else other[form]
    else:
        ds.attrs.pop('Conventions', None)
    got = UGrid.check_dataset(ds)
    if form == 0:
        marker = And(has_attr, conv.__contains__('UGRID')) if ctx.symbolic else (bool(has_attr) and 'UGRID' in conv)
    else:
        marker = And(has_attr, form == 3)      # the marker is in the text of the attribute only for the list naming UGRID
    is_mesh = (role == 'mesh_topology')
    two_d = And(has_td, same(td, 2))
    ctx.check(Iff(got is not None, And(marker, is_mesh, two_d)),
              'UGRID matches exactly with its Conventions marker and a mesh variable of topology dimension 2')
    if got is not None:
        ctx.check(int(got) == 30, 'UGRID matches with high specificity')


UNIT_SPELLINGS = ['degrees_north', 'degree_N', 'degrees_east', 'degreeE', 'm', 'Degrees_North', '']
STD_SPELLINGS = ['latitude', 'longitude', 'Latitude', 'depth', '']
AXIS_SPELLINGS = ['Y', 'X', 'Z', 'y', '']


def body_cf_detector(ctx, rank):
    """CF grids: a latitude and a longitude variable are found by units / standard_name / axis; rank decides 1-D vs 2-D."""
    from emsarray.conventions.grid import CFGrid1D, CFGrid2D
    ny, nx = 2, 3
    attrs = {}
    truth = {}
    for var, want in (('a', 'lat'), ('b', 'lon')):
        u = ctx.string(f'{var}_units', UNIT_SPELLINGS)
        s = ctx.string(f'{var}_standard_name', STD_SPELLINGS)
        ax = ctx.string(f'{var}_axis', AXIS_SPELLINGS)
        attrs[var] = dict(units=u, standard_name=s, axis=ax)
        lat_units = {'degrees_north', 'degree_north', 'degree_N', 'degrees_N', 'degreeN', 'degreesN'}
        lon_units = {'degrees_east', 'degree_east', 'degree_E', 'degrees_E', 'degreeE', 'degreesE'}
        truth[var] = dict(
            lat=Or(u._where(lambda v: v in lat_units), s == 'latitude', ax == 'Y') if ctx.symbolic else (u in lat_units or s == 'latitude' or ax == 'Y'),
            lon=Or(u._where(lambda v: v in lon_units), s == 'longitude', ax == 'X') if ctx.symbolic else (u in lon_units or s == 'longitude' or ax == 'X'))
    if rank in (0, '01'):
        # coordinates that have become scalars (dataset.isel(lat=0)) still carry their CF attributes: no grid is left
        ds = xarray.Dataset({'a': ((), 10.0, attrs['a']),
                             'b': ((), 100.0, attrs['b']) if rank == 0 else (('x',), numpy.arange(nx, dtype=float), attrs['b']),
                             'temp': (('y', 'x'), numpy.zeros((ny, nx)))})
    elif rank == 1:
        ds = xarray.Dataset({'a': (('y',), numpy.arange(ny, dtype=float), attrs['a']), 'b': (('x',), numpy.arange(nx, dtype=float), attrs['b']),
                             'temp': (('y', 'x'), numpy.zeros((ny, nx)))})
    else:
        ds = xarray.Dataset({'a': (('y', 'x'), numpy.zeros((ny, nx)), attrs['a']), 'b': (('y', 'x'), numpy.ones((ny, nx)), attrs['b']),
                             'temp': (('y', 'x'), numpy.zeros((ny, nx)))})
    has_lat = Or(truth['a']['lat'], truth['b']['lat'])
    has_lon = Or(truth['a']['lon'], truth['b']['lon'])
    g1, g2 = CFGrid1D.check_dataset(ds), CFGrid2D.check_dataset(ds)
    if rank in (0, '01'):
        # (a variable that is both the latitude and the longitude candidate is its own business: require distinct roles)
        ctx.check(Implies(And(truth['a']['lat'], truth['b']['lon']), And(g1 is None, g2 is None)),
                  'scalar latitude / longitude coordinates do not make a CF grid')
        return
    ctx.check(Iff((g1 if rank == 1 else g2) is not None, And(has_lat, has_lon)),
              'a CF grid is detected exactly when a latitude and a longitude coordinate can be identified')
    ctx.check((g2 if rank == 1 else g1) is None, 'coordinate rank separates 1-D from 2-D CF grids')
    for g in (g1, g2):
        if g is not None:
            ctx.check(int(g) == 10, 'generic CF grids match with low specificity')


def body_end_to_end(ctx, kind):
    """Full detection through the real registry and accessor; distinguishing pieces are removed by symbolic choice."""
    import emsarray
    from emsarray.conventions import get_dataset_convention
    drop = ctx.bool('remove_distinguishing_piece')
    removed = bool(drop)
    if kind == 'cf1d':
        ds = builders.cf1d(2, 3, data_vars={'t': (('y', 'x'), numpy.zeros((2, 3)))})
        expect = 'CFGrid1D'
        if removed:
            ds['lat'].attrs.clear()
            expect = None
    elif kind == 'cf2d':
        ds = builders.cf2d(2, 3)
        expect = 'CFGrid2D'
        if removed:
            ds['lon'].attrs.clear()
            expect = None
    elif kind == 'shoc_simple':
        ds = builders.shoc_simple(2, 3)
        expect = 'ShocSimple'
        if removed:
            del ds.attrs['ems_version']
            expect = 'CFGrid2D'
    elif kind in ('shoc_simple_i', 'shoc_simple_j'):
        # a SHOC simple file needs both of its dimensions j and i: with one of them renamed it is a plain CF grid
        ds = builders.shoc_simple(2, 3)
        expect = 'ShocSimple'
        if removed:
            ds = ds.rename_dims({'i': 'x'} if kind.endswith('_i') else {'j': 'y'})
            expect = 'CFGrid2D'
    elif kind in ('shoc_standard_xgrid', 'shoc_standard_ycentre'):
        # every one of the eight coordinate variables is required
        ds = builders.shoc_standard(2, 3)
        expect = 'ShocStandard'
        if removed:
            ds = ds.drop_vars('x_grid' if kind.endswith('xgrid') else 'y_back')
            expect = 'CFGrid2D'
    elif kind == 'shoc_standard':
        ds = builders.shoc_standard(2, 3)
        expect = 'ShocStandard'
        if removed:
            ds = ds.drop_vars('x_left')
            expect = 'CFGrid2D'
    elif kind == 'ugrid_marker':
        ds = builders.ugrid('tq')
        expect = 'UGrid'
        if removed:
            ds.attrs['Conventions'] = 'CF-1.8'
            expect = 'not UGrid'
    elif kind == 'ugrid_mesh':
        ds = builders.ugrid('tq')
        expect = 'UGrid'
        if removed:
            ds['mesh'].attrs['topology_dimension'] = 3
            expect = 'not UGrid'
    elif kind == 'nothing':
        ds = xarray.Dataset({'v': (('a',), numpy.zeros(3))})
        expect = None
    elif kind == 'shoc_standard_after_custom_names':
        # SHOC standard files keep their predefined coordinate names, whatever names another dataset was opened with
        from emsarray.conventions.arakawa_c import ArakawaCGridKind as K
        from emsarray.conventions.shoc import ShocStandard
        other = builders.shoc_standard(2, 2)
        pairs = {K.node: ('y_grid', 'x_grid'), K.back: ('y_back', 'x_back'), K.face: ('y_centre', 'x_centre'), K.left: ('y_left', 'x_left')}
        other = other.rename({n: n + '_alt' for p in pairs.values() for n in p})
        custom = ShocStandard(other, coordinate_names={k: (a + '_alt', b + '_alt') for k, (a, b) in pairs.items()})
        ctx.check(len(custom.polygons) == 4, 'a SHOC dataset with other coordinate names can be opened by naming them')
        ds = builders.shoc_standard(2, 3)
        expect = 'ShocStandard'
        if removed:
            ds = ds.drop_vars('x_left')
            expect = 'CFGrid2D'
    elif kind.startswith('shoc_simple_version_'):
        # the ems_version attribute marks a SHOC file whatever its value (an empty text, a zero)
        ds = builders.shoc_simple(2, 3)
        ds.attrs['ems_version'] = {'empty': '', 'zero': 0, 'npzero': numpy.int32(0), 'false': 'False', 'blank': ' '}[kind.rsplit('_', 1)[1]]
        expect = 'ShocSimple'
        if removed:
            del ds.attrs['ems_version']
            expect = 'CFGrid2D'
    elif kind == 'cf2d_rotated_axes':
        # a rotated-pole file: 1-D rlat / rlon axes (standard names grid_latitude / grid_longitude, units degrees)
        # stored ahead of the true 2-D latitude / longitude
        jj, ii = numpy.meshgrid(numpy.arange(2.0), numpy.arange(3.0), indexing='ij')
        ds = xarray.Dataset(
            {'rlat': (('rlat',), numpy.array([-1.0, 1.0]), {'standard_name': 'grid_latitude', 'units': 'degrees'}),
             'rlon': (('rlon',), numpy.array([-2.0, 0.0, 2.0]), {'standard_name': 'grid_longitude', 'units': 'degrees'}),
             'lat': (('rlat', 'rlon'), 10.0 + jj + 0.1 * ii, {'standard_name': 'latitude', 'units': 'degrees_north'}),
             'lon': (('rlat', 'rlon'), 100.0 + ii - 0.1 * jj, {'standard_name': 'longitude', 'units': 'degrees_east'}),
             't': (('rlat', 'rlon'), numpy.zeros((2, 3)))})
        expect = 'CFGrid2D'
        if removed:
            ds = ds.drop_vars(['lat', 'lon'])
            expect = None
    elif kind.startswith('shoc_standard_longname'):
        # a coordinate replaced by a variable whose (longer) name starts the same way: still a near miss
        ds = builders.shoc_standard(2, 3)
        expect = 'ShocStandard'
        if removed:
            old = {'shoc_standard_longname_ycentre': 'y_centre', 'shoc_standard_longname_xcentre': 'x_centre', 'shoc_standard_longname_xgrid': 'x_grid'}[kind]
            ds = ds.rename({old: old + '2'})
            ds[old + '_as_it_was_in_the_previous_release_of_the_model'] = ds[old + '2']
            expect = 'CFGrid2D'
    elif kind.startswith('many_registered'):
        # many extra conventions that all match, registered by hand: highest specificity first, earliest on ties
        from emsarray.conventions import _registry, register_convention
        from emsarray.conventions.grid import CFGrid1D
        specs = {'many_registered_below': [9] + [8, 7, 6, 5, 4, 3, 2, 1, 1, 1, 1, 1, 1],
                 'many_registered_ties': [3, 10, 10, 10, 10, 10, 10, 10, 10, 10, 10, 10, 10],
                 'many_registered_late_winner': [11, 11, 11, 11, 11, 11, 11, 11, 11, 11, 11, 11, 12, 11],
                 'many_registered_mixed': [1, 9, 2, 8, 3, 7, 4, 6, 5, 5, 6, 4, 7, 3, 8, 2, 9, 1, 31, 30]}[kind]
        ds = builders.cf1d(2, 3)
        reg = _registry.registry
        before = list(reg.registered_conventions)
        classes = []
        for k, sp in enumerate(specs):
            classes.append(type(f'Extra{k:02d}', (CFGrid1D,), {'check_dataset': classmethod(lambda cls, dataset, _sp=sp: _sp if not removed else None)}))
        try:
            for c in classes:
                register_convention(c)
            cls = get_dataset_convention(ds)
            if removed:
                want = 'CFGrid1D'
            else:
                best = max(max(specs), 10)
                want = next((c.__name__ for c, sp in zip(classes, specs) if sp == best), 'CFGrid1D')
            ctx.check(cls is not None and cls.__name__ == want, f'{kind}: the matching convention with the highest specificity is chosen (earliest registered on ties)')
            ctx.check(type(ds.ems).__name__ == want, 'the accessor binds the detected convention')
        finally:
            reg.registered_conventions[:] = before
            try:
                del reg.conventions
            except AttributeError:
                pass
        return
    elif kind == 'thin_subclass':
        # an extra convention written as a small subclass of a built-in one: it only swaps the topology helper and
        # inherits everything else, detection included
        from functools import cached_property
        from emsarray.conventions import _registry
        from emsarray.conventions.grid import CFGrid2D, CFGrid2DTopology

        class NavTopology(CFGrid2DTopology):
            @cached_property
            def latitude_name(self):
                if 'nav_lat' in self.dataset.variables:
                    return 'nav_lat'
                raise ValueError('no nav_lat')

            @cached_property
            def longitude_name(self):
                if 'nav_lon' in self.dataset.variables:
                    return 'nav_lon'
                raise ValueError('no nav_lon')

        class NavGrid(CFGrid2D):
            topology_class = NavTopology
        jj, ii = numpy.meshgrid(numpy.arange(2.0), numpy.arange(3.0), indexing='ij')
        ds = xarray.Dataset({'nav_lat': (('y', 'x'), 10 + jj), 'nav_lon': (('y', 'x'), 100 + ii), 't': (('y', 'x'), numpy.zeros((2, 3)))})
        expect = 'NavGrid'
        if removed:
            ds = ds.drop_vars('nav_lat')
            expect = None
        reg = _registry.registry
        before = list(reg.registered_conventions)
        # detection has been used before the extra convention is registered (through the public function)
        get_dataset_convention(builders.cf1d(2, 2))
        from emsarray.conventions import register_convention
        register_convention(NavGrid)
        try:
            cls = get_dataset_convention(ds)
            ctx.check((cls.__name__ if cls else None) == expect, f'{kind}: detected convention')
            plain = builders.cf2d(2, 3)
            got = get_dataset_convention(plain)
            ctx.check(got is not None and got.__name__ == 'CFGrid2D', 'a plain CF grid is not claimed by the extra convention (it finds no nav_lat / nav_lon there)')
            if expect:
                ctx.check(type(ds.ems).__name__ == expect and len(ds.ems.polygons) == 6, 'the accessor binds the detected convention')
        finally:
            reg.registered_conventions[:] = before
            try:
                del reg.conventions
            except AttributeError:
                pass
        return
    cls = get_dataset_convention(ds)
    if expect == 'not UGrid':
        # (the node coordinates alone still make it a generic CF grid; it must just not be taken for a mesh)
        ctx.check(cls is None or cls.__name__ != 'UGrid', f'{kind}: UGRID only with its Conventions marker and a 2-D mesh variable')
        expect = cls.__name__ if cls else None
    ctx.check((cls.__name__ if cls else None) == expect, f'{kind}: detected convention')
    ctx.check(get_dataset_convention(ds.copy(deep=True)) is cls, 'equal content gives the same class')
    if expect is None:
        try:
            ds.ems
            ctx.check(False, 'a dataset nothing matches is refused by the accessor')
        except RuntimeError:
            ctx.check(True, 'a dataset nothing matches is refused by the accessor')
        if kind in ('cf1d', 'cf2d') and removed:
            # the same Dataset object completed in place afterwards (the attributes that were missing are added):
            # detection looks at the dataset as it is now
            target = ds['lat'] if kind == 'cf1d' else ds['lon']
            target.attrs.update(units='degrees_north' if kind == 'cf1d' else 'degrees_east', standard_name='latitude' if kind == 'cf1d' else 'longitude')
            try:
                bound = type(ds.ems).__name__
            except RuntimeError:
                bound = None
            ctx.check(bound == ('CFGrid1D' if kind == 'cf1d' else 'CFGrid2D'), 'a dataset refused earlier and completed in place is detected as what it now is')
    else:
        ctx.check(type(ds.ems).__name__ == expect, 'the accessor binds the detected convention')
    if kind in ('shoc_simple', 'shoc_standard') and not removed:
        # detection is about the content of the dataset: a copy to which another convention was bound by hand is still
        # detected as what its content says
        from emsarray.conventions.grid import CFGrid2D as _CF2
        twin = ds.copy()
        names = dict(longitude='x_centre', latitude='y_centre') if kind == 'shoc_standard' else {}
        try:
            _CF2(twin, **names).bind()
            ctx.check(get_dataset_convention(twin) is cls, 'equal content gives the same class, whatever convention was bound by hand')
        except Exception as e:
            ctx.check(False, f'binding a generic CF convention by hand to a SHOC dataset works ({type(e).__name__})')
        from emsarray.conventions.grid import CFGrid2D
        ctx.check(CFGrid2D.check_dataset(ds) is not None, 'a SHOC dataset is also a CF grid (lower specificity)')
        ctx.check(not type(ds.ems).__name__.startswith('CFGrid'), 'a SHOC dataset is never bound as a generic CF grid')


# ---- (c) -------------------------------------------------------------------------------------

OPS = ['access', 'construct_bind', 'copy', 'access_copy', 'bind_again']


def body_history(ctx, length, conv):
    from emsarray.state import State
    from emsarray.conventions.grid import CFGrid1D
    from emsarray.conventions.ugrid import UGrid
    if conv == 'cf1d':
        ds = builders.cf1d(2, 3, data_vars={'t': (('y', 'x'), numpy.zeros((2, 3)))})
        cls = CFGrid1D
    else:
        ds = builders.ugrid('tq')
        cls = UGrid
    ops = [OPS[int(ctx.int(f'op{k}', 0, len(OPS) - 1))] for k in range(length)]
    ctx.note('history', ops)
    bound = None            # the convention object bound to `ds` according to the specification
    copies = []             # [dataset copy, bound object or None]
    for op in ops:
        if op == 'access':
            c = ds.ems
            if bound is None:
                bound = c
                ctx.check(isinstance(c, cls), 'autodetected convention')
            ctx.check(c is bound, 'every later access returns the same bound object')
        elif op == 'construct_bind':
            c = cls(ds)
            try:
                c.bind()
                ok = True
            except ValueError:
                ok = False
            ctx.check(ok == (bound is None), 'binding succeeds exactly when nothing is bound yet')
            if ok:
                bound = c
        elif op == 'bind_again':
            if bound is not None:
                try:
                    bound.bind()
                    ctx.check(False, 'a second attachment is refused')
                except ValueError:
                    ctx.check(True, 'a second attachment is refused')
                ctx.check(ds.ems is bound, 'a refused attachment leaves the binding alone')
        elif op == 'copy':
            cp = ds.copy()
            ctx.check(not State.get(cp).is_bound(), 'a copy starts unbound')
            copies.append([cp, None])
        elif op == 'access_copy':
            if copies:
                cp = copies[-1]
                c = cp[0].ems
                if cp[1] is None:
                    cp[1] = c
                ctx.check(c is cp[1], 'a copy keeps its own binding')
                ctx.check(c is not bound and c.dataset is cp[0], 'copies are independent of the original')
    if bound is not None:
        ctx.check(ds.ems is bound and bound.dataset is ds, 'binding still intact at the end')
    else:
        ctx.check(not State.get(ds).is_bound(), 'nothing was bound behind our back')


def cases(tier):
    q = tier == 'quick'
    for n_manual, n_entry in ([(1, 1), (2, 1), (1, 2)] if q else [(1, 1), (2, 1), (1, 2), (2, 2), (3, 1), (0, 3), (3, 0)]):
        nperm = max(1, len(list(itertools.permutations(range(n_manual)))))
        for order in range(nperm):
            yield Case(f'registry:m{n_manual}:e{n_entry}:order{order}', body_registry,
                       dict(n_manual=n_manual, n_entry=n_entry, order=order), max_paths=20000, split=16)
            if n_manual >= 1 and (order == 0 or not q):
                yield Case(f'registry:m{n_manual}:e{n_entry}:order{order}:manual-is-also-entry-point', body_registry,
                           dict(n_manual=n_manual, n_entry=n_entry, order=order, also_entry=True), max_paths=20000, split=16)
            if n_manual + n_entry >= 3 or not q:
                yield Case(f'registry:m{n_manual}:e{n_entry}:order{order}:same-qualname', body_registry,
                           dict(n_manual=n_manual, n_entry=n_entry, order=order, rename=False), max_paths=20000, split=16)
    yield Case('detector:ugrid', body_ugrid_detector, patches=_ugrid_patches, max_paths=5000)
    for rank in (0, '01'):
        yield Case(f'detector:cf-scalar{rank}', body_cf_detector, dict(rank=rank), max_paths=100000, split=32)
    for rank in (1, 2):
        yield Case(f'detector:cf{rank}d', body_cf_detector, dict(rank=rank), max_paths=100000, split=32)
    for kind in ('cf1d', 'cf2d', 'shoc_simple', 'shoc_simple_i', 'shoc_simple_j', 'shoc_standard', 'shoc_standard_xgrid', 'shoc_standard_ycentre',
                 'ugrid_marker', 'ugrid_mesh', 'nothing'):
        yield Case(f'detect:{kind}', body_end_to_end, dict(kind=kind), max_paths=10)
    for kind in ('shoc_simple_version_empty', 'shoc_simple_version_zero', 'shoc_simple_version_npzero', 'shoc_simple_version_false', 'shoc_simple_version_blank', 'cf2d_rotated_axes',
                 'shoc_standard_longname_ycentre', 'shoc_standard_longname_xcentre', 'shoc_standard_longname_xgrid',
                 'many_registered_below', 'many_registered_ties', 'many_registered_late_winner', 'many_registered_mixed'):
        yield Case(f'detect:{kind}', body_end_to_end, dict(kind=kind), max_paths=10)
    yield Case('detect:thin_subclass', body_end_to_end, dict(kind='thin_subclass'), max_paths=10)
    yield Case('detect:shoc_standard_after_custom_names', body_end_to_end, dict(kind='shoc_standard_after_custom_names'), max_paths=10)
    for conv in ('cf1d', 'ugrid'):
        yield Case(f'history:{conv}:len{3 if q else 4}', body_history, dict(length=3 if q else 4, conv=conv), max_paths=5000, split=16)


def functions():
    from emsarray.conventions import _registry, _base, grid, shoc, arakawa_c, ugrid
    from emsarray import accessors, state
    R = _registry.ConventionRegistry
    return [R.conventions.func, R.add_convention, R.match_conventions, R.guess_convention, _registry.get_dataset_convention,
            _registry.register_convention, grid.CFGrid1D.check_dataset.__func__, grid.CFGrid2D.check_dataset.__func__,
            grid.CFGridTopology.latitude_name.func, grid.CFGridTopology.longitude_name.func,
            shoc.ShocSimple.check_dataset.__func__, arakawa_c.ArakawaC.check_dataset.__func__, ugrid.UGrid.check_dataset.__func__,
            ugrid.Mesh2DTopology.mesh_variable.func, accessors.ems_accessor, state.State, _base.Convention.bind, _base.Convention.__init__]


def run(tier, seed=0, replay=None, procs=None, only=None):
    if replay:
        return replay_file(replay, list(cases('thorough')) + list(cases('quick')))
    cs = list(cases(tier))
    if only:
        cs = [c for c in cs if re.search(only, c.name)]
    q = tier == 'quick'
    from symx import envsweep
    return main_run(
        PROP, tier, cs, functions=functions(), seed=seed, procs=procs,
        late_checks=envsweep.late([('detect_one_and_two_dimensional_candidates', 'detection is a function of the dataset',
                                    lambda v: v['axes-first'][0] == 'CFGrid1D' and v['axes-first'][2] == [2, 3] and v['fields-first'][2] == [2, 3])], only),
        bounds=dict(
            registry=f'up to {2 if q else 3} manually registered and {2 if q else 3} entry-point conventions, every registration order, each '
                     'matching or not with an unbounded Int specificity',
            detectors='UGRID: Conventions attribute over 7 spellings or absent, cf_role over 5 spellings, topology_dimension any Int; '
                      'CF: units / standard_name / axis of two variables over 7 x 5 x 5 spellings each, coordinate rank 1 or 2; '
                      'end-to-end: one dataset per convention with one distinguishing piece removed by symbolic choice',
            histories=f'all sequences of length {3 if q else 4} over {{access, construct+bind, copy, access on copy, bind again}}',
            outside='attribute spellings outside the finite universes; the installed entry points are replaced by stub classes in (a)'),
        stubs=['check_dataset of stub Convention subclasses returns the symbolic specificity (registry part only)',
               'builtin str() shadowed in emsarray.conventions.ugrid to keep a symbolic Conventions string'],
        assumptions=['string-valued attributes are only compared, searched and hashed by the detectors'],
    )
