"""C07 - clip masks select exactly the intersecting cells plus the requested buffer.

(a) masking.smear_mask / arakawa_c.c_mask_from_centres on fully symbolic
    boolean arrays: one path, one unsat query per array shape covers all
    2^(h*w) arrays.
(b) masking.blur_mask on fully symbolic boolean arrays (forks once per cell
    because of Python's `or`).
(c) CFGrid / ArakawaC.make_clip_mask with a symbolic hit set behind the
    STRtree contract (solver-guided enumeration of hit subsets).
(d) ugrid.buffer_faces / mask_from_face_indexes / UGrid.make_clip_mask with a
    symbolic face subset.
(e) monotonicity, discharged on the reference formulas.
"""
import itertools
import re

import numpy
import shapely
import xarray

from symx import builders, env, geo
from symx.core import And, Not, Or, Iff, Implies, same, SymBool, isnan
from symx.runner import Case, main_run, replay_file

PROP = 'C07'


def sym_mask(ctx, h, w, name='m'):
    if ctx.symbolic:
        arr = numpy.empty((h, w), dtype=object)
    else:
        arr = numpy.empty((h, w), dtype=bool)
    for j in range(h):
        for i in range(w):
            arr[j, i] = ctx.bool(f'{name}_{j}_{i}')
    return arr


def ref_window(arr, j, i, r):
    h, w = arr.shape
    return Or(*[arr[jj, ii] for jj in range(max(0, j - r), min(h, j + r + 1))
                for ii in range(max(0, i - r), min(w, i + r + 1))])


# -- (a) -------------------------------------------------------------------

def body_smear(ctx, h, w, pad):
    from emsarray import masking
    arr = sym_mask(ctx, h, w)
    out = masking.smear_mask(arr, list(pad))
    eh, ew = h + (1 if pad[0] else 0), w + (1 if pad[1] else 0)
    ctx.check(tuple(out.shape) == (eh, ew), 'smear_mask output shape')
    for j in range(eh):
        for i in range(ew):
            srcs = []
            for dj in ((0, 1) if pad[0] else (0,)):
                for di in ((0, 1) if pad[1] else (0,)):
                    jj, ii = j - dj, i - di
                    if 0 <= jj < h and 0 <= ii < w:
                        srcs.append(arr[jj, ii])
            ctx.check(Iff(out[j, i], Or(*srcs)), f'smear_mask[{j},{i}] == OR of adjacent cells (pad={pad})')


def body_cmask(ctx, h, w):
    from emsarray.conventions.arakawa_c import ArakawaCGridKind, c_mask_from_centres
    arr = sym_mask(ctx, h, w)
    dims = {ArakawaCGridKind(k): v for k, v in builders.SHOC_DIMS.items()}
    ds = c_mask_from_centres(arr, dims, None)
    face, left, back, node = (ds[n].values for n in ('face_mask', 'left_mask', 'back_mask', 'node_mask'))
    ctx.check(ds['face_mask'].dims == builders.SHOC_DIMS['face'] and ds['left_mask'].dims == builders.SHOC_DIMS['left']
              and ds['back_mask'].dims == builders.SHOC_DIMS['back'] and ds['node_mask'].dims == builders.SHOC_DIMS['node'],
              'mask variables carry the dimensions of their grid kind')
    ctx.check(face.shape == (h, w) and left.shape == (h, w + 1) and back.shape == (h + 1, w) and node.shape == (h + 1, w + 1),
              'mask shapes')

    def cell(j, i):
        return arr[j, i] if (0 <= j < h and 0 <= i < w) else False
    for j in range(h):
        for i in range(w):
            ctx.check(Iff(face[j, i], arr[j, i]), 'face mask is the cell mask')
    for j in range(h):
        for i in range(w + 1):
            # left edge (j,i) borders faces (j,i-1) and (j,i)
            ctx.check(Iff(left[j, i], Or(cell(j, i - 1), cell(j, i))), 'left edge marked iff it belongs to a marked cell')
    for j in range(h + 1):
        for i in range(w):
            ctx.check(Iff(back[j, i], Or(cell(j - 1, i), cell(j, i))), 'back edge marked iff it belongs to a marked cell')
    for j in range(h + 1):
        for i in range(w + 1):
            ctx.check(Iff(node[j, i], Or(cell(j - 1, i - 1), cell(j - 1, i), cell(j, i - 1), cell(j, i))),
                      'node marked iff it belongs to a marked cell')


# -- (b) -------------------------------------------------------------------

def _blur_patches():
    from emsarray import masking
    return env.patched((masking, 'numpy', env.numpy_proxy()))


def body_blur(ctx, h, w, size, layout='C'):
    from emsarray import masking
    arr = sym_mask(ctx, h, w)
    # the same boolean array held column-major, or as the transposed view of a (w, h) array: the answer depends on
    # the values, never on how the array is laid out in memory
    held = {'C': lambda a: a, 'F': numpy.asfortranarray, 'T': lambda a: numpy.ascontiguousarray(a.T).T}[layout](arr)
    if layout != 'C' and min(h, w) > 1:
        ctx.check(held.flags.f_contiguous and not held.flags.c_contiguous, 'harness: column-major array built')
    out = masking.blur_mask(held, size=size)
    ctx.check(tuple(out.shape) == (h, w), 'blur_mask keeps the shape')
    for j in range(h):
        for i in range(w):
            ctx.check(Iff(out[j, i], ref_window(arr, j, i, size)),
                      f'blur_mask[{j},{i}] == OR over the Chebyshev ball of radius {size} (no wrap)')


# -- (c) -------------------------------------------------------------------

def _grid_dataset(conv, shape, holes, fortran=False):
    from emsarray.conventions.grid import CFGrid1D, CFGrid2D
    from emsarray.conventions.shoc import ShocSimple, ShocStandard
    ny, nx = shape
    if conv == 'cf1d':
        ds = builders.cf1d(ny, nx)
        return ds, CFGrid1D(ds)
    if conv in ('cf2d', 'shoc_simple'):
        jj, ii = numpy.meshgrid(numpy.arange(ny, dtype=float), numpy.arange(nx, dtype=float), indexing='ij')
        lat, lon = 10.0 + jj, 100.0 + ii
        # stored bounds so that a hole is exactly one cell
        lonb = numpy.stack([lon - .5, lon + .5, lon + .5, lon - .5], axis=-1)
        latb = numpy.stack([lat - .5, lat - .5, lat + .5, lat + .5], axis=-1)
        for (j, i) in holes:
            lonb[j, i] = numpy.nan
            latb[j, i] = numpy.nan
        if conv == 'cf2d':
            ds = builders.cf2d(ny, nx, lat=lat, lon=lon, lat_bounds=latb, lon_bounds=lonb)
            return ds, CFGrid2D(ds)
        ds = builders.shoc_simple(ny, nx, lat=lat, lon=lon, lat_bounds=latb, lon_bounds=lonb)
        return ds, ShocSimple(ds)
    if conv == 'shoc_standard':
        jj, ii = numpy.meshgrid(numpy.arange(ny + 1, dtype=float), numpy.arange(nx + 1, dtype=float), indexing='ij')
        node_x, node_y = 100.0 + ii, 10.0 + jj
        for (j, i) in holes:   # a masked node removes the (up to four) cells around it
            node_x[j, i] = numpy.nan
            node_y[j, i] = numpy.nan
        fx = 100.5 + ii[:-1, :-1]
        fy = 10.5 + jj[:-1, :-1]
        if fortran:
            # the same values held in column-major buffers (arrays that came from Fortran / MATLAB tools, or a transpose)
            node_x, node_y, fx, fy = (numpy.asfortranarray(a) for a in (node_x, node_y, fx, fy))
        ds = builders.shoc_standard(ny, nx, node_x=node_x, node_y=node_y, face_x=fx, face_y=fy)
        return ds, ShocStandard(ds)
    raise ValueError(conv)


def body_clip_grid(ctx, conv, shape, holes, buffer, fortran=False, history=False):
    ds, convention = _grid_dataset(conv, shape, holes, fortran)
    from harness import geomref
    geomref.check(ctx, ds, convention, kind=conv)
    ny, nx = shape
    polygons = convention.polygons            # concrete coordinates: real shapely
    has_poly = [p is not None for p in polygons]
    earlier = None
    if history:
        # an earlier mask made from the same convention object for another geometry: the next one owes it nothing,
        # and the earlier mask stays what it was
        pre = [ctx.bool(f'pre{n}') if has_poly[n] else False for n in range(ny * nx)]
        if ctx.symbolic:
            convention.__dict__['strtree'] = geo.StubTree(polygons, {n: pre[n] for n in range(ny * nx) if has_poly[n]})
            first = geo.SymClip(polygons, pre, False, True)
        else:
            first = geo.realise_hits(polygons, [n for n in range(ny * nx) if has_poly[n] and pre[n]])[0]
        earlier = convention.make_clip_mask(first, buffer=0)
        earlier_copy = {n: numpy.array(earlier[n].values, copy=True) for n in earlier.data_vars}
        if ctx.symbolic:
            del convention.__dict__['strtree']
    hits = [ctx.bool(f'hit{n}') if has_poly[n] else False for n in range(ny * nx)]
    # does the geometry cover the whole dataset?  if so it intersects every cell that has a polygon
    covers_all = ctx.bool('covers_all')
    areal = ctx.bool('areal')            # polygons / boxes, or points / lines
    ctx.assume(Implies(covers_all, And(areal, *[hits[n] for n in range(ny * nx) if has_poly[n]])))
    if ctx.symbolic:
        tree = geo.StubTree(polygons, {n: hits[n] for n in range(ny * nx) if has_poly[n]})
        convention.__dict__['strtree'] = tree
        clips = [geo.SymClip(polygons, hits, covers_all, areal)]
    elif covers_all:
        clips = [geo.covering_geometry(polygons)]
    else:
        # realise the hit pattern with several real geometries (points, boxes, lines, hulls)
        clips = geo.realise_hits(polygons, [n for n in range(ny * nx) if has_poly[n] and hits[n]])
        everything = geo.covering_geometry(polygons).buffer(-1.0)
        clips = [c for c in clips if not c.covers(everything)] or clips
        clips = geo.of_dimension(clips, areal)
    for clip in clips:
        _check_clip_grid(ctx, conv, shape, convention, clip, buffer, hits, tree if ctx.symbolic else None)
    if earlier is not None:
        ctx.check(all(numpy.array_equal(earlier[n].values, earlier_copy[n]) for n in earlier_copy),
                  'a mask handed out earlier is not rewritten by later calls')
        ctx.check(all(bool(m) == h for m, h in zip(convention.mask, has_poly)), "the convention's validity mask is untouched by clipping")


def _check_clip_grid(ctx, conv, shape, convention, clip, buffer, hits, tree):
    ny, nx = shape
    if buffer is None:
        mask = convention.make_clip_mask(clip)
        buffer = 0
    else:
        mask = convention.make_clip_mask(clip, buffer=buffer)
    H = numpy.array(hits, dtype=object).reshape(ny, nx)
    name = 'face_mask' if conv == 'shoc_standard' else 'cell_mask'
    cell = mask[name].values
    ctx.check(cell.shape == (ny, nx), 'cell mask shape is the face grid shape')
    ctx.check(all(v.dtype == numpy.dtype(bool) for v in mask.data_vars.values()), 'masks are boolean arrays (marked or not, nothing else)')
    ctx.check(tuple(mask[name].dims) == tuple(convention.grid_dimensions[convention.default_grid_kind]),
              'cell mask dimensions are the face grid dimensions in order')
    for j in range(ny):
        for i in range(nx):
            ctx.check(Iff(bool(cell[j, i]), ref_window(H, j, i, buffer)),
                      'cell marked iff within `buffer` Chebyshev steps of an intersecting cell')
    if conv == 'shoc_standard':
        def c(j, i):
            return bool(cell[j, i]) if (0 <= j < ny and 0 <= i < nx) else False
        left, back, node = (mask[n].values for n in ('left_mask', 'back_mask', 'node_mask'))
        ok = left.shape == (ny, nx + 1) and back.shape == (ny + 1, nx) and node.shape == (ny + 1, nx + 1)
        ctx.check(ok, 'edge/node mask shapes')
        if ok:
            ctx.check(all(bool(left[j, i]) == (c(j, i - 1) or c(j, i)) for j in range(ny) for i in range(nx + 1)),
                      'left edges of exactly the marked cells')
            ctx.check(all(bool(back[j, i]) == (c(j - 1, i) or c(j, i)) for j in range(ny + 1) for i in range(nx)),
                      'back edges of exactly the marked cells')
            ctx.check(all(bool(node[j, i]) == (c(j - 1, i - 1) or c(j - 1, i) or c(j, i - 1) or c(j, i))
                          for j in range(ny + 1) for i in range(nx + 1)),
                      'nodes of exactly the marked cells')


# -- (d) -------------------------------------------------------------------

def ref_ring(faces, marked):
    nodes = set()
    for f in marked:
        nodes.update(faces[f])
    return {fi for fi, f in enumerate(faces) if fi in marked or nodes.intersection(f)}


def body_blur_tall(ctx, h, w):
    """Masks with more rows / columns than any block size: the ring growth crosses every row and column boundary.
    Concrete masks (a few marked cells near multiples of 64 and 128), reference = Chebyshev ball."""
    from emsarray import masking
    size = int(ctx.int('size', 0, 3))
    arr = numpy.zeros((h, w), dtype=bool)
    for (j, i) in ((63 % h, 0), (min(h - 1, 64), w - 1), (min(h - 1, 127), w // 2), (0, min(w - 1, 63)), (h - 1, min(w - 1, 128)), (min(h - 1, 255), 0), (0, min(w - 1, 256)), (min(h - 1, 256), w - 1)):
        arr[j, i] = True
    out = masking.blur_mask(arr, size=size)
    want = numpy.zeros_like(arr)
    for j, i in zip(*numpy.nonzero(arr)):
        want[max(0, j - size):j + size + 1, max(0, i - size):i + size + 1] = True
    ctx.check(out.shape == arr.shape and bool(numpy.array_equal(numpy.asarray(out, dtype=bool), want)), 'blur_mask == OR over the Chebyshev ball (tall / wide mask)')


def _short_lived_meshes():
    """Other meshes buffered and dropped earlier in the same process: nothing they leave behind may reach the next one."""
    import gc
    from emsarray.conventions.ugrid import UGrid, buffer_faces
    for rep in range(3):
        for m in ('strip5', 'block', 'fan', 'qqqtt', 'tq'):
            d = builders.ugrid(m, with_edges=True)
            c = UGrid(d)
            t = c.topology
            buffer_faces(numpy.array([len(builders.MESHES[m][1]) - 1], dtype=numpy.intp), t)
            del t, c, d
            gc.collect()


def body_clip_mesh(ctx, mesh, variant, buffer, via, free=None, after_others=False):
    from emsarray.conventions.ugrid import UGrid, buffer_faces, mask_from_face_indexes
    if after_others and not ctx.symbolic:
        _short_lived_meshes()
    kw = {
        'noedge': dict(),
        'edges': dict(with_edges=True),
        'edges1': dict(supply=('edge_node', 'face_edge'), start_index=1, fill='attr'),
        'edgesT': dict(supply=('edge_node',), transposed=True, edge_dimension_attr=False),
        # one-based integer tables whose fill value is 0 / -1: the raw value under the mask is (or maps to) a node number
        'fill0': dict(supply=('edge_node', 'face_edge'), start_index=1, fill='attr', fill_value=0),
        'fillneg': dict(with_edges=True, start_index=0, fill='attr', fill_value=-1),
        # the optional face-face table is there too (it lists faces that share an *edge*; rings grow over shared nodes)
        'faceface': dict(supply=('edge_node', 'face_face'), fill='nan'),
        # tables that do not count from the same base: one-based faces, a zero-based face-edge table without the attribute
        'mixedbase': dict(supply=('edge_node', 'face_edge'), start_index=1, fill='attr', start_index_by_table={'face_edge': 0}),
        # the edge table stored (Two, edges) with the edges numbered in another order than a derivation would number them
        'edgesT-rev': dict(supply=('edge_node',), transposed=True,
                           edge_order=list(range(len(builders.mesh_edges(builders.MESHES[mesh][1])[0])))[::-1]),
        # tables stored in the smallest integer type that holds the node numbers
        'int8': dict(supply=('edge_node',), dtype='int8', fill='none'),
    }[variant]
    ds = builders.ugrid(mesh, **kw)
    nodes, faces = builders.MESHES[mesh]
    # the edge numbering of the file, when the file stores its edge table (reference for "in original order")
    file_edges = None
    if 'edge_node' in kw.get('supply', ()):
        ref_edges = builders.mesh_edges(faces)[0]
        file_edges = [ref_edges[i] for i in kw['edge_order']] if kw.get('edge_order') else list(ref_edges)
    convention = UGrid(ds)
    topology = convention.topology
    nf = len(faces)
    # (free: on a large mesh only these faces may be hit, the others are not)
    hits = [ctx.bool(f'hit{f}') if (free is None or f in free) else False for f in range(nf)]
    chosen = [f for f in range(nf) if bool(hits[f])]          # forks: solver-guided enumeration
    expected = set(chosen)
    for _ in range(buffer):
        expected = ref_ring(faces, expected)

    if via == 'make_clip_mask':
        covers_all = ctx.bool('covers_all')
        areal = ctx.bool('areal')
        ctx.assume(Implies(covers_all, And(areal, len(chosen) == nf)))
        if ctx.symbolic:
            tree = geo.StubTree(convention.polygons, {f: SymBool(f in chosen) for f in range(nf)})
            convention.__dict__['strtree'] = tree
            clips = [geo.SymClip(convention.polygons, [f in chosen for f in range(nf)], covers_all, areal)]
        elif covers_all:
            clips = [geo.covering_geometry(convention.polygons)]
        else:
            clips = geo.realise_hits(convention.polygons, chosen)
            everything = geo.covering_geometry(convention.polygons).buffer(-1.0)
            clips = [c for c in clips if not c.covers(everything)] or clips
            clips = geo.of_dimension(clips, areal)
        for clip in clips:
            mask = convention.make_clip_mask(clip, buffer=buffer)
            _check_mesh_mask(ctx, mask, via, variant, nodes, faces, expected, topology, file_edges)
        return
    else:
        # unsorted input order, as the real STRtree reports hits
        face_indexes = numpy.array(chosen[::-1], dtype=numpy.intp)
        for _ in range(buffer):
            face_indexes = buffer_faces(face_indexes, topology)
            ctx.check(len(set(face_indexes.tolist())) == len(face_indexes), 'buffer_faces returns no duplicates')
        ctx.check(set(int(f) for f in face_indexes) == expected,
                  'buffer_faces: marked faces are the node-sharing closure, one ring per call')
        mask = mask_from_face_indexes(face_indexes, topology)
    _check_mesh_mask(ctx, mask, via, variant, nodes, faces, expected, topology, file_edges)


def _check_mesh_mask(ctx, mask, via, variant, nodes, faces, expected, topology, file_edges):
    nf = len(faces)
    # the renumbering tables hold element numbers of meshes of any size (2**24 + 1 is a legal node number): a type
    # that cannot represent every 32-bit index exactly would renumber large meshes wrongly
    ctx.check(all(v.dtype.kind in 'iu' or v.dtype == numpy.dtype('float64') for v in mask.data_vars.values()),
              'the renumbering tables are held in a type that represents every 32-bit element number exactly')

    def table(name):
        vals = mask[name].values
        return [None if numpy.isnan(v) else int(v) for v in vals]

    def rank_table(n, keep):
        out, k = [], 0
        for e in range(n):
            if e in keep:
                out.append(k)
                k += 1
            else:
                out.append(None)
        return out

    new_face = table('new_face_index')
    if via == 'make_clip_mask' or True:
        got = {f for f, v in enumerate(new_face) if v is not None}
        ctx.check(got == expected, 'kept faces are the intersecting faces plus `buffer` node-sharing rings')
    # renumbering is contiguous and in original order, whatever order the hits were reported in.
    # (mask_from_face_indexes numbers faces in the order given; make_clip_mask must hand them over sorted
    #  for the renumbering to be "in their original order".)
    ctx.check(new_face == rank_table(nf, expected), 'kept faces renumbered contiguously in original order')
    keep_nodes = set()
    for f in expected:
        keep_nodes.update(faces[f])
    ctx.check(table('new_node_index') == rank_table(len(nodes), keep_nodes),
              'kept nodes are exactly the nodes of kept faces, renumbered contiguously in original order')
    if variant == 'noedge':
        ctx.check('new_edge_index' not in mask.data_vars, 'no edge table without an edge dimension')
    else:
        en = topology.edge_node_array if file_edges is None else file_edges
        pairs = set()
        for f in expected:
            fn = faces[f]
            pairs.update(frozenset(p) for p in zip(fn, fn[1:] + fn[:1]))
        keep_edges = {e for e in range(len(en)) if frozenset(int(x) for x in en[e]) in pairs}
        ctx.check(table('new_edge_index') == rank_table(len(en), keep_edges),
                  'kept edges are exactly the edges of kept faces, renumbered contiguously in original order')
    fill = mask['new_node_index'].encoding.get('_FillValue')
    ctx.check(fill is not None and fill > max(len(nodes), len(faces) * max(len(f) for f in faces)),
              'fill value lies outside every index range')


# -- (e) -------------------------------------------------------------------

def body_border(ctx, kind):
    """Real geometries that meet the dataset only along its outer border or at a corner (boxes lying against it from
    outside, points on corners and sides, lines along the border), and some that run along interior cell sides, on
    datasets whose coordinates are exact in binary; which cells they touch is taken from independent reference polygons."""
    import shapely
    from harness import geomref
    from emsarray.conventions.ugrid import UGrid
    buffer = int(ctx.int('buffer', 0, 1))
    mesh = None
    if kind == 'cf1d':
        ny, nx = 3, 4
        ds = builders.cf1d(ny, nx, lat=numpy.array([10.0, 11.0, 12.0]), lon=numpy.array([0.0, 1.0, 2.0, 3.0]))
        cv = ds.ems
    elif kind == 'shoc_standard':
        ny, nx = 3, 4
        jj, ii = numpy.meshgrid(numpy.arange(4.0), numpy.arange(5.0), indexing='ij')
        ds = builders.shoc_standard(ny, nx, node_x=ii * 2.0 - 4.0, node_y=jj - 1.0, face_x=numpy.zeros((3, 4)), face_y=numpy.zeros((3, 4)))
        cv = ds.ems
    else:
        mesh = kind
        ds = builders.ugrid(kind, with_edges=True)
        cv = UGrid(ds)
    ref = geomref.check(ctx, ds, cv)
    N = len(ref)
    minx, miny, maxx, maxy = shapely.unary_union([p for p in ref if p is not None]).bounds
    midx, midy = (minx + maxx) / 2.0, (miny + maxy) / 2.0
    geoms = {
        'box against the east side': shapely.box(maxx, miny + 0.25, maxx + 1.0, miny + 0.75),
        'box against the west side': shapely.box(minx - 2.0, miny, minx, maxy),
        'box against the north side': shapely.box(minx, maxy, maxx, maxy + 0.5),
        'box against the south side': shapely.box(midx, miny - 3.0, midx + 0.5, miny),
        'box on the north-east corner': shapely.box(maxx, maxy, maxx + 1.0, maxy + 1.0),
        'box on the south-west corner': shapely.box(minx - 1.0, miny - 1.0, minx, miny),
        'point on the north-east corner': shapely.Point(maxx, maxy),
        'point on the south-west corner': shapely.Point(minx, miny),
        'point on the west side': shapely.Point(minx, miny + 0.5),
        'line along the west side': shapely.LineString([(minx, miny + 0.25), (minx, miny + 0.75)]),
        'line along the south side': shapely.LineString([(minx, miny), (maxx, miny)]),
        'line to the north-west corner from outside': shapely.LineString([(minx - 1.0, maxy + 1.0), (minx, maxy)]),
        'two boxes, east and west': shapely.MultiPolygon([shapely.box(maxx, miny, maxx + 1.0, miny + 0.5), shapely.box(minx - 1.0, maxy - 0.5, minx, maxy)]),
        'box just off the east side': shapely.box(maxx + 1e-9, miny, maxx + 1.0, maxy),
        'point just off the corner': shapely.Point(maxx + 1e-9, maxy),
    }
    for label, g in geoms.items():
        hits = {n for n in range(N) if ref[n] is not None and ref[n].intersects(g)}
        if 'off' not in label and (label.endswith('side') or 'corner' in label):
            ctx.check(bool(hits) or mesh is not None, f'harness: {label} touches a cell')
        if 'off' in label:
            ctx.check(not hits, f'harness: {label} touches nothing')
        mask = cv.make_clip_mask(g, buffer=buffer)
        if mesh is None:
            H = numpy.zeros((ny, nx), dtype=bool)
            for n in hits:
                H[n // nx, n % nx] = True
            want = numpy.array([[bool(H[max(0, j - buffer):j + buffer + 1, max(0, i - buffer):i + buffer + 1].any()) for i in range(nx)] for j in range(ny)])
            got = mask['face_mask' if kind == 'shoc_standard' else 'cell_mask'].values
            ctx.check(got.shape == want.shape and bool(numpy.array_equal(got, want)), 'cell marked iff within `buffer` Chebyshev steps of an intersecting cell')
        else:
            faces = builders.MESHES[mesh][1]
            expected = set(hits)
            for _ in range(buffer):
                expected = ref_ring(faces, expected)
            new_face = mask['new_face_index'].values
            got = {f for f in range(len(faces)) if not numpy.isnan(new_face[f])}
            ctx.check(got == expected, 'buffer_faces: marked faces are the node-sharing closure, one ring per call')


def body_monotone(ctx, h, w):
    """Enlarging the geometry (hit set) or the buffer never unmarks a cell:
    a consequence of the equalities checked above, discharged on the reference formula."""
    A = sym_mask(ctx, h, w, 'a')
    B = sym_mask(ctx, h, w, 'b')
    ctx.assume(And(*[Implies(A[j, i], B[j, i]) for j in range(h) for i in range(w)]))
    for r in range(0, 3):
        for j in range(h):
            for i in range(w):
                ctx.check(Implies(ref_window(A, j, i, r), ref_window(B, j, i, r + 1)), 'monotone in hits and buffer')
                ctx.check(Implies(ref_window(A, j, i, r), ref_window(B, j, i, r)), 'monotone in hits')


def cases(tier):
    for kind in ('cf1d', 'shoc_standard', 'grid4', 'tqp', 'qqqtt', 'block'):
        yield Case(f'border:{kind}', body_border, dict(kind=kind), max_paths=4)
    q = tier == 'quick'
    top = 3 if q else 4
    for h in range(1, top + 1):
        for w in range(1, top + 1):
            for pad in itertools.product([False, True], repeat=2):
                yield Case(f'smear:{h}x{w}:{int(pad[0])}{int(pad[1])}', body_smear, dict(h=h, w=w, pad=pad))
            yield Case(f'cmask:{h}x{w}', body_cmask, dict(h=h, w=w))
    blur_shapes = [(1, 1), (1, 3), (3, 1), (2, 2), (2, 3), (3, 3)] if q else \
        [(1, 1), (1, 4), (4, 1), (2, 2), (2, 3), (3, 2), (3, 3), (3, 4), (4, 3), (4, 4)]
    for (h, w) in blur_shapes:
        for size in (0, 1, 2, 3):
            big = h * w >= 12
            if big and size in (0, 3) and (h, w) != (4, 4):
                continue
            if (h, w) in ((2, 3), (3, 2), (3, 3)) and size in (1, 2):
                for layout in ('F', 'T'):
                    yield Case(f'blur:{h}x{w}:size{size}:layout{layout}', body_blur, dict(h=h, w=w, size=size, layout=layout), patches=_blur_patches)
            yield Case(f'blur:{h}x{w}:size{size}', body_blur, dict(h=h, w=w, size=size), patches=_blur_patches,
                       split=(64 if h * w >= 9 else 0), validate=(h * w <= 9), max_paths=70000)
    grid_cfgs = [('cf1d', (2, 3), ()), ('cf2d', (3, 2), ()), ('cf2d', (2, 3), ((0, 1),)),
                 ('shoc_simple', (2, 2), ()), ('shoc_standard', (2, 3), ()), ('shoc_standard', (3, 3), ((0, 0),))]
    if not q:
        grid_cfgs += [('cf1d', (3, 3), ()), ('cf2d', (3, 3), ((1, 1),)), ('shoc_standard', (3, 3), ()),
                      ('cf1d', (2, 4), ()), ('cf2d', (4, 1), ()), ('shoc_standard', (1, 3), ()),
                      ('cf2d', (3, 4), ()), ('shoc_standard', (3, 4), ((3, 4),))]
    for conv, shape, holes in grid_cfgs:
        for buffer in (None, 0, 1, 2, 3):
            if shape[0] * shape[1] >= 12 and buffer in (None, 3):
                continue
            hs = '-'.join(f'{a}.{b}' for a, b in holes) or 'none'
            yield Case(f'clipgrid:{conv}:{shape[0]}x{shape[1]}:holes{hs}:buf{buffer}', body_clip_grid,
                       dict(conv=conv, shape=shape, holes=holes, buffer=buffer),
                       split=(32 if shape[0] * shape[1] >= 9 else 0), max_paths=10000)
    for conv, shape, holes in (('shoc_standard', (2, 2), ()), ('cf2d', (2, 2), ((0, 1),)), ('cf1d', (2, 2), ())):
        for buffer in (0, 1):
            hs = '-'.join(f'{a}.{b}' for a, b in holes) or 'none'
            yield Case(f'clipgrid:{conv}:{shape[0]}x{shape[1]}:holes{hs}:buf{buffer}:after-another-clip', body_clip_grid,
                       dict(conv=conv, shape=shape, holes=holes, buffer=buffer, history=True), max_paths=20000, split=16)
    for buffer in (0, 1):
        yield Case(f'clipgrid:shoc_standard:2x3:holesnone:buf{buffer}:column-major', body_clip_grid,
                   dict(conv='shoc_standard', shape=(2, 3), holes=(), buffer=buffer, fortran=True), max_paths=10000)
    meshes = ['tqp', 'fan', 'strip5', 'qqqtt'] if q else ['tq', 'tqp', 'qqq', 'fan', 'strip5', 'block', 'qqqtt']
    for mesh in meshes:
        for variant in ('noedge', 'edges', 'edges1', 'edgesT', 'fill0', 'fillneg'):
            if variant in ('fill0', 'fillneg') and mesh in ('qqq', 'fan', 'strip5', 'tri'):
                continue        # uniform meshes have no fill entries
            if variant == 'edges1' and mesh in ('qqq', 'fan', 'strip5'):
                kw_fill_ok = False   # uniform meshes have no fill entries; 'attr' still fine
            for buffer in (0, 1, 2, 3):
                if q and buffer == 3 and mesh != 'strip5':
                    continue
                for via in ('make_clip_mask', 'functions'):
                    yield Case(f'clipmesh:{mesh}:{variant}:buf{buffer}:{via}', body_clip_mesh,
                               dict(mesh=mesh, variant=variant, buffer=buffer, via=via), max_paths=5000)
    for mesh in (('fan', 'qqqtt') if q else ('fan', 'qqqtt', 'block', 'strip5')):
        for buffer in (1, 2):
            for via in ('make_clip_mask', 'functions'):
                yield Case(f'clipmesh:{mesh}:faceface:buf{buffer}:{via}', body_clip_mesh,
                           dict(mesh=mesh, variant='faceface', buffer=buffer, via=via), max_paths=5000)
    for h, w in ((65, 1), (70, 3), (3, 130), (129, 2), (260, 4), (2, 515)):
        yield Case(f'blur-tall:{h}x{w}', body_blur_tall, dict(h=h, w=w), max_paths=8)
    # a node shared by nine faces
    for buffer in (1, 2):
        yield Case(f'clipmesh:fan9:edges:buf{buffer}:functions', body_clip_mesh, dict(mesh='fan9', variant='edges', buffer=buffer, via='functions', free=(0, 3, 4, 8)), max_paths=5000)
    for mesh in ('tqp', 'qqqtt'):
        for buffer in (0, 1):
            yield Case(f'clipmesh:{mesh}:edgesT-rev:buf{buffer}:make_clip_mask', body_clip_mesh,
                       dict(mesh=mesh, variant='edgesT-rev', buffer=buffer, via='make_clip_mask'), max_paths=5000)
    for mesh in ('tqp', 'fan'):
        for via in ('make_clip_mask', 'functions'):
            yield Case(f'clipmesh:{mesh}:edges:buf1:{via}:after-other-meshes', body_clip_mesh,
                       dict(mesh=mesh, variant='edges', buffer=1, via=via, after_others=True), max_paths=5000)
    for mesh in (('tqp',) if q else ('tqp', 'qqqtt')):
        for buffer in (0, 1):
            yield Case(f'clipmesh:{mesh}:mixedbase:buf{buffer}:make_clip_mask', body_clip_mesh,
                       dict(mesh=mesh, variant='mixedbase', buffer=buffer, via='make_clip_mask'), max_paths=5000)
    for buffer in (0, 1):
        yield Case(f'clipmesh:grid4:int8:buf{buffer}:make_clip_mask', body_clip_mesh,
                   dict(mesh='grid4', variant='int8', buffer=buffer, via='make_clip_mask', free=(0, 5, 10, 15) if q else (0, 3, 5, 6, 10, 15)), max_paths=5000)
    for (h, w) in ([(2, 2), (3, 3)] if q else [(2, 2), (3, 3), (4, 4)]):
        yield Case(f'monotone:{h}x{w}', body_monotone, dict(h=h, w=w), validate=False)


def functions():
    from emsarray import masking
    from emsarray.conventions import arakawa_c, grid, ugrid
    return [masking.blur_mask, masking.smear_mask, arakawa_c.c_mask_from_centres,
            grid.CFGrid.make_clip_mask, arakawa_c.ArakawaC.make_clip_mask,
            ugrid.buffer_faces, ugrid.mask_from_face_indexes, ugrid.UGrid.make_clip_mask,
            ugrid._masked_integer_data_array]


def run(tier, seed=0, replay=None, procs=None, only=None):
    if replay:
        return replay_file(replay, list(cases('thorough')) + list(cases('quick')))
    cs = list(cases(tier))
    if only:
        cs = [c for c in cs if re.search(only, c.name)]
    q = tier == 'quick'
    return main_run(
        PROP, tier, cs, functions=functions(), seed=seed, procs=procs,
        bounds=dict(
            primitives=f'smear_mask / c_mask_from_centres: every boolean array of every shape up to {3 if q else 4}x'
                       f'{3 if q else 4} in one symbolic path per shape; blur_mask: every boolean array of shapes up to '
                       f'{"3x3" if q else "4x4"}, size 0..3',
            clip_masks='hit subsets: all subsets of cells with geometry on grids up to '
                       f'{"3x3" if q else "3x4"}, buffer default/0..3; meshes of 2-7 faces x 4 encodings x buffer 0..3',
            outside='which cells a geometry really intersects (GEOS) is abstracted to a symbolic hit set; '
                    'larger arrays / meshes'),
        stubs=['numpy.any on object arrays -> z3 Or; numpy.nditer refs_ok flag (masking module global `numpy` proxied)',
               'STRtree.query(geom, predicate=p): returns exactly the positions with geometry satisfying p, '
               'non-sorted order; only axioms: other predicates imply intersects'],
        assumptions=['GEOS answers intersects correctly',
                     'in replay, a MultiPoint of interior points realises an arbitrary hit set'],
    )
