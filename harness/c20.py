"""C20 - command line tools compute exactly what the library computes.

(a) The bounds grammar: the live ``bounds_re.pattern`` is translated into a z3
    regular expression; the regex *method* used at each call site is read from
    the AST of geometry_argument / bounds_argument.  z3 decides two language
    inclusions (a sandwich, so both a strict and a blank-stripping parser pass);
    any counterexample string is replayed through the real function.
(b) nice_console_errors: the exception raised by a handler is chosen by the
    solver (class by forking, CommandException.code a symbolic Int).
(c) whole-command equivalence with the library, in process, on real files
    (validated on witnesses only).
"""
import argparse
import ast
import inspect
import io
import json
import logging
import os
import re
import shutil
import tempfile
import textwrap
import time

import numpy
import z3

from symx import builders, env, smtre
from symx.core import And, HarnessError, Implies, Not, Or, same, SymInt
from symx.runner import Case, VERIF, main_run, replay_file

PROP = 'C20'


# ---- reference grammars (written from the property statement, not from the code) ----------

def _ref_regexes():
    D = z3.Range('0', '9')
    digits = z3.Concat(z3.Plus(D), z3.Star(z3.Concat(z3.Re('_'), z3.Plus(D))))
    ws = z3.Star(smtre._chars(smtre.ASCII_WS))
    sign = z3.Option(z3.Union(z3.Re('-'), z3.Re('+')))
    exp = z3.Option(z3.Concat(z3.Union(z3.Re('e'), z3.Re('E')), z3.Option(z3.Union(z3.Re('-'), z3.Re('+'))), z3.Plus(D)))
    num_upper = z3.Concat(sign, z3.Union(z3.Concat(digits, z3.Option(z3.Concat(z3.Re('.'), z3.Option(digits)))),
                                         z3.Concat(z3.Re('.'), digits)), exp)
    sep = z3.Concat(ws, z3.Re(','), ws)
    upper = z3.Concat(ws, num_upper, sep, num_upper, sep, num_upper, sep, num_upper, ws)
    plain = z3.Plus(D)
    num_lower = z3.Concat(z3.Option(z3.Re('-')), z3.Union(z3.Concat(plain, z3.Option(z3.Concat(z3.Re('.'), z3.Star(D)))),
                                                         z3.Concat(z3.Re('.'), plain)))
    lower = z3.Concat(num_lower, sep, num_lower, sep, num_lower, sep, num_lower)
    return upper, lower


UPPER_PY = re.compile(r'[ \t\n\r\x0b\x0c]*NUM(?:[ \t\n\r\x0b\x0c]*,[ \t\n\r\x0b\x0c]*NUM){3}[ \t\n\r\x0b\x0c]*'.replace(
    'NUM', r'[+-]?(?:[0-9]+(?:_[0-9]+)*(?:\.(?:[0-9]+(?:_[0-9]+)*)?)?|\.[0-9]+(?:_[0-9]+)*)(?:[eE][+-]?[0-9]+)?'))


def call_site_method(fn):
    """Which bounds_re method does `fn` use?  Read from its current source."""
    tree = ast.parse(textwrap.dedent(inspect.getsource(fn)))
    found = []
    for node in ast.walk(tree):
        if isinstance(node, ast.Call) and isinstance(node.func, ast.Attribute):
            v = node.func.value
            if isinstance(v, ast.Name) and v.id == 'bounds_re':
                found.append(node.func.attr)
    if len(found) != 1:
        return None      # the function does not (only) rely on the regular expression any more
    return found[0]


def taken_as_bounds(fn, s):
    """Run the real function.  Returns ('box', geom) / ('other', geom) / ('refused', exc)."""
    from shapely.geometry import box
    try:
        g = fn(s)
    except argparse.ArgumentTypeError as e:
        return 'refused', e
    except Exception as e:       # anything else is not a polite refusal
        return 'crash', e
    try:
        json.loads(s)
        return 'other', g        # valid JSON: the geojson fallback, not bounds
    except ValueError:
        pass
    return 'box', g


def same_box(a, b):
    # (degenerate boxes are not `equals` to themselves in GEOS: compare the rings)
    return list(a.exterior.coords) == list(b.exterior.coords)


def reference_box(s):
    from shapely.geometry import box
    nums = [float(x.strip()) for x in s.split(',')]
    return box(*nums)


def grammar_checks(tier):
    from emsarray.cli import utils as cu
    t0 = time.time()
    viol, errs, samples = [], [], []
    nq = 0
    upper, lower = _ref_regexes()
    s = z3.String('s')
    for fn in (cu.geometry_argument, cu.bounds_argument):
        method = call_site_method(fn)
        # (0) strings that Python's float() would accept token-wise but that are not four numbers:
        #     whatever the implementation looks like, none of them may be taken as bounds
        for w in floatlike_non_numbers(upper, 4 if tier == 'quick' else 24):
            nq += 1
            kind, g = taken_as_bounds(fn, w)
            if kind == 'box' and UPPER_PY.fullmatch(w) is None:
                viol.append(dict(case=f'grammar:{fn.__name__}:{method}', label='text that is not exactly four comma-separated numbers is never taken as bounds',
                                 inputs=dict(argument=w), detail=f'{fn.__name__}({w!r}) returned {g.wkt}',
                                 how='z3 model of (four float()-parsable tokens) minus the reference grammar'))
        if method is None:
            continue        # no regular expression at the call site: the language inclusions cannot be posed
        acc = smtre.accepted_language(cu.bounds_re, method)
        # (1) accepted  subset-of  upper
        sol = z3.Solver()
        sol.set('timeout', 60000)
        sol.add(z3.InRe(s, acc), z3.Not(z3.InRe(s, upper)))
        r = sol.check()
        nq += 1
        if r == z3.sat:
            cex = sol.model().eval(s, model_completion=True).as_string()
            cex = _unescape(cex)
            kind, g = taken_as_bounds(fn, cex)
            if kind == 'box' and UPPER_PY.fullmatch(cex) is None:
                viol.append(dict(case=f'grammar:{fn.__name__}:{method}', label='text that is not exactly four comma-separated numbers is never taken as bounds',
                                 inputs=dict(argument=cex), detail=f'{fn.__name__}({cex!r}) returned {g.wkt}',
                                 how=f'z3 model of L(bounds_re.{method}) minus the reference grammar'))
            else:
                errs.append(f'grammar:{fn.__name__}: solver string {cex!r} does not reproduce ({kind})')
        elif r != z3.unsat:
            errs.append(f'grammar:{fn.__name__}: inclusion query answered {r}')
        # (2) lower  subset-of  accepted
        sol = z3.Solver()
        sol.set('timeout', 60000)
        sol.add(z3.InRe(s, lower), z3.Not(z3.InRe(s, acc)))
        r = sol.check()
        nq += 1
        if r == z3.sat:
            cex = _unescape(sol.model().eval(s, model_completion=True).as_string())
            kind, g = taken_as_bounds(fn, cex)
            ok = kind == 'box' and same_box(g, reference_box(cex))
            if not ok:
                viol.append(dict(case=f'grammar:{fn.__name__}:{method}', label="'a,b,c,d' denotes exactly that bounding box",
                                 inputs=dict(argument=cex), detail=f'{fn.__name__}({cex!r}) -> {kind}: {g}',
                                 how='z3 model of the reference grammar minus L(bounds_re)'))
            else:
                errs.append(f'grammar:{fn.__name__}: solver string {cex!r} is accepted by the real function; regex translation wrong')
        elif r != z3.unsat:
            errs.append(f'grammar:{fn.__name__}: inclusion query answered {r}')
        # (3) witnesses: diverse members of the lower grammar go through the real function
        sol = z3.Solver()
        sol.set('timeout', 1500 if tier == 'quick' else 5000)
        sol.add(z3.InRe(s, lower), z3.Length(s) <= 24)
        want = 8 if tier == 'quick' else 40
        feats = [z3.Contains(s, z3.StringVal(t)) for t in ('-', '.', ' ', '0', '9', '-.', '. ', ',-')]
        got = 0
        while got < want:
            sol.push()
            for k, f in enumerate(feats):      # steer towards different features
                if (got >> k) & 1:
                    sol.add(f)
            r = sol.check()
            nq += 1
            if r != z3.sat:
                sol.pop()
                if got >= (1 << len(feats)):
                    break
                got += 1
                continue
            w = _unescape(sol.model().eval(s, model_completion=True).as_string())
            sol.pop()
            sol.add(s != z3.StringVal(w))
            got += 1
            kind, g = taken_as_bounds(fn, w)
            try:
                ref = reference_box(w)
            except ValueError:
                continue
            if not (kind == 'box' and same_box(g, ref)):
                viol.append(dict(case=f'grammar:{fn.__name__}:{method}', label="'a,b,c,d' denotes exactly that bounding box",
                                 inputs=dict(argument=w), detail=f'{fn.__name__}({w!r}) -> {kind}: {g}; expected {ref.wkt}',
                                 how='witness of the reference grammar through the real function'))
            if len(samples) < 6:
                samples.append(dict(argument=w, function=fn.__name__, result=kind))
        # (4) near misses, hand-picked strings from the property statement, through the real function
        for bad in ('1,2,3', '1,2,3,4,5', '1,2,3,4xyz', 'x1,2,3,4', '1,2,,4', '1;2;3;4', '', '1,2,3,', '1 2 3 4', '1,2,3,4,'):
            kind, g = taken_as_bounds(fn, bad)
            if kind == 'box':
                viol.append(dict(case=f'grammar:{fn.__name__}:{method}', label='text that is not exactly four comma-separated numbers is never taken as bounds',
                                 inputs=dict(argument=bad), detail=f'{fn.__name__}({bad!r}) returned {g.wkt}', how='near-miss string'))
            elif kind == 'crash':
                viol.append(dict(case=f'grammar:{fn.__name__}:{method}', label='unreadable geometry is refused with ArgumentTypeError',
                                 inputs=dict(argument=bad), detail=f'{fn.__name__}({bad!r}) raised {type(g).__name__}: {g}', how='near-miss string'))
        for good, exp in (('1,2,3,4', (1, 2, 3, 4)), ('-1.5,.5,3.,1_0', (-1.5, .5, 3., 10.)), ('1 , 2,3 ,4', (1, 2, 3, 4))):
            from shapely.geometry import box
            kind, g = taken_as_bounds(fn, good)
            if not (kind == 'box' and same_box(g, box(*exp))):
                viol.append(dict(case=f'grammar:{fn.__name__}:{method}', label="'a,b,c,d' denotes exactly that bounding box",
                                 inputs=dict(argument=good), detail=f'{fn.__name__}({good!r}) -> {kind}: {g}', how='documented example'))
    # geojson fallbacks of geometry_argument
    from shapely.geometry import shape
    gj = {"type": "Polygon", "coordinates": [[[0, 0], [2, 0], [2, 1], [0, 0]]]}
    kind, g = taken_as_bounds(cu.geometry_argument, json.dumps(gj))
    if not (kind == 'other' and g.equals(shape(gj))):
        viol.append(dict(case='grammar:geojson', label='a GeoJSON string denotes exactly that geometry', inputs=dict(argument=json.dumps(gj)),
                         detail=f'{kind}: {g}', how='documented example'))
    for bad in ('{"type": "Nope"}', '[1, 2', '/no/such/file.geojson'):
        kind, g = taken_as_bounds(cu.geometry_argument, bad)
        if kind not in ('refused',):
            viol.append(dict(case='grammar:geojson', label='unreadable geometry is refused with ArgumentTypeError', inputs=dict(argument=bad),
                             detail=f'{kind}: {g}', how='bad geojson / missing file'))
    return viol, errs, samples, nq, time.time() - t0


def floatlike_non_numbers(upper, want):
    """Solver-chosen strings of four comma separated tokens that float() parses (nan, inf, infinity in any
    letter case, signs, blanks, exponents) but that are outside the reference grammar."""
    D = z3.Range('0', '9')

    def ci(word):
        return z3.Concat(*[z3.Union(z3.Re(c.lower()), z3.Re(c.upper())) for c in word])
    ws = z3.Star(smtre._chars(smtre.ASCII_WS))
    sign = z3.Option(z3.Union(z3.Re('-'), z3.Re('+')))
    special = z3.Union(ci('nan'), ci('inf'), ci('infinity'))
    plain = z3.Concat(z3.Plus(D), z3.Option(z3.Concat(z3.Re('.'), z3.Star(D))))
    tok = z3.Concat(ws, sign, z3.Union(special, plain), ws)
    cand = z3.Concat(tok, z3.Re(','), tok, z3.Re(','), tok, z3.Re(','), tok)
    s = z3.String('cand')
    sol = z3.Solver()
    sol.set('timeout', 3000)
    sol.add(z3.InRe(s, cand), z3.Not(z3.InRe(s, upper)), z3.Length(s) <= 16)
    out = []
    steer = [z3.Contains(s, z3.StringVal(t)) for t in ('nan', 'inf', 'INF', 'NaN', 'infinity', '-inf', 'n,', ',i')]
    for k in range(want):
        sol.push()
        sol.add(steer[k % len(steer)])
        r = sol.check()
        if r == z3.sat:
            w = _unescape(sol.model().eval(s, model_completion=True).as_string())
            out.append(w)
            sol.pop()
            sol.add(s != z3.StringVal(w))
        else:
            sol.pop()
    return out


def _unescape(s):
    # z3 prints non-printable characters as \u{..}
    return re.sub(r'\\u\{([0-9a-fA-F]+)\}', lambda m: chr(int(m.group(1), 16)), s)


# ---- (b) error-to-exit-status mapping ------------------------------------------------------

class _ListHandler(logging.Handler):
    def __init__(self):
        super().__init__()
        self.records = []

    def emit(self, record):
        self.records.append(record)


def body_errors(ctx, kind):
    from emsarray.cli import utils as cu
    from emsarray.cli.exceptions import CommandException
    code = ctx.int('code')
    handler = _ListHandler()
    logger = logging.getLogger('emsarray.cli.errors')
    old_handlers = list(logger.handlers)
    logger.handlers = [handler]
    old_level, old_prop = logger.level, logger.propagate
    logger.setLevel(logging.DEBUG)
    logger.propagate = False
    try:
        try:
            with cu.nice_console_errors():
                if kind == 'command':
                    raise CommandException('points outside the model', code=code)
                if kind == 'command_default':
                    raise CommandException('unknown output format')
                if kind == 'oserror':
                    raise FileNotFoundError(2, 'No such file', 'missing.nc')
                if kind == 'permission':
                    raise PermissionError(13, 'Permission denied', 'out.nc')
                if kind == 'value':
                    raise ValueError('unreadable geometry')
                if kind == 'nonintersecting':
                    import shapely
                    from emsarray.operations.point_extraction import NonIntersectingPoints
                    raise NonIntersectingPoints(indexes=numpy.array([1]), points=[shapely.Point(0, 0)])
                if kind == 'none':
                    pass
        except SystemExit as e:
            status = e.code
        else:
            status = None
    finally:
        logger.handlers = old_handlers
        logger.setLevel(old_level)
        logger.propagate = old_prop
    if kind == 'none':
        ctx.check(status is None and not handler.records, 'no error: no exit, no message')
        return
    ctx.check(status is not None, 'a failure ends the program with SystemExit')
    ctx.check(len(handler.records) >= 1 and all(r.levelno >= logging.ERROR for r in handler.records), 'a message is logged at error level')
    if kind == 'command':
        ctx.check(same(status, code), 'CommandException exits with its own code')
        ctx.check('points outside the model' in handler.records[0].getMessage(), 'the message is the exception message')
    elif kind == 'command_default':
        ctx.check(status == 1, 'CommandException defaults to exit status 1')
    else:
        ctx.check(isinstance(status, int) and status != 0, 'user-caused failures end with a non-zero exit status')


# ---- (b1) output format guessed from the extension: every extension -----------------------------

class _FakePath:
    """Stands for the output Path: guess_format reads only `.suffix` (a string that is empty or '.' + name chars)."""
    def __init__(self, suffix):
        self.suffix = suffix

    def __fspath__(self):
        raise HarnessError('guess_format touched the file system')


GUESS = {'.json': 'geojson', '.geojson': 'geojson', '.wkt': 'wkt', '.wkb': 'wkb', '.shp': 'shapefile'}


def body_guess(ctx):
    from pathlib import Path
    from emsarray.cli.commands.export_geometry import Command
    from emsarray.cli.exceptions import CommandException
    # what Path.suffix can be: '' or a dot followed by characters that are neither '.' nor '/' (printable ASCII here)
    name_char = z3.Union(z3.Range('!', '-'), z3.Range('0', '~'))
    language = z3.Union(z3.Re(''), z3.Concat(z3.Re('.'), z3.Plus(name_char)))
    literals = _string_literals(Command.guess_format) | set(GUESS)
    suffix = ctx.text('suffix', constants=sorted(literals), language=language)
    if ctx.symbolic:
        path = _FakePath(suffix)
    else:
        path = Path('out' + suffix)
        if path.suffix != suffix:
            raise HarnessError(f'witness {suffix!r} is not a path suffix')
    try:
        got = Command().guess_format(path)
    except CommandException:
        got = None
    for ext, fmt in GUESS.items():
        ctx.check(Implies(suffix == ext, got == fmt), f'extension {ext} is exported as {fmt}')
    if got is not None:
        ctx.check(Or(*[suffix == ext for ext, fmt in GUESS.items() if fmt == got]) if any(fmt == got for fmt in GUESS.values()) else False,
                  'a format is guessed only for the documented extensions, any other extension is refused')


def _string_literals(fn):
    """every string literal in the source of `fn` (regenerated from the working tree on each run)"""
    tree = ast.parse(textwrap.dedent(inspect.getsource(fn)))
    out = set()
    for node in ast.walk(tree):
        if isinstance(node, ast.Constant) and isinstance(node.value, str) and len(node.value) < 40:
            out.add(node.value)
    return out


# ---- (b2) extract-points for every pattern of hits and misses --------------------------------

HOLD = {}


def _extract_patches():
    """Symbolic mode: the command reads its dataset / table from, and writes its result to, memory."""
    import pandas
    import emsarray
    import emsarray.cli.commands.extract_points as ep
    return env.patched(
        (ep, 'emsarray', env.Proxy(emsarray, dict(open_dataset=lambda path, **k: HOLD['ds']))),
        (ep, 'pandas', env.Proxy(pandas, dict(read_csv=lambda path, **k: HOLD['df'].copy()))),
        (ep, 'to_netcdf_with_fixes', lambda dataset, path, **k: HOLD['written'].append((dataset, str(path), k))),
    )


def body_extract(ctx, nreq, policy, conv, blank=False, pdim=None):
    """emsarray extract-points == extract_dataframe for every vector of per-row outcomes (hit cell n / miss); under
    'error' any miss ends with a non-zero status, a message naming exactly the missing rows, and no output."""
    import contextlib
    import io
    import pandas
    import shapely
    import xarray
    import emsarray
    from emsarray.cli import main
    from emsarray.operations import point_extraction
    from harness.c05 import OutcomeTree
    t = xarray.DataArray(numpy.array(['2020-01-01T00', '2020-01-02T00'], dtype='datetime64[ns]'), dims=['t'])
    if conv == 'cf1d':
        ds = builders.cf1d(2, 2, data_vars={'temp': (('t', 'y', 'x'), numpy.arange(8.0).reshape(2, 2, 2) + 0.5),
                                            'count': (('y', 'x'), numpy.arange(4, dtype='int32').reshape(2, 2)),
                                            'flag': (('y', 'x'), numpy.array([[200, 206], [213, 7]], dtype='uint8')),
                                            'packed': (('y', 'x'), numpy.array([[1.0, 2.0], [3.0, 4.0]]))}).assign_coords(time=t)
        # stored as scaled integers whose fill value is 0
        ds['packed'].encoding.update(dtype='int16', _FillValue=numpy.int16(0), scale_factor=0.5)
    else:
        ds = builders.ugrid('tqp', fill='nan', data_vars={'temp': (('t', 'nface'), numpy.arange(6.0).reshape(2, 3) + 0.5)}).assign_coords(time=t)
    polygons = ds.ems.polygons
    N = len(polygons)
    # forks: (N+1)^nreq outcome vectors; with `blank`, row 1 of the table is completely empty (",,"): a point that is nowhere
    outcomes = [(-1 if (blank and k == 1) else int(ctx.int(f'o{k}', -1, N - 1))) for k in range(nreq)]
    misses = [k for k, o in enumerate(outcomes) if o < 0]
    hits = [k for k, o in enumerate(outcomes) if o >= 0]
    ctx.note('rows', dict(outcomes=outcomes, policy=policy))
    argv_tail = ['--missing-points', policy] if policy != 'default' else []
    if pdim:
        # the name of the point dimension chosen on the command line
        argv_tail += (['-d', pdim] if nreq % 2 else ['--point-dimension', pdim])
    pname = pdim or 'point'
    eff = 'error' if policy == 'default' else policy

    def run_main(argv):
        err = io.StringIO()
        with contextlib.redirect_stderr(err):
            try:
                main(['-q'] + list(argv))
                status = 0
            except SystemExit as e:
                status = e.code if e.code is not None else 0
        return status, err.getvalue()

    if ctx.symbolic:
        coords = [(float(k), 0.0) for k in range(nreq)]
        df = pandas.DataFrame({'lon': [c[0] for c in coords], 'lat': [c[1] for c in coords], 'name': [f'row{k}' for k in range(nreq)]})
        if blank:
            df.loc[1, ['lon', 'lat', 'name']] = [numpy.nan, numpy.nan, numpy.nan]

        class _Tree(OutcomeTree):
            def query(self, geometry, predicate=None, distance=None):
                if numpy.isnan(geometry.x):
                    return numpy.array([], dtype=numpy.intp)
                return super().query(geometry, predicate=predicate, distance=distance)
        OutcomeTree = _Tree
        ds.ems.__dict__['strtree'] = OutcomeTree(polygons, outcomes)
        HOLD.clear()
        HOLD.update(ds=ds, df=df, written=[])
        status, message = run_main(['extract-points', 'in.nc', 'points.csv', 'out.nc'] + argv_tail)
        written = [w[0] for w in HOLD['written']]
        out = written[0] if written else None
        ctx.check(len(written) <= 1, 'at most one output file is written')
        lib_ds = ds
        work = None
    else:
        os.makedirs(os.path.join(VERIF, '.work'), exist_ok=True)
        work = tempfile.mkdtemp(dir=os.path.join(VERIF, '.work'), prefix='c20x-')
        coords = []
        for o in outcomes:
            if o < 0:
                coords.append((-170.0 + len(coords), -80.0))
            else:
                pt = polygons[o].representative_point()
                coords.append((pt.x, pt.y))
        df = pandas.DataFrame({'lon': [c[0] for c in coords], 'lat': [c[1] for c in coords], 'name': [f'row{k}' for k in range(nreq)]})
        if blank:
            df.loc[1, ['lon', 'lat', 'name']] = [numpy.nan, numpy.nan, numpy.nan]
        src, csv, dst = (os.path.join(work, n) for n in ('in.nc', 'points.csv', 'out.nc'))
        ds.to_netcdf(src)
        df.to_csv(csv, index=False)
        status, message = run_main(['extract-points', src, csv, dst] + argv_tail)
        out = xarray.open_dataset(dst).load() if os.path.exists(dst) else None
        lib_ds = emsarray.open_dataset(src)
        df = pandas.read_csv(csv)
    try:
        if eff == 'error' and misses:
            ctx.check(status not in (0, None), 'points outside the model end with a non-zero exit status')
            ctx.check(out is None, 'points outside the model: no output file (never a partial success)')
            ctx.check(f'total rows: {len(misses)}' in message and all(f'row{k}' in message for k in misses[:5] if not (blank and k == 1))
                      and not any(f'row{k}' in message for k in hits), 'the message names exactly the rows that miss')
            return
        if not hits:
            # nothing to extract: the library refuses (ValueError) and so must the command
            try:
                point_extraction.extract_dataframe(lib_ds, df, ('lon', 'lat'), point_dimension=pname, missing_points=eff)
                lib_fails = False
            except ValueError:
                lib_fails = True
            if lib_fails:
                ctx.check(status not in (0, None) and out is None, 'what the library refuses the command refuses, with a non-zero exit status')
                return
        ctx.check(status == 0 and out is not None, 'extract-points succeeds when the library call succeeds')
        if out is None:
            return
        ref = point_extraction.extract_dataframe(lib_ds, df, ('lon', 'lat'), point_dimension=pname, missing_points=eff)
        ctx.check(set(out.data_vars) == set(ref.data_vars) and dict(out.sizes) == dict(ref.sizes), 'same variables and sizes as extract_dataframe')
        ctx.check(pname in out.dims and pname in out.variables and list(out[pname].values) == list(ref[pname].values),
                  'same rows, labelled with their original positions, along the point dimension asked for')
        ok = True
        for v in ref.data_vars:
            a, b = numpy.asarray(out[v].values), numpy.asarray(ref[v].values)
            if a.dtype.kind in 'fc' or b.dtype.kind in 'fc':
                ok = ok and a.shape == b.shape and bool(numpy.allclose(a.astype(float), b.astype(float), equal_nan=True, rtol=0, atol=0))
            elif a.dtype.kind in 'USO' or b.dtype.kind in 'USO':
                # text columns: a missing text (NaN in the table) is the empty string in a netCDF file
                def norm(x):
                    return ['' if (isinstance(v, float) and v != v) else str(v) for v in numpy.asarray(x, dtype=object).ravel()]
                ok = ok and a.shape == b.shape and norm(a) == norm(b)
            else:
                ok = ok and a.shape == b.shape and bool((a == b).all())
        ctx.check(ok, 'file content equals what extract_dataframe returns')
    finally:
        if work:
            if out is not None:
                out.close()
            shutil.rmtree(work, ignore_errors=True)


# ---- (c) whole-command equivalence on real files -------------------------------------------

def cli_equivalence(tier):
    """Run emsarray.cli.main(argv) in process and compare with the library call."""
    import pandas
    import shapely
    import xarray
    import emsarray
    from emsarray.cli import main
    from emsarray.cli.exceptions import CommandException
    from emsarray.operations import geometry as geom_ops, point_extraction
    viol, notes = [], []
    os.makedirs(os.path.join(VERIF, '.work'), exist_ok=True)
    work = tempfile.mkdtemp(dir=os.path.join(VERIF, '.work'), prefix='c20-')

    def V(case, label, detail, inputs=None):
        viol.append(dict(case=case, label=label, inputs=inputs or {}, detail=str(detail)[:1500], how='in-process CLI run on real files'))

    def run_main(argv):
        try:
            main(['-q'] + list(argv))
            return 0
        except SystemExit as e:
            return e.code if e.code is not None else 0
    try:
        datasets = {}
        t = xarray.DataArray(numpy.array(['2020-01-01T00', '2020-01-02T00'], dtype='datetime64[ns]'), dims=['t'])
        ds1 = builders.cf1d(3, 4, data_vars={'temp': (('t', 'y', 'x'), numpy.arange(24.0).reshape(2, 3, 4))}).assign_coords(time=t)
        datasets['cf1d'] = ds1
        ds2 = builders.shoc_standard(3, 3, data_vars={'eta': (('t',) + builders.SHOC_DIMS['face'], numpy.arange(18.0).reshape(2, 3, 3))})
        datasets['shoc_standard'] = ds2.assign_coords(t=t)
        ds3 = builders.ugrid('block', fill='nan', data_vars={'depth': (('nface',), numpy.arange(7.0))})
        datasets['ugrid'] = ds3
        # coordinates that need decoding: packed as scaled integers on disk
        ds4 = builders.cf1d(3, 4, lat=numpy.array([-20.5, -20.0, -19.5]), lon=numpy.array([149.5, 150.0, 150.5, 151.0]),
                            data_vars={'temp': (('t', 'y', 'x'), numpy.arange(24.0).reshape(2, 3, 4))}).assign_coords(time=t)
        ds4['lat'].encoding.update(dtype='int16', scale_factor=0.05, add_offset=-20.0, _FillValue=numpy.int16(-32768))
        ds4['lon'].encoding.update(dtype='int16', scale_factor=0.05, add_offset=150.0, _FillValue=numpy.int16(-32768))
        datasets['cf1d-packed'] = ds4
        # a static file: no time coordinate at all
        datasets['cf1d-static'] = builders.cf1d(3, 4, data_vars={'botz': (('y', 'x'), numpy.arange(12.0).reshape(3, 4))})
        # a model calendar without leap days (decoded to cftime objects, not numpy datetimes)
        try:
            tnl = xarray.date_range('2000-02-27', periods=2, calendar='noleap', use_cftime=True)
            dnl = builders.cf1d(3, 4, data_vars={'temp': (('t', 'y', 'x'), numpy.arange(24.0).reshape(2, 3, 4))}).assign_coords(time=(('t',), tnl))
            dnl['time'].encoding.update(units='days since 1990-01-01 00:00:00', calendar='noleap')
            datasets['cf1d-noleap'] = dnl
        except Exception:
            pass
        # many variables (more than a file-handle cache holds): the clipped pieces must still be there when the result is saved
        datasets['cf1d-many'] = builders.cf1d(2, 3, data_vars={f'v{k:03d}': (('y', 'x'), numpy.arange(6.0).reshape(2, 3) + k) for k in range(140)})
        for name, ds in datasets.items():
            src = os.path.join(work, f'{name}.nc')
            ds.to_netcdf(src)
            lib = emsarray.open_dataset(src)
            polys = [p for p in lib.ems.polygons if p is not None]
            b = shapely.unary_union(polys[:2]).bounds
            # --- clip
            out_cli = os.path.join(work, f'{name}-clip-cli.nc')
            arg = ','.join(repr(float(v)) for v in b)
            status = run_main(['clip', src, arg, out_cli])
            if status != 0 or not os.path.exists(out_cli):
                V(f'cli:clip:{name}', 'clip from the command line succeeds on valid input', f'exit status {status}', dict(argv=['clip', src, arg, out_cli]))
            else:
                wd = tempfile.mkdtemp(dir=work)
                out_lib = os.path.join(work, f'{name}-clip-lib.nc')
                emsarray.open_dataset(src).ems.clip(shapely.box(*b), wd).ems.to_netcdf(out_lib)
                a, c = xarray.open_dataset(out_cli), xarray.open_dataset(out_lib)
                if not a.identical(c):
                    V(f'cli:clip:{name}', 'clip output equals the library result', f'{a}\n!=\n{c}')
                a.close()
                c.close()
            # --- export-geometry, explicit and guessed formats
            for fmt, ext, writer in (('geojson', '.geojson', geom_ops.write_geojson), ('geojson', '.json', geom_ops.write_geojson),
                                     ('wkt', '.wkt', geom_ops.write_wkt), ('wkb', '.wkb', geom_ops.write_wkb)):
                for explicit in (False, True, 'auto', 'auto-long'):
                    out_cli = os.path.join(work, f'{name}-geom-cli-{explicit}{ext}')
                    # (the documented choice 'auto' written out means what leaving the option out means)
                    argv = ['export-geometry', src, out_cli] + ({False: [], True: ['-f', fmt], 'auto': ['-f', 'auto'], 'auto-long': ['--format', 'auto']}[explicit])
                    status = run_main(argv)
                    out_lib = os.path.join(work, f'{name}-geom-lib{ext}')
                    writer(emsarray.open_dataset(src), out_lib)
                    if status != 0 or not os.path.exists(out_cli):
                        V(f'cli:export:{name}:{fmt}', 'export-geometry succeeds on valid input', f'exit status {status}', dict(argv=argv))
                    elif open(out_cli, 'rb').read() != open(out_lib, 'rb').read():
                        V(f'cli:export:{name}:{fmt}', 'exported file equals the library writer output', 'file contents differ', dict(argv=argv))
            # an explicit --format wins over what the extension suggests
            for fmt, ext, writer in (('wkt', '.json', geom_ops.write_wkt), ('geojson', '.wkt', geom_ops.write_geojson), ('wkb', '.geojson', geom_ops.write_wkb)):
                out_cli = os.path.join(work, f'{name}-geom-cli-forced-{fmt}{ext}')
                argv = ['export-geometry', src, out_cli, '--format', fmt]
                status = run_main(argv)
                out_lib = os.path.join(work, f'{name}-geom-lib-forced-{fmt}')
                writer(emsarray.open_dataset(src), out_lib)
                if status != 0 or not os.path.exists(out_cli):
                    V(f'cli:export:{name}:{fmt}:forced', 'export-geometry succeeds on valid input', f'exit status {status}', dict(argv=argv))
                elif open(out_cli, 'rb').read() != open(out_lib, 'rb').read():
                    V(f'cli:export:{name}:{fmt}:forced', 'the requested --format is written whatever the extension of the output file',
                      f'{out_cli} is not what write_{fmt} produces', dict(argv=argv))
            status = run_main(['export-geometry', src, os.path.join(work, 'geom.xyz')])
            if status in (0, None):
                V(f'cli:export:{name}', 'unknown output format ends with a non-zero exit status', f'exit status {status}')
            # --- extract-points
            pts = [p.representative_point() for p in polys[:3]]
            # (text columns are carried through as they are written: leading blanks, a cell of blanks only)
            rows = [(p.x, p.y, (' n0', 'n1 ', '  ')[k % 3]) for k, p in enumerate(pts)]
            miss = rows[:1] + [(-170.0, -80.0, 'far')] + rows[1:]
            for label, table, policies in (('hits', rows, ('error', 'drop', 'fill')), ('miss', miss, ('error', 'drop', 'fill'))):
                csv = os.path.join(work, f'{name}-{label}.csv')
                df = pandas.DataFrame(table, columns=['lon', 'lat', 'name'])
                df.to_csv(csv, index=False)
                for policy in policies:
                    out_cli = os.path.join(work, f'{name}-pts-{label}-{policy}.nc')
                    argv = ['extract-points', src, csv, out_cli, '--missing-points', policy]
                    status = run_main(argv)
                    expect_fail = (label == 'miss' and policy == 'error')
                    if expect_fail:
                        if status in (0, None) or os.path.exists(out_cli):
                            V(f'cli:extract:{name}:{label}:{policy}', 'points outside the model end with a non-zero status and no output',
                              f'exit status {status}, output exists: {os.path.exists(out_cli)}', dict(argv=argv))
                        continue
                    if status != 0 or not os.path.exists(out_cli):
                        V(f'cli:extract:{name}:{label}:{policy}', 'extract-points succeeds', f'exit status {status}', dict(argv=argv))
                        continue
                    lib_ds = point_extraction.extract_dataframe(emsarray.open_dataset(src), pandas.read_csv(csv), ('lon', 'lat'),
                                                                point_dimension='point', missing_points=policy)
                    got = xarray.open_dataset(out_cli)
                    for v in lib_ds.data_vars:
                        if lib_ds[v].dtype.kind == 'f':
                            if v not in got or not numpy.allclose(got[v].values, lib_ds[v].values, equal_nan=True):
                                V(f'cli:extract:{name}:{label}:{policy}', 'extract-points output equals extract_dataframe', f'variable {v} differs')
                        elif lib_ds[v].dtype.kind in 'OUS':
                            if v not in got or [str(x) for x in got[v].values] != [str(x) for x in lib_ds[v].values]:
                                V(f'cli:extract:{name}:{label}:{policy}', 'extract-points output equals extract_dataframe',
                                  f'text variable {v} differs: {list(got[v].values) if v in got else None!r} != {list(lib_ds[v].values)!r}')
                    if list(got['point'].values) != list(lib_ds['point'].values):
                        V(f'cli:extract:{name}:{label}:{policy}', 'extract-points output equals extract_dataframe', 'point labels differ')
                    got.close()
            notes.append(name)
        # longer inputs: a table of 2,500 stations (most of them inside the model), bounds written with all their digits
        import contextlib
        src = os.path.join(work, 'cf1d.nc')
        rng = numpy.random.default_rng(7)
        nrows = 2500
        big = pandas.DataFrame({'lon': 99.0 + rng.random(nrows) * 8.5, 'lat': 9.4 + rng.random(nrows) * 3.2, 'name': [f'station{k:04d}' for k in range(nrows)]})
        big_csv = os.path.join(work, 'many-stations.csv')
        big.to_csv(big_csv, index=False)
        for policy in ('drop', 'fill', 'error'):
            out_cli = os.path.join(work, f'many-stations-{policy}.nc')
            err = io.StringIO()
            with contextlib.redirect_stderr(err):
                status = run_main(['extract-points', src, big_csv, out_cli, '--missing-points', policy])
            table = pandas.read_csv(big_csv)
            try:
                lib_ds = point_extraction.extract_dataframe(emsarray.open_dataset(src), table, ('lon', 'lat'), point_dimension='point', missing_points=policy)
            except point_extraction.NonIntersectingPoints as e:
                msg = err.getvalue()
                if status in (0, None) or os.path.exists(out_cli) or f'total rows: {len(e.indexes)}' not in msg:
                    V(f'cli:extract:many-stations:{policy}', 'the message names exactly the rows that miss', f'status {status}; library: {len(e.indexes)} rows miss; message: {msg[-300:]}')
                continue
            if status != 0 or not os.path.exists(out_cli):
                V(f'cli:extract:many-stations:{policy}', 'extract-points succeeds', f'exit status {status}')
                continue
            got = xarray.open_dataset(out_cli)
            if list(got['point'].values) != list(lib_ds['point'].values) or not numpy.allclose(got['temp'].values, lib_ds['temp'].values, equal_nan=True) \
                    or [str(v) for v in got['name'].values] != [str(v) for v in lib_ds['name'].values]:
                V(f'cli:extract:many-stations:{policy}', 'extract-points output equals extract_dataframe', f'{nrows} rows: labels / values / names differ')
            got.close()
        from emsarray.cli import utils as _cu
        for text, want in (('99.33333333333333,9.571428571428571,102.85714285714286,11.428571428571429', (99.33333333333333, 9.571428571428571, 102.85714285714286, 11.428571428571429)),
                           ('-170.12345678901234,-45.98765432109876,-165.00000000000001,-40.000000000000007', (-170.12345678901234, -45.98765432109876, -165.00000000000001, -40.000000000000007)),
                           ('100.0000000000000000000000000000000000000000000000000000000000,10,101,11.5', (100.0, 10.0, 101.0, 11.5))):
            try:
                got = _cu.geometry_argument(text)
                ok = got.equals(shapely.box(*want))
            except Exception as e:
                ok, got = False, f'{type(e).__name__}: {e}'
            if not ok:
                V('cli:bounds:long', "a bounds argument 'a,b,c,d' denotes exactly that box, however many digits are written", f'{text!r} -> {got}')
        # a GeoJSON file argument denotes the geometry that is in the file *now*: same path, new content
        from emsarray.cli import utils as cu
        region = os.path.join(work, 'region.geojson')
        src = os.path.join(work, 'cf1d.nc')
        lib = emsarray.open_dataset(src)
        polys = [p for p in lib.ems.polygons if p is not None]
        for step, pick in enumerate(([0, 1], [len(polys) - 1], [0, 1])):
            geom = shapely.unary_union([polys[i] for i in pick]).envelope.buffer(-0.01)
            with open(region, 'w') as f:
                json.dump(shapely.geometry.mapping(geom), f)
            got = cu.geometry_argument(region)
            if not got.equals(geom):
                V(f'cli:geometry-file:step{step}', 'a GeoJSON file argument denotes exactly the geometry in the file',
                  f'file holds {geom.wkt}, argument parsed as {got.wkt}', dict(step=step))
            out_cli = os.path.join(work, f'region-clip-{step}.nc')
            status = run_main(['clip', src, region, out_cli])
            wd = tempfile.mkdtemp(dir=work)
            out_lib = os.path.join(work, f'region-clip-lib-{step}.nc')
            emsarray.open_dataset(src).ems.clip(geom, wd).ems.to_netcdf(out_lib)
            if status != 0 or not os.path.exists(out_cli):
                V(f'cli:geometry-file:step{step}', 'clip with a GeoJSON file succeeds', f'exit status {status}')
            else:
                a, c = xarray.open_dataset(out_cli), xarray.open_dataset(out_lib)
                if not a.identical(c):
                    V(f'cli:geometry-file:step{step}', 'clip output equals the library result for the geometry in the file',
                      f'{dict(a.sizes)} != {dict(c.sizes)}', dict(step=step))
                a.close()
                c.close()
        # a GeoJSON argument of any geometry type denotes that geometry (string form and file form)
        b = shapely.unary_union(polys[:2]).bounds
        cx, cy = (b[0] + b[2]) / 2, (b[1] + b[3]) / 2
        kinds = {
            'Point': shapely.Point(cx, cy),
            'MultiPoint': shapely.MultiPoint([(cx, cy), (b[0] + 0.01, b[1] + 0.01)]),
            'LineString': shapely.LineString([(b[0] + 0.01, b[1] + 0.01), (b[2] - 0.01, b[3] - 0.01)]),
            'MultiLineString': shapely.MultiLineString([[(b[0] + 0.01, cy), (cx, cy)], [(cx, b[1] + 0.01), (cx, b[3] - 0.01)]]),
            'Polygon+hole': shapely.box(*b).difference(shapely.Point(cx, cy).buffer(0.05, quad_segs=2)),
            'MultiPolygon': shapely.MultiPolygon([shapely.box(b[0], b[1], cx - 0.1, cy), shapely.box(cx + 0.1, cy, b[2], b[3])]),
            # a ring that crosses itself: not a valid polygon, and still exactly what the user wrote
            # (spanning three cells, so that its two lobes select different cells)
            'bow-tie': (lambda q: shapely.Polygon([(q[0] + 0.01, q[1] + 0.01), (q[2] - 0.01, q[3] - 0.01), (q[2] - 0.01, q[1] + 0.01), (q[0] + 0.01, q[3] - 0.01)]))(
                shapely.unary_union(polys[:3]).bounds),
        }
        for kind, geom in kinds.items():
            text = json.dumps(shapely.geometry.mapping(geom))
            with open(region, 'w') as f:
                f.write(text)
            pretty = json.dumps(shapely.geometry.mapping(geom), indent=2)
            for form, arg in (('string', text), ('file', region), ('string with leading blank', ' ' + text),
                              ('pretty-printed string', '\n' + pretty + '\n')):
                try:
                    got = cu.geometry_argument(arg)
                except Exception as e:
                    V(f'cli:geojson:{kind}:{form}', 'a GeoJSON argument denotes exactly that geometry', f'refused: {type(e).__name__}: {e}', dict(kind=kind, form=form))
                    continue
                if got.geom_type != geom.geom_type or got.is_empty != geom.is_empty or not got.equals(geom):
                    V(f'cli:geojson:{kind}:{form}', 'a GeoJSON argument denotes exactly that geometry',
                      f'{geom.wkt[:200]} parsed as {got.wkt[:200]}', dict(kind=kind, form=form))
            if kind in ('LineString', 'Point', 'bow-tie'):
                out_cli = os.path.join(work, f'geojson-clip-{kind}.nc')
                status = run_main(['clip', src, text, out_cli])
                wd = tempfile.mkdtemp(dir=work)
                out_lib = os.path.join(work, f'geojson-clip-lib-{kind}.nc')
                emsarray.open_dataset(src).ems.clip(geom, wd).ems.to_netcdf(out_lib)
                if status != 0 or not os.path.exists(out_cli):
                    V(f'cli:geojson:{kind}:clip', 'clip with a GeoJSON geometry the library accepts succeeds', f'exit status {status}')
                else:
                    a, c = xarray.open_dataset(out_cli), xarray.open_dataset(out_lib)
                    if not a.identical(c):
                        V(f'cli:geojson:{kind}:clip', 'clip output equals the library result', f'{dict(a.sizes)} != {dict(c.sizes)}')
                    a.close()
                    c.close()
        # the CommandException raised for missing points names exactly the missing rows
        from emsarray.cli.commands.extract_points import Command
        src = os.path.join(work, 'cf1d.nc')
        csv = os.path.join(work, 'cf1d-miss.csv')
        ns = argparse.Namespace(input_path=src, points=csv, output_path=os.path.join(work, 'x.nc'), coordinate_columns=('lon', 'lat'),
                                point_dimension='point', missing_points='error')
        try:
            Command().handle(ns)
            V('cli:extract:message', 'missing points raise CommandException', 'no exception')
        except CommandException as e:
            if 'far' not in e.message or 'total rows: 1' not in e.message or 'n0' in e.message:
                V('cli:extract:message', 'the error names exactly the rows that miss', e.message)
    finally:
        shutil.rmtree(work, ignore_errors=True)
    return viol, notes


def guess_format_checks():
    from pathlib import Path
    from emsarray.cli.commands.export_geometry import Command
    from emsarray.cli.exceptions import CommandException
    viol = []
    expected = {'.json': 'geojson', '.geojson': 'geojson', '.wkt': 'wkt', '.wkb': 'wkb', '.shp': 'shapefile'}
    for suffix in list(expected) + ['.JSON', '.txt', '', '.shpx', '.geo', '.nc', '.wk']:
        p = Path('out' + suffix)
        try:
            got = Command().guess_format(p)
        except CommandException as e:
            got = None
        if got != expected.get(suffix):
            viol.append(dict(case=f'guess_format:{suffix}', label='output format guessed exactly for the documented extensions',
                             inputs=dict(suffix=suffix), detail=f'guess_format({str(p)!r}) = {got!r}, expected {expected.get(suffix)!r}',
                             how='enumerated suffixes'))
    return viol


def cases(tier):
    for kind in ('command', 'command_default', 'oserror', 'permission', 'value', 'nonintersecting', 'none'):
        yield Case(f'errors:{kind}', body_errors, dict(kind=kind), max_paths=50)
    yield Case('guess_format:any-extension', body_guess, dict(), max_paths=500)
    q = tier == 'quick'
    for conv in ('cf1d', 'ugrid'):
        for policy in ('default', 'error', 'drop', 'fill'):
            nreq = 2 if (q or policy in ('default',)) else 3
            yield Case(f'extract:{conv}:{policy}:{nreq}', body_extract, dict(nreq=nreq, policy=policy, conv=conv),
                       patches=_extract_patches, max_paths=2000, split=8)
            if policy in ('drop', 'fill'):
                yield Case(f'extract:{conv}:{policy}:{nreq}:point-dimension', body_extract, dict(nreq=nreq, policy=policy, conv=conv, pdim='station'),
                           patches=_extract_patches, max_paths=2000, split=8)
            if conv == 'cf1d' and policy != 'default':
                yield Case(f'extract:{conv}:{policy}:3:blank-row', body_extract, dict(nreq=3, policy=policy, conv=conv, blank=True),
                           patches=_extract_patches, max_paths=2000, split=8)


def functions():
    from emsarray.cli import utils as cu
    import emsarray.cli as cli
    from emsarray.cli.commands import clip, export_geometry, extract_points
    return [cu.geometry_argument, cu.bounds_argument, cu.nice_console_errors, cu.console_entrypoint,
            export_geometry.Command.guess_format, export_geometry.Command.handle, extract_points.Command.handle,
            clip.Command.handle, cli._find_all_commands]


def run(tier, seed=0, replay=None, procs=None, only=None):
    from emsarray.cli import utils as cu
    if replay:
        data = json.load(open(replay))
        if data['case'].startswith('grammar:'):
            fn = getattr(cu, data['case'].split(':')[1], cu.geometry_argument)
            s = data['inputs']['argument']
            kind, g = taken_as_bounds(fn, s)
            print(f'{fn.__name__}({s!r}) -> {kind}: {g}')
            bad = (kind == 'box') != (UPPER_PY.fullmatch(s) is not None)
            if bad:
                print(f'VIOLATION property={PROP} replay={replay}')
            return 1 if bad else 0
        return replay_file(replay, list(cases('thorough')))
    cs = list(cases(tier))
    if only:
        cs = [c for c in cs if re.search(only, c.name)]
    gv, ge, gs, nq, gt = grammar_checks(tier)
    fv = guess_format_checks()

    def late():
        t1 = time.time()
        cv, notes = cli_equivalence(tier)
        print(f'[C20] grammar queries {gt:.1f}s, cli equivalence {time.time() - t1:.1f}s')
        from symx import envsweep
        ev, _, extra = envsweep.late([
            ('clip_from_command_line', 'clip from the command line succeeds on valid input',
             lambda v: v['status'] == 0 and v['exists'] and v['shape'] == [2, 2, 2] and v['units'] == 'days since 1990-01-01 00:00:00 +10:00')])()
        return cv + ev, [], dict(cli_equivalence_datasets=notes, **extra)
    return main_run(
        PROP, tier, cs, functions=functions(), seed=seed, procs=procs, late_checks=late,
        extra_violations=gv + fv, extra_errors=ge,
        extra_evidence=dict(regex_inclusion_and_witness_queries=nq, regex_solver_time_s=round(gt, 2), grammar_samples=gs,
                            bounds_re_pattern=cu.bounds_re.pattern,
                            call_site_methods={f.__name__: str(call_site_method(f)) for f in (cu.geometry_argument, cu.bounds_argument)}),
        bounds=dict(
            grammar='argument strings: every ASCII string (unbounded length) for the two language inclusions; '
                    'numeral-to-float and argument order on solver-chosen witnesses (length <= 40)',
            errors='exception classes {CommandException(code: any Int), CommandException default, FileNotFoundError, PermissionError, '
                   'ValueError, NonIntersectingPoints, none}',
            cli='clip / extract-points / export-geometry on one dataset per convention family (CF 1-D, SHOC standard, UGRID), '
                'explicit and guessed formats, hit and miss tables x error/drop/fill',
            outside='non-ASCII digits/blanks; shapefile export (the writer needs a projection file; not compared); '
                    'whole-command equivalence is validated on witnesses only, not for all inputs'),
        stubs=['Python re -> z3 regular expression translation of bounds_re.pattern (ASCII); the translation is validated by '
               'pushing solver strings through the real function'],
        assumptions=['argparse passes the argument string unchanged to the type function'],
    )
