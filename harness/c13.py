"""C13 - depth normalisation reorients coordinates and data together, idempotently.

Real code: operations.depth.normalize_depth_variables (+ the Convention alias).
Depth values, bounds and data are symbolic reals; the branch on the ordering of
the first two depth values is a solver fork.
"""
import itertools
import re
import warnings

import numpy
import xarray

from symx.core import And, Iff, Implies, Not, Or, same, ite, HarnessError
from symx.runner import Case, main_run, replay_file
from symx.snap import snapshot, unchanged
from harness import depthcommon

PROP = 'C13'


def build(ctx, n, positive, with_bounds, dimcoord, data_pos, depth_mode, second=False):
    """depth_mode: 'symbolic' (values symbolic, strictly monotonic) or a tuple of concrete values."""
    dim = 'zc' if dimcoord else 'k'
    if depth_mode == 'symbolic':
        d = depthcommon.sym_values(ctx, 'z', (n,), base=1.0)
        inc = And(*[d[i] < d[i + 1] for i in range(n - 1)])
        dec = And(*[d[i] > d[i + 1] for i in range(n - 1)])
        ctx.assume(Or(inc, dec))
    elif isinstance(depth_mode[0], str):
        # whole-metre levels stored in an integer type
        d = numpy.array(depth_mode[1], dtype=depth_mode[0])
    else:
        d = numpy.array(depth_mode, dtype=float)
    attrs = {}
    if positive is not None:
        attrs['positive'] = positive
    variables = {}
    if with_bounds:
        if depth_mode != 'symbolic' and isinstance(depth_mode[0], str):
            # ... with layer interfaces half-way between them (fractional, float64)
            v = [float(x) for x in d]
            e = [v[0] - (v[1] - v[0]) / 2] + [(p + q) / 2 for p, q in zip(v, v[1:])] + [v[-1] + (v[-1] - v[-2]) / 2]
            b = numpy.array([[e[k], e[k + 1]] for k in range(n)])
        else:
            b = depthcommon.sym_values(ctx, 'zb', (n, 2), base=50.0)
        attrs['bounds'] = 'zc_bnds'
        variables['zc_bnds'] = ((dim, 'bnds'), b, {'note': 'bounds'})
    else:
        b = None
    dims = {0: (dim, 't', 'x'), 1: ('t', dim, 'x'), 2: ('t', 'x', dim)}[data_pos]
    shape = tuple({'t': 2, 'x': 2, dim: n}[x] for x in dims)
    temp = depthcommon.sym_values(ctx, 'v', shape, nan=True, base=1000.0)
    variables['temp'] = (dims, temp, {'units': 'degC'})
    variables['flat'] = (('t', 'x'), numpy.arange(4.0).reshape(2, 2))
    coords = {'zc': ((dim,), d, attrs)}
    if second:
        # a second coordinate for the same levels with the opposite sign convention (height above / depth below)
        coords['zalt'] = ((dim,), -1 * d, {'positive': 'up' if positive.lower() == 'down' else 'down', 'long_name': 'alt'})
    ds = xarray.Dataset(variables, coords=coords, attrs={'title': 'depth test'})
    ds['zc'].encoding['marker'] = 'keep-me'
    return ds, dim, d, b, temp, dims


def is_down(positive, d, ctx):
    """The sign convention the dataset declares (CF: case-insensitive); guessed from the values when absent."""
    if positive is not None:
        return positive.lower() == 'down'
    vals = [float(x) for x in d]
    return sum(1 for v in vals if v > 0) > len(vals) / 2


def body(ctx, n, positive, with_bounds, dimcoord, data_pos, pd, d2s, depth_mode, via, second=False, bounds_coords=False, dangling=False,
         numpy_options=False, layer_index=False, extra_dim=False):
    from emsarray.operations import depth as depth_ops
    ds, dim, d, b, temp, dims = build(ctx, n, positive, with_bounds, dimcoord, data_pos, depth_mode, second)
    if layer_index and not dimcoord:
        # the layer dimension has an index coordinate of its own (layer numbers) next to the depth coordinate
        ds = ds.assign_coords({dim: ((dim,), numpy.arange(n) + 1)})
    if numpy_options:
        # options computed with numpy (a comparison, a reduction) are numpy booleans; 1 / 0 mean the same
        pd_arg = None if pd is None else numpy.bool_(pd)
        d2s_arg = None if d2s is None else int(d2s)
    else:
        pd_arg, d2s_arg = pd, d2s
    if via == 'convention':
        # the same dataset as a CF grid dataset: the alias on the convention finds the depth coordinates itself
        from symx import builders
        geo_ds = builders.cf1d(1, 2)
        ds = ds.assign_coords({n: geo_ds[n].variable for n in ('lat', 'lon')})
        ds.attrs.update(geo_ds.attrs)
    if via in ('convention-shoc-simple', 'convention-shoc-simple-datavar'):
        # a SHOC simple dataset: the convention knows its depth coordinates by name (zc), whether or not xarray holds
        # them as coordinates (decode_coords=False, reset_coords)
        from symx import builders
        geo_ds = builders.shoc_simple(1, 2)
        ds = ds.assign_coords({n: geo_ds[n].variable for n in ('latitude', 'longitude')} if 'latitude' in geo_ds.variables else
                              {n: geo_ds[n].variable for n in geo_ds.variables if geo_ds[n].ndim == 2})
        ds.attrs.update(geo_ds.attrs)
        if via.endswith('datavar'):
            ds = ds.reset_coords('zc')
    if via == 'convention-marker':
        # found by the convention through one documented marker only (here: cartesian_axis), the sign convention is guessed
        from symx import builders
        geo_ds = builders.cf1d(1, 2)
        ds = ds.assign_coords({n: geo_ds[n].variable for n in ('lat', 'lon')})
        ds.attrs.update(geo_ds.attrs)
        ds['zc'].attrs.pop('long_name', None)
        ds['zc'].attrs['cartesian_axis'] = 'Z'
    if bounds_coords and with_bounds:
        ds = ds.set_coords('zc_bnds')      # the bounds variable held as an xarray coordinate
    if dangling:
        # the coordinate still names a bounds variable that is no longer in the dataset (as after select_variables)
        ds['zc'].attrs['bounds'] = 'zc_bnds_that_was_dropped'
    names = ['zc', 'zalt'] if second else ['zc']
    if second and n % 2:
        names = names[::-1]
    if extra_dim:
        # a second depth axis with a dimension coordinate of its own (layer faces next to layer centres), same sign
        # convention, listed after the first
        sign = 1.0 if positive.lower() == 'down' else -1.0
        ds = ds.assign_coords(zw=(('zw',), sign * numpy.array([1.5, 4.0, 9.0]), {'positive': positive}))
        ds['wflux'] = (('zw', 'x'), numpy.arange(6.0).reshape(3, 2))
        names = names + ['zw']
    before_attrs = dict(ds['zc'].attrs)
    snap = snapshot(ds)
    before_vals = list(ds['zc'].values)
    ctx.note('config', dict(n=n, positive=positive, bounds=with_bounds, dimcoord=dimcoord, pd=pd, d2s=d2s))

    def normalise(dataset):
        with warnings.catch_warnings(record=True) as w:
            warnings.simplefilter('always')
            if via in ('convention-shoc-simple', 'convention-shoc-simple-datavar'):
                from emsarray.conventions.shoc import ShocSimple
                cv = ShocSimple(dataset)
                ctx.check({str(c.name) for c in cv.depth_coordinates} == set(names), 'every depth coordinate of the dataset is found')
                out = cv.normalize_depth_variables(positive_down=pd_arg, deep_to_shallow=d2s_arg)
            elif via in ('convention', 'convention-marker'):
                from emsarray.conventions.grid import CFGrid1D
                cv = CFGrid1D(dataset)
                ctx.check({str(c.name) for c in cv.depth_coordinates} == set(names), 'every depth coordinate of the dataset is found')
                out = cv.normalize_depth_variables(positive_down=pd_arg, deep_to_shallow=d2s_arg)
            elif via == 'iterator':
                out = depth_ops.normalize_depth_variables(dataset, (n for n in names), positive_down=pd_arg, deep_to_shallow=d2s_arg)
            else:
                out = depth_ops.normalize_depth_variables(dataset, names, positive_down=pd_arg, deep_to_shallow=d2s_arg)
        return out, w

    out, warned = normalise(ds)
    down0 = is_down(positive, d, ctx)
    ctx.check((len([x for x in warned if 'positive' in str(x.message)]) == 1) == (positive is None),
              'a warning is emitted exactly when the positive attribute is missing')

    # physical depth below the surface of original level i
    # (integer-typed coordinates: the reference negates mathematical integers, not values of the narrow type)
    dm = [int(x) if isinstance(x, numpy.integer) else x for x in (d[i] for i in range(n))]
    phys = [dm[i] if down0 else -dm[i] for i in range(n)]
    down1 = down0 if pd is None else pd
    # expected order: reversal iff an order is requested and differs from the current one
    old_d2s = phys[0] > phys[1]
    if d2s is None:
        rev = False
    else:
        rev = Not(Iff(old_d2s, d2s)) if ctx.symbolic else (bool(old_d2s) != d2s)
    nz = out['zc']
    nv = nz.values
    ctx.check(nz.dims == (dim,) and len(nv) == n, 'depth coordinate keeps its dimension and length')
    if pd is not None:
        ctx.check(nz.attrs.get('positive') == ('down' if pd else 'up'), 'positive attribute states the requested sign convention')
    else:
        ctx.check(nz.attrs.get('positive') == before_attrs.get('positive'), 'positive attribute untouched when positive_down is None')
    ctx.check(all(nz.attrs.get(k) == v for k, v in before_attrs.items() if k != 'positive'), 'other coordinate attributes kept')

    def src(k):
        """original level that must sit at new position k"""
        return ite(rev, n - 1 - k, k) if False else None

    oks_val, oks_b, oks_data = [], [], []
    for k in range(n):
        for cand, cond in ((k, Not(rev)), (n - 1 - k, rev)):
            exp = phys[cand] if down1 else -phys[cand]
            oks_val.append(Implies(cond, same(nv[k], exp)))
            if with_bounds:
                nb = out['zc_bnds'].values
                flip = (down1 != down0)
                for c in range(2):
                    eb = -b[cand, c] if flip else b[cand, c]
                    oks_b.append(Implies(cond, same(nb[k, c], eb)))
            for t in range(2):
                for x in range(2):
                    sel_new = {'t': t, 'x': x, dim: k}
                    sel_old = {'t': t, 'x': x, dim: cand}
                    a = out['temp'].values[tuple(sel_new[q] for q in out['temp'].dims)]
                    o = temp[tuple(sel_old[q] for q in dims)]
                    oks_data.append(Implies(cond, same(a, o)))
    ctx.check(And(*oks_val), 'values carry the requested sign and every level keeps its physical depth')
    if second:
        za = out['zalt']
        alt_down0 = not down0
        alt_down1 = alt_down0 if pd is None else pd
        oks = []
        for k in range(n):
            for cand, cond in ((k, Not(rev)), (n - 1 - k, rev)):
                oks.append(Implies(cond, same(za.values[k], phys[cand] if alt_down1 else -phys[cand])))
        ctx.check(And(*oks), 'second coordinate of the same levels: requested sign, every level keeps its physical depth')
        ctx.check(za.attrs.get('positive') == (('down' if pd else 'up') if pd is not None else ds['zalt'].attrs['positive']),
                  'second coordinate: positive attribute agrees with its values')
    if with_bounds:
        ctx.check(And(*oks_b), 'bounds are transformed with their level')
        ctx.check(out['zc_bnds'].dims == (dim, 'bnds'), 'bounds keep their dimensions')
    ctx.check(And(*oks_data), 'every data value is still attached to the same physical depth')
    ctx.check(tuple(out['temp'].dims) == tuple(dims), 'data dimension order untouched')
    # requested ordering holds on the result (in physical depth)
    if d2s is not None:
        newphys = [nv[k] if down1 else -nv[k] for k in range(n)]
        ordered = And(*[(newphys[k] > newphys[k + 1]) if d2s else (newphys[k] < newphys[k + 1]) for k in range(n - 1)])
        ctx.check(ordered, 'requested deep-to-shallow / shallow-to-deep ordering holds')
    if pd is not None and depth_mode != 'symbolic':
        pass
    ctx.check(same_list(out['flat'].values.ravel(), ds['flat'].values.ravel()), 'variables without the depth dimension untouched')
    ctx.check(out.attrs == ds.attrs, 'global attributes untouched')

    # input not modified
    ctx.check(dict(ds['zc'].attrs) == before_attrs, 'input dataset attributes are not modified')
    ctx.check(And(*[same(a, c) for a, c in zip(ds['zc'].values, before_vals)]), 'input dataset values are not modified')
    ctx.check(unchanged(ds, snap), 'the input dataset is not modified (every variable: values, attributes, encoding)')

    # idempotence
    out2, _ = normalise(out)
    ok = [same(a, c) for a, c in zip(out2['zc'].values, out['zc'].values)]
    ok += [same(a, c) for a, c in zip(out2['temp'].values.ravel(), out['temp'].values.ravel())]
    if with_bounds:
        ok += [same(a, c) for a, c in zip(out2['zc_bnds'].values.ravel(), out['zc_bnds'].values.ravel())]
    if positive is not None or pd is not None:
        ctx.check(And(*ok), 'normalising an already normalised dataset changes nothing')
        ctx.check(out2['zc'].attrs == out['zc'].attrs, 'second application leaves the attributes alone')


def same_list(a, b):
    return And(*[same(x, y) for x, y in zip(a, b)]) if len(a) == len(b) else False


def cases(tier):
    q = tier == 'quick'
    opts = list(itertools.product([None, True, False], repeat=2))
    positives = ['up', 'down', 'DOWN', 'Up'] if q else ['up', 'down', 'DOWN', 'Up', 'UP', 'Down']
    k = 0
    for positive in positives:
        for (pd, d2s) in opts:
            for with_bounds in (False, True):
                k += 1
                n = 2 + (k % 2 if q else k % 3)
                dimcoord = (k % 3 == 0)
                yield Case(f'sym:{positive}:pd{pd}:d2s{d2s}:b{int(with_bounds)}:n{n}:dc{int(dimcoord)}', body,
                           dict(n=n, positive=positive, with_bounds=with_bounds, dimcoord=dimcoord, data_pos=k % 3,
                                pd=pd, d2s=d2s, depth_mode='symbolic', via='function'),
                           patches=depthcommon.patches, max_paths=200)
    # the coordinate names handed over as a one-shot iterator; a bounds attribute that names a missing variable
    for positive in ('up', 'down'):
        for (pd, d2s) in (opts if not q else opts[1::2]):
            yield Case(f'sym:{positive}:pd{pd}:d2s{d2s}:b1:n3:iterator', body,
                       dict(n=3, positive=positive, with_bounds=True, dimcoord=False, data_pos=2, pd=pd, d2s=d2s, depth_mode='symbolic', via='iterator',
                            second=(positive == 'up')), patches=depthcommon.patches, max_paths=200)
            yield Case(f'sym:{positive}:pd{pd}:d2s{d2s}:b0:n2:dangling-bounds-attribute', body,
                       dict(n=2, positive=positive, with_bounds=False, dimcoord=True, data_pos=1, pd=pd, d2s=d2s, depth_mode='symbolic', via='function',
                            dangling=True), patches=depthcommon.patches, max_paths=200)
    # options given as numpy booleans / ints; a layer dimension that has an index coordinate of its own
    for positive in ('up', 'down'):
        for (pd, d2s) in opts:
            yield Case(f'sym:{positive}:pd{pd}:d2s{d2s}:b1:n2:numpy-options', body,
                       dict(n=2, positive=positive, with_bounds=True, dimcoord=(positive == 'down'), data_pos=1, pd=pd, d2s=d2s, depth_mode='symbolic',
                            via='function', numpy_options=True), patches=depthcommon.patches, max_paths=200)
            yield Case(f'sym:{positive}:pd{pd}:d2s{d2s}:b{int(pd is None)}:n3:layer-index', body,
                       dict(n=3, positive=positive, with_bounds=(pd is None), dimcoord=False, data_pos=2, pd=pd, d2s=d2s, depth_mode='symbolic',
                            via='function', layer_index=True, second=(d2s is True)), patches=depthcommon.patches, max_paths=200)
    # two depth axes, the second one a dimension coordinate
    for positive in ('up', 'down'):
        for (pd, d2s) in opts:
            yield Case(f'sym:{positive}:pd{pd}:d2s{d2s}:b1:n2:second-depth-axis', body,
                       dict(n=2, positive=positive, with_bounds=True, dimcoord=False, data_pos=1, pd=pd, d2s=d2s, depth_mode='symbolic',
                            via='function', extra_dim=True), patches=depthcommon.patches, max_paths=200)
    # bounds held as coordinates
    for positive in ('up', 'down'):
        for (pd, d2s) in opts:
            yield Case(f'sym:{positive}:pd{pd}:d2s{d2s}:b1:n2:bounds-as-coordinates', body,
                       dict(n=2, positive=positive, with_bounds=True, dimcoord=(positive == 'up'), data_pos=0,
                            pd=pd, d2s=d2s, depth_mode='symbolic', via='function', bounds_coords=True),
                       patches=depthcommon.patches, max_paths=200)
    # two depth coordinates along one dimension, normalised in one call
    for positive in ('up', 'down'):
        for (pd, d2s) in opts:
            for n in ((2, 3) if not q else ((2,) if positive == 'up' else (3,))):
                yield Case(f'sym2:{positive}:pd{pd}:d2s{d2s}:n{n}', body,
                           dict(n=n, positive=positive, with_bounds=(n == 3), dimcoord=(pd is None), data_pos=n % 3,
                                pd=pd, d2s=d2s, depth_mode='symbolic', via='function', second=True),
                           patches=depthcommon.patches, max_paths=200)
    # through Convention.normalize_depth_variables (every depth coordinate of the dataset, found by the convention)
    for positive, second in (('down', True), ('up', True), ('down', False)):
        for (pd, d2s) in (opts if not q else [o for o in opts if o[0] is not None or o[1] is not None][::2]):
            yield Case(f'alias:{positive}:second{int(second)}:pd{pd}:d2s{d2s}', body,
                       dict(n=2 if second else 3, positive=positive, with_bounds=not second, dimcoord=False, data_pos=1,
                            pd=pd, d2s=d2s, depth_mode='symbolic', via='convention', second=second),
                       patches=depthcommon.patches, max_paths=200)
    # through the alias of a SHOC simple convention (coordinates known by name; held as coordinate or as plain variable),
    # and of a CF convention that has one marker only to go by
    # (one marker only and no positive attribute: the sign convention is guessed from concrete values)
    for marker_vals in ((5.0, 10.0, 25.0), (-40.0, -15.0, -4.0)):
        for (pd, d2s) in ((True, True), (False, None), (None, False), (True, False)):
            yield Case(f'alias:convention-marker:guess{marker_vals[0]}:pd{pd}:d2s{d2s}', body,
                       dict(n=3, positive=None, with_bounds=True, dimcoord=False, data_pos=1, pd=pd, d2s=d2s, depth_mode=('float64', marker_vals), via='convention-marker'),
                       patches=depthcommon.patches, max_paths=50)
    for via in ('convention-shoc-simple', 'convention-shoc-simple-datavar'):
        for positive in ('up', 'down'):
            for (pd, d2s) in ((True, True), (False, None), (None, False), (True, False)):
                yield Case(f'alias:{via}:{positive}:pd{pd}:d2s{d2s}', body,
                           dict(n=3, positive=positive, with_bounds=True, dimcoord=False, data_pos=1, pd=pd, d2s=d2s, depth_mode='symbolic', via=via),
                           patches=depthcommon.patches, max_paths=200)
    # integer-typed depth coordinates with fractional float bounds
    for dt, vals, positive in (('int32', (5, 10, 25), 'down'), ('int16', (-40, -15, -4), 'up'), ('int64', (30, 7), 'DOWN')):
        for (pd, d2s) in opts:
            yield Case(f'intdepth:{dt}:{positive}:pd{pd}:d2s{d2s}', body,
                       dict(n=len(vals), positive=positive, with_bounds=True, dimcoord=(dt == 'int16'), data_pos=1,
                            pd=pd, d2s=d2s, depth_mode=(dt, vals), via='function'),
                       patches=depthcommon.patches, max_paths=50)
    # unsigned and narrow signed depth coordinates whose steps do not fit the type (200 -> 100 in uint16 wraps when
    # subtracted; 20000 -> -20000 does not fit int16); no change of sign is asked of the unsigned ones
    for dt, vals, positive, optset in (('uint16', (200, 100, 50, 0), 'down', ((True, True), (True, False), (None, True), (None, False), (True, None))),
                                       ('uint8', (0, 50, 100, 200), 'down', ((True, True), (True, False), (None, True), (None, False))),
                                       ('int16', (20000, -20000), 'up', ((True, True), (False, False), (None, True), (False, True), (True, False))),
                                       ('int16', (-20000, 20000), 'down', ((True, True), (False, False), (None, False)))):
        for (pd, d2s) in optset:
            yield Case(f'intdepth:{dt}:{vals[0]}:{positive}:pd{pd}:d2s{d2s}:wide-steps', body,
                       dict(n=len(vals), positive=positive, with_bounds=False, dimcoord=(dt == 'uint8'), data_pos=1,
                            pd=pd, d2s=d2s, depth_mode=(dt, vals), via='function'),
                       patches=depthcommon.patches, max_paths=50)
    # integer depths whose negation does not fit their type (the most negative value of a signed type; any unsigned
    # value) and that are asked to change sign: a recorded finding (known_findings.json)
    for dt, vals, positive, (pd, d2s) in (('int8', (-128, -50, 0), 'up', (True, None)), ('int16', (-32768, -100), 'up', (True, False)),
                                          ('uint16', (0, 50, 100, 120), 'down', (False, None))):
        yield Case(f'intdepth:{dt}:{vals[0]}:{positive}:pd{pd}:d2s{d2s}:negation-does-not-fit', body,
                   dict(n=len(vals), positive=positive, with_bounds=False, dimcoord=False, data_pos=1,
                        pd=pd, d2s=d2s, depth_mode=(dt, vals), via='function'),
                   patches=depthcommon.patches, max_paths=50)
    # many levels: a slim majority decides the guessed sign (6 of 11, 51 of 100); more than 128 layers are reordered whole
    slim = tuple([-5.0, -4.0, -3.0, -2.0, -1.0] + [1.0, 2.0, 3.0, 4.0, 5.0, 6.0])
    for vals in (slim, tuple(-float(v) for v in slim), tuple(float(v) for v in range(-49, 52) if v != 0)):
        for (pd, d2s) in ((True, True), (False, False), (True, None), (None, True)):
            yield Case(f'guess-many:{len(vals)}:{vals[0]}:pd{pd}:d2s{d2s}', body,
                       dict(n=len(vals), positive=None, with_bounds=False, dimcoord=False, data_pos=1, pd=pd, d2s=d2s, depth_mode=vals, via='function'),
                       patches=depthcommon.patches, max_paths=50)
    for n in (129, 200):
        for positive, (pd, d2s) in (('down', (True, True)), ('up', (True, False)), ('down', (None, True))):
            yield Case(f'many-layers:{n}:{positive}:pd{pd}:d2s{d2s}', body,
                       dict(n=n, positive=positive, with_bounds=True, dimcoord=(n == 200), data_pos=2, pd=pd, d2s=d2s,
                            depth_mode=('float64', tuple(float(k) * 0.5 + 0.25 for k in range(n))), via='function'),
                       patches=depthcommon.patches, max_paths=50)
    # positive attribute missing: the sign is guessed from the values (concrete depth values, symbolic data)
    for vals in ((0.5, 1.5, 2.5), (-0.5, -1.5, -2.5), (4.0, 2.0, 0.5), (-4.0, -2.0), (-20.0, -10.0, -5.0, -1.0, 1000.0), (30.0, 20.0, 5.0, -500.0)) if q else \
            ((0.5, 1.5, 2.5), (-0.5, -1.5, -2.5), (4.0, 2.0, 0.5), (-4.0, -2.0), (-3.0, -2.0, -1.0, -0.25), (9.0, 5.0)):
        for (pd, d2s) in opts:
            yield Case(f'guess:{"_".join(map(str, vals))}:pd{pd}:d2s{d2s}', body,
                       dict(n=len(vals), positive=None, with_bounds=True, dimcoord=False, data_pos=1,
                            pd=pd, d2s=d2s, depth_mode=vals, via='function'),
                       patches=depthcommon.patches, max_paths=50)


def functions():
    from emsarray.operations import depth
    from emsarray import utils
    return [depth.normalize_depth_variables, utils.name_to_data_array]


def run(tier, seed=0, replay=None, procs=None, only=None):
    if replay:
        return replay_file(replay, list(cases('thorough')) + list(cases('quick')))
    cs = list(cases(tier))
    if only:
        cs = [c for c in cs if re.search(only, c.name)]
    q = tier == 'quick'
    from symx import envsweep

    def depths_ok(v):
        for k in range(6):
            name = f'depth{k}' if k % 2 else f'k{k}'
            want = [20.0 * (k + 1), 5.0 * (k + 1), 1.0 * (k + 1)]
            if v[name]['values'] != want or v[name]['positive'] != 'down' or v[name]['long_name'] != f'depth {k}' or v[name]['dims'] != [f'k{k}']:
                return False
            if v[f'v{k}'] != [4.0 + k, 2.0 + k, 0.0 + k]:
                return False
        return True
    return main_run(
        PROP, tier, cs, functions=functions(), seed=seed, procs=procs,
        late_checks=envsweep.late([('normalise_depths_by_name', 'values carry the requested sign and every level keeps its physical depth', depths_ok)], only),
        bounds=dict(
            levels=f'2..{3 if q else 4} depth levels', options='all 9 combinations of positive_down x deep_to_shallow in {None, True, False}',
            positive='attribute values up/down in several letter cases (CF: case-insensitive), or absent (then depth values '
                     'are concrete sign patterns because the sign guess indexes with a comparison result)',
            symbolic='depth values (strictly monotonic Reals), bounds values, data values (Real + NaN flag)',
            layouts='depth as dimension coordinate or not; with/without bounds; depth dimension first/middle/last; second application',
            outside='depth coordinates on different dimensions in one call (C12 covers those through ocean_floor); non-monotonic depth; more than 4 levels'),
        stubs=['xarray.core.duck_array_ops.pandas_isnull taught the NaN flag of symbolic reals (not reached by this function)'],
        assumptions=['xarray assign/assign_coords/isel move object-array elements as they move floats (witness replay per path)'],
    )
