"""E2: CrossHair (independent symbolic-execution engine, z3 underneath) on pure-Python helpers."""
import itertools
import os
import re
import subprocess
import sys
import time

VERIF = os.path.dirname(os.path.dirname(os.path.abspath(__file__)))


def run_splice_tuple(timeout=20):
    t0 = time.time()
    env = dict(os.environ)
    env['PYTHONPATH'] = os.pathsep.join([os.path.join(os.environ.get('SYMX_DEV_REPO', '/repo'), 'src'), os.path.join(VERIF, '.deps')])
    cmd = [sys.executable, '-m', 'crosshair', 'check', '--report_all', '--per_condition_timeout', str(timeout),
           os.path.join(VERIF, 'crosshair', 'splice_contract.py')]
    try:
        p = subprocess.run(cmd, capture_output=True, text=True, env=env, timeout=timeout * 6 + 60)
        out = p.stdout + p.stderr
    except subprocess.TimeoutExpired:
        return dict(status='timeout', wall_s=round(time.time() - t0, 1))
    confirmed = len(re.findall(r'Confirmed over all paths', out))
    refuted = [l for l in out.splitlines() if 'error:' in l and 'false when calling' in l.lower()]
    res = dict(status='ran', confirmed_postconditions=confirmed, not_confirmed=len(re.findall(r'Not confirmed', out)),
               wall_s=round(time.time() - t0, 1), output_tail=out[-600:])
    if refuted:
        # replay: enumerate the small domain concretely through the real function
        from emsarray.utils import splice_tuple
        bad = []
        for n in range(1, 5):
            for t in itertools.product(range(3), repeat=n):
                for index in range(n):
                    for m in range(0, 4):
                        vals = tuple(range(10, 10 + m))
                        r = splice_tuple(t, index, vals)
                        if r != t[:index] + vals + t[index + 1:]:
                            bad.append((t, index, vals, r))
                            break
        res['violations'] = bad[:3] or None
        res['crosshair_counterexamples'] = refuted[:3]
    return res
