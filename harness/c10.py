"""C10 - mesh topology is independent of encoding and internally consistent.

The face-node table is symbolic: every node id is a z3 Int.  The derivation
code hashes and sorts node ids, so ids are concretised by forking; a canonical
first-occurrence labelling constraint makes the solver enumerate every mesh
topology of the given face sizes exactly once up to renaming of nodes
(solver-guided enumeration of isomorphism classes).  For every topology the
real Mesh2DTopology derives all tables, which are compared with reference
definitions, and the same mesh is then rebuilt in every file encoding.
"""
import itertools
import re

import numpy
import xarray
import z3

from symx import builders
from symx.core import And, HarnessError, Not, Or, SymInt
from symx.runner import Case, main_run, replay_file

PROP = 'C10'


def symbolic_faces(ctx, sizes, manifold=True):
    """Node ids of each face as concrete ints chosen by the solver: distinct within a face,
    canonically labelled (a new id is always the smallest unused one)."""
    slots = []
    faces = []
    used_max = -1
    for f, n in enumerate(sizes):
        face = []
        for k in range(n):
            v = ctx.int(f'n{f}_{k}', 0, sum(sizes) - 1)
            if ctx.symbolic:
                # canonical labelling: id <= 1 + max of all earlier ids
                ctx.assume(v <= used_max + 1)
                for w in face:
                    ctx.assume(Not(v == w))
            val = int(v)           # forks over the feasible ids
            face.append(val)
            used_max = max(used_max, val)
        faces.append(face)
    if not ctx.symbolic:
        # replay: re-check the preconditions on the concrete witness
        for f in faces:
            if len(set(f)) != len(f):
                raise HarnessError('witness violates distinctness')
    return faces


def ref_tables(faces):
    """Reference definitions, written from the UGRID conventions."""
    pairs = lambda f: list(zip(f, f[1:] + f[:1]))
    edge_set = []
    for f in faces:
        for a, b in pairs(f):
            k = frozenset((a, b))
            if k not in edge_set:
                edge_set.append(k)
    face_edges = [[frozenset(p) for p in pairs(f)] for f in faces]
    edge_faces = {k: [fi for fi, f in enumerate(faces) if k in face_edges[fi]] for k in edge_set}
    adjacency = {(a, b) for a in range(len(faces)) for b in range(len(faces)) if a != b and set(face_edges[a]) & set(face_edges[b])}
    return edge_set, face_edges, edge_faces, adjacency


def rows(arr):
    """masked 2-D index array -> list of lists (masked entries dropped)"""
    return [[int(v) for v in numpy.ma.compressed(r)] for r in arr]


def body_topology(ctx, sizes, with_edges):
    from emsarray.conventions.ugrid import Mesh2DTopology, UGrid
    faces = symbolic_faces(ctx, sizes)
    edge_set, face_edges, edge_faces, adjacency = ref_tables(faces)
    if any(len(v) > 2 for v in edge_faces.values()):
        ctx.check(True, 'not a manifold mesh (an edge shared by more than two faces): outside the claim')
        return
    nn = max(max(f) for f in faces) + 1
    nodes = [(float(i % 3) + 0.1 * i, float(i // 3) + 0.05 * i * i) for i in range(nn)]
    ctx.note('faces', faces)
    # with_edges == 'declared': the mesh names an edge dimension that no variable uses yet (its size is derived)
    ds = builders.ugrid((nodes, faces), fill='nan', with_edges=bool(with_edges), edge_marker=(with_edges != 'declared'))
    topo = Mesh2DTopology(ds)

    fn = rows(topo.face_node_array)
    ctx.check(fn == faces, 'face_node_array is the face-node table, faces in file order, nodes in listed order')
    if not with_edges:
        # without an edge dimension the library documents that edge tables are unavailable (NoEdgeDimensionException)
        ctx.check(not topo.has_edge_dimension, 'no edge dimension declared or implied')
        polys = UGrid(ds).polygons
        ctx.check(all([tuple(c) for c in p.exterior.coords[:-1]] == [nodes[v] for v in f] for p, f in zip(polys, faces) if p is not None),
                  'polygons follow the face-node table')
        return
    en = rows(topo.edge_node_array)
    ctx.check(all(len(e) == 2 for e in en), 'every edge has two nodes')
    got_edges = [frozenset(e) for e in en]
    ctx.check(len(set(got_edges)) == len(got_edges), 'no edge is listed twice')
    ctx.check(set(got_edges) == set(edge_set), "edges are exactly the consecutive node pairs of the faces (ring closed)")
    if with_edges:
        ctx.check(topo.edge_count == len(edge_set) or ds.sizes.get('nedge') == topo.edge_count, 'edge count')
    fe = rows(topo.face_edge_array)
    ok = len(fe) == len(faces)
    for fi in range(len(faces)):
        ok = ok and len(fe[fi]) == len(faces[fi]) and all(0 <= e < len(got_edges) for e in fe[fi]) and \
            [got_edges[e] for e in fe[fi]] == face_edges[fi]
    ctx.check(ok, "a face's edges are its consecutive node pairs, in ring order, closing edge included")
    ef = rows(topo.edge_face_array)
    ctx.check(len(ef) == len(got_edges) and all(sorted(ef[e]) == sorted(edge_faces[got_edges[e]]) for e in range(len(got_edges))),
              'an edge lists exactly the faces that contain it')
    ff = rows(topo.face_face_array)
    got_adj = {(a, b) for a in range(len(ff)) for b in ff[a]}
    ctx.check(got_adj == adjacency, 'face adjacency is symmetric and means sharing an edge')
    ctx.check(all(len(set(r)) == len(r) or True for r in ff), 'adjacency rows')


ENCODINGS = [dict(start_index=s, fill=f, transposed=t) for s in (0, 1) for f in ('nan', 'attr') for t in (False, True)]
# integer tables of other types and fill values: unsigned with the largest value / zero as fill, signed with 0 or -1
ENCODINGS += [dict(start_index=1, fill='attr', fill_value=0, dtype='uint16'), dict(start_index=0, fill='attr', fill_value=65535, dtype='uint16'),
              dict(start_index=1, fill='attr', fill_value=0, dtype='int32', transposed=True), dict(start_index=0, fill='attr', fill_value=-1, dtype='int64'),
              dict(start_index=1, fill='attr', fill_value=0, dtype='uint32'), dict(start_index=1, fill='nan', fill_value=0, dtype='int16')]
# 64-bit tables whose fill value does not fit in 32 bits; tables that do not all count from the same base
ENCODINGS += [dict(start_index=0, fill='attr', fill_value=int(numpy.iinfo('int64').max), dtype='int64'),
              dict(start_index=1, fill='attr', fill_value=-9223372036854775806, dtype='int64', transposed=True),
              dict(start_index=1, fill='attr', start_index_by_table={'edge_node': 0, 'face_face': 0, 'edge_face': 0}),
              dict(start_index=0, fill='nan', start_index_by_table={'edge_node': 1, 'face_edge': 1}),
              # start_index stored as the text "0" / "1"; one table stored the other way round than the others
              dict(start_index=0, fill='nan', start_index_as_text=True), dict(start_index=1, fill='attr', start_index_as_text=True),
              dict(start_index=0, fill='nan', transposed_tables=('face_face',)), dict(start_index=1, fill='attr', transposed_tables=('face_node', 'edge_face'))]


def body_encoding(ctx, mesh, supply, coords_as_coords, edge_order, two_name='Two', fill_first=False):
    """The same mesh in every file encoding gives the same normalised tables; supplied tables are used verbatim."""
    from emsarray.conventions.ugrid import Mesh2DTopology, UGrid
    nodes, faces = builders.MESHES[mesh]
    # which encoding: chosen by the solver
    e = int(ctx.int('encoding', 0, len(ENCODINGS) - 1))
    enc = dict(ENCODINGS[e])
    uniform = len({len(f) for f in faces}) == 1
    nofill = bool(ctx.bool('no_fill_needed')) if (uniform and not ({'edge_face', 'face_face'} & set(supply))) else False
    if nofill:
        enc['fill'] = 'none'
    nedges = len(builders.mesh_edges(faces)[0])
    order = list(range(nedges))
    if edge_order == 'reversed':
        order = order[::-1]
    elif edge_order == 'rotated':
        order = order[2:] + order[:2]
    face_xy = (numpy.array([numpy.mean([nodes[v][0] for v in f]) + 0.25 for f in faces]),
               numpy.array([numpy.mean([nodes[v][1] for v in f]) - 0.125 for f in faces]))
    ctx.note('encoding', dict(enc, supply=list(supply), coords=coords_as_coords, edge_order=edge_order))
    ds = builders.ugrid(mesh, supply=supply, coords_as_coords=coords_as_coords, edge_order=(order if supply else None),
                        face_xy=face_xy, with_edges=True, edge_face_fill_first=fill_first, **enc)
    base = builders.ugrid(mesh, fill='nan', with_edges=True)
    if two_name != 'Two':
        # UGRID does not name the size-2 dimension of the edge tables; here it is called something else and
        # another dimension of length two (two time steps) comes first in the dataset
        import xarray as _xr
        if 'Two' in ds.dims:
            ds = ds.rename({'Two': two_name})
        lead = _xr.Dataset({'tracer': (('time', 'nface'), numpy.zeros((2, len(faces))))})
        ds = lead.merge(ds).assign_attrs(ds.attrs)
    topo, ref = Mesh2DTopology(ds), Mesh2DTopology(base)
    ctx.check(rows(topo.face_node_array) == [list(f) for f in faces], 'face-node table normalised to zero-based, face dimension first, fill masked')
    ctx.check(topo.face_node_array.dtype.kind in 'iu', 'normalised table has an integer type')
    ctx.check(topo.face_dimension == 'nface' and topo.node_dimension == 'nnode' and topo.max_node_dimension == 'nmax',
              'dimensions discovered from the mesh attributes')
    edges_ref, edge_id = builders.mesh_edges(faces)
    edges_file = [edges_ref[i] for i in order] if supply else None
    edge_set, face_edges, edge_faces, adjacency = ref_tables([list(f) for f in faces])
    en = rows(topo.edge_node_array)
    if 'edge_node' in supply:
        ctx.check(en == [list(e) for e in edges_file], 'a supplied edge-node table is used as given (order and orientation)')
    else:
        ctx.check(set(map(frozenset, en)) == set(edge_set) and len(en) == len(edge_set), 'derived edge-node table')
    got_edges = [frozenset(e) for e in en]
    fe = rows(topo.face_edge_array)
    ctx.check(all([got_edges[e] for e in fe[fi]] == face_edges[fi] for fi in range(len(faces))),
              'face-edge table agrees with the face-node table under the edge numbering in use')
    if 'face_edge' in supply and 'edge_node' in supply:
        idm = {frozenset(ed): i for i, ed in enumerate(edges_file)}
        ctx.check(fe == [[idm[frozenset(p)] for p in zip(f, list(f[1:]) + list(f[:1]))] for f in faces], 'a supplied face-edge table is used as given')
    ef = rows(topo.edge_face_array)
    ctx.check(all(sorted(ef[e]) == sorted(edge_faces[got_edges[e]]) for e in range(len(got_edges))), 'edge-face table agrees with the face-node table')
    ff = rows(topo.face_face_array)
    ctx.check({(a, b) for a in range(len(ff)) for b in ff[a]} == adjacency, 'face-face table agrees with the face-node table')
    # the convention built on it: polygons, centres, geometry names
    cv = UGrid(ds)
    cref = UGrid(base)
    ctx.check(all(a.equals(b) for a, b in zip(cv.polygons, cref.polygons)), 'identical faces in every encoding')
    fc = cv.face_centres
    ctx.check(bool(numpy.allclose(fc[:, 0], face_xy[0]) and numpy.allclose(fc[:, 1], face_xy[1])),
              'stored face coordinates are used whether they are plain variables or xarray coordinates')
    names = set(cv.get_all_geometry_names())
    expect = {'mesh', 'face_node', 'node_x', 'node_y', 'face_x', 'face_y'} | set(supply)
    ctx.check(names == expect, 'geometry variable inventory is the same in every encoding')
    kinds = {k.value for k in cv.grid_kinds}
    ctx.check(kinds == {'face', 'node', 'edge'}, 'declared edge dimension gives an edge grid')


def body_implied_edges(ctx, mesh, table):
    """The mesh has edges only because one edge table is stored (no edge_dimension attribute, no edge_node table when
    `table` is edge_face): there is an edge grid, its size is the number of edges, the stored table is used as given."""
    from emsarray.conventions.ugrid import Mesh2DTopology, UGrid
    nodes, faces = builders.MESHES[mesh]
    start = int(ctx.int('start_index', 0, 1))
    ds = builders.ugrid(mesh, supply=(table,), edge_dimension_attr=False, fill='nan', start_index=start)
    ctx.check('edge_dimension' not in ds['mesh'].attrs, 'harness: the edge dimension is implied')
    topo = Mesh2DTopology(ds)
    edges_ref, _ = builders.mesh_edges(faces)
    ctx.check(topo.has_edge_dimension and topo.edge_dimension == 'nedge' and int(topo.edge_count) == len(edges_ref), 'an edge table implies the edge dimension')
    cv = UGrid(ds)
    ctx.check({k.value for k in cv.grid_kinds} == {'face', 'node', 'edge'}, 'declared edge dimension gives an edge grid')
    edge_set, face_edges, edge_faces, adjacency = ref_tables([list(f) for f in faces])
    if table == 'edge_face':
        want = [sorted(edge_faces[frozenset(e)]) for e in edges_ref]
        ctx.check([sorted(r) for r in rows(topo.edge_face_array)] == want, 'a supplied edge-face table is used as given')
    else:
        ctx.check(rows(topo.edge_node_array) == [list(e) for e in edges_ref], 'a supplied edge-node table is used as given (order and orientation)')
    ff = rows(topo.face_face_array)
    ctx.check({(a, b) for a in range(len(ff)) for b in ff[a]} == adjacency, 'face-face table agrees with the face-node table')


def body_big_mesh(ctx):
    """A mesh with more than 46340 nodes (node numbers whose product no longer fits in 32 bits): the derived edge table
    is the set of node pairs of the faces, the derived tables agree with the face-node table."""
    from emsarray.conventions.ugrid import Mesh2DTopology
    ncol = 25001 + int(ctx.int('extra_columns', 0, 1))
    nodes = [(i * 0.001, 0.0) for i in range(ncol)] + [(i * 0.001, 0.001) for i in range(ncol)]
    faces = [[i, i + 1, i + 1 + ncol, i + ncol] for i in range(ncol - 1)]
    # (the last quad is split into two triangles so that the tables have fill entries)
    a, b, c, d = faces.pop()
    faces += [[a, b, c], [a, c, d]]
    ds = builders.ugrid((nodes, faces), fill='attr', start_index=1, fill_value=0, with_edges=True)
    topo = Mesh2DTopology(ds)
    want = set()
    for f in faces:
        for p in zip(f, f[1:] + f[:1]):
            want.add(frozenset(p))
    en = numpy.asarray(topo.edge_node_array)
    got = {frozenset((int(x), int(y))) for x, y in en.tolist()}
    ctx.check(len(en) == len(want) and got == want, 'derived edge-node table')
    ctx.check(bool(((en >= 0) & (en < len(nodes))).all()), 'every node number in the derived edge table is a node of the mesh')
    fe = topo.face_edge_array
    k = len(faces) - 3
    ok = all({frozenset(int(v) for v in en[int(e)]) for e in numpy.ma.compressed(fe[fi])} == {frozenset(p) for p in zip(faces[fi], faces[fi][1:] + faces[fi][:1])}
             for fi in (0, 1, k, k + 1, k + 2, len(faces) // 2))
    ctx.check(ok, 'face-edge table agrees with the face-node table under the edge numbering in use')


def body_supplied_verbatim(ctx, mesh):
    """Supplied tables whose fill value sits right at (or next to) the element counts, and whose rows are written in
    another column order than a derivation would give (each face starts at its closing edge): used as given."""
    from emsarray.conventions.ugrid import Mesh2DTopology
    nodes, faces = builders.MESHES[mesh]
    nedges = len(builders.mesh_edges(faces)[0])
    nn, nf = len(nodes), len(faces)
    # (one fill value for every table of the file: it must not be a valid index in any of them)
    M = max(nedges, nn, nf)
    combos = [(0, M), (1, M + 1), (1, 0), (0, -1), (0, 999999), (0, M + 1), (1, M + 2), (0, 2 ** 31 - 1)]
    si, fv = combos[int(ctx.int('combination', 0, len(combos) - 1))]
    ds = builders.ugrid(mesh, supply=('edge_node', 'face_edge'), fill='attr', fill_value=fv, start_index=si, with_edges=True)
    table = numpy.array(ds['face_edge'].values, copy=True)
    want = []
    for r in range(table.shape[0]):
        valid = [int(v) for v in table[r] if int(v) != fv]
        rot = valid[-1:] + valid[:-1]
        table[r, :len(rot)] = rot
        want.append([v - si for v in rot])
    ds['face_edge'] = (ds['face_edge'].dims, table, dict(ds['face_edge'].attrs))
    topo = Mesh2DTopology(ds)
    ctx.check(rows(topo.face_edge_array) == want, 'a supplied face-edge table is used as given')
    ctx.check(rows(topo.face_node_array) == [list(f) for f in faces], 'face-node table normalised to zero-based, face dimension first, fill masked')
    edges_ref = builders.mesh_edges(faces)[0]
    ctx.check(rows(topo.edge_node_array) == [list(e) for e in edges_ref], 'a supplied edge-node table is used as given (order and orientation)')


def cases(tier):
    for mesh in ('tqp', 'qqqtt', 'block'):
        yield Case(f'supplied-verbatim:{mesh}', body_supplied_verbatim, dict(mesh=mesh), max_paths=20)
    q = tier == 'quick'
    yield Case('topology:big-strip:50000-nodes', body_big_mesh, dict(), max_paths=4)
    for mesh in ('tqp', 'tq'):
        for table in ('edge_face', 'edge_node'):
            yield Case(f'implied-edges:{mesh}:{table}', body_implied_edges, dict(mesh=mesh, table=table), max_paths=4)
    size_sets = [(3, 3), (3, 4), (4, 3)] if q else [(3, 3), (3, 4), (4, 3), (4, 4), (3, 5), (3, 3, 3), (3, 3, 4)]
    for sizes in size_sets:
        for with_edges in (False, True, 'declared'):
            yield Case(f'topology:{"-".join(map(str, sizes))}:edges{with_edges if isinstance(with_edges, str) else int(with_edges)}', body_topology,
                       dict(sizes=sizes, with_edges=with_edges), max_paths=200000, split=32)
    supplies = [(), ('edge_node',), ('edge_node', 'face_edge'), ('edge_node', 'edge_face', 'face_face'),
                ('edge_node', 'face_edge', 'edge_face', 'face_face')]
    if not q:
        supplies += [('face_face',), ('edge_node', 'face_face'), ('edge_node', 'edge_face')]
    meshes = ['tqp', 'qqq', 'tq'] if q else ['tqp', 'qqq', 'tq', 'fan', 'block']
    for mesh in meshes[:2]:
        for supply in (('edge_node',), ('edge_node', 'face_edge', 'edge_face', 'face_face')):
            yield Case(f'encoding:{mesh}:{"+".join(supply)}:coords0:reversed:two=nv', body_encoding,
                       dict(mesh=mesh, supply=supply, coords_as_coords=False, edge_order='reversed', two_name='nv'), max_paths=200)
    # an edge-face table whose boundary rows are written [fill, face]; face adjacency derived from it
    for mesh in meshes[:2] if q else meshes:
        for supply in (('edge_node', 'edge_face'), ('edge_node', 'face_edge', 'edge_face')):
            yield Case(f'encoding:{mesh}:{"+".join(supply)}:coords0:identity:fill-first', body_encoding,
                       dict(mesh=mesh, supply=supply, coords_as_coords=False, edge_order='identity', fill_first=True), max_paths=200)
    for mesh in meshes:
        for supply in supplies:
            if ({'face_edge', 'edge_face'} & set(supply)) and 'edge_node' not in supply:
                continue      # edge numbers refer to an edge table: ill-defined without one
            for coords in (False, True):
                # a different edge numbering is only meaningful when the file defines the edges (edge_node supplied)
                for eo in (('identity', 'reversed') if 'edge_node' in supply else ('identity',)):
                    yield Case(f'encoding:{mesh}:{"+".join(supply) or "none"}:coords{int(coords)}:{eo}', body_encoding,
                               dict(mesh=mesh, supply=supply, coords_as_coords=coords, edge_order=eo), max_paths=200)


def functions():
    from emsarray.conventions import ugrid
    T = ugrid.Mesh2DTopology
    return [T._to_index_array, ugrid._get_start_index, T.make_edge_node_array.__wrapped__ if hasattr(T.make_edge_node_array, '__wrapped__') else T.make_edge_node_array,
            T.make_face_edge_array, T.make_edge_face_array, T.make_face_face_array, T._face_and_node_pair_iter,
            T.face_node_array.func, T.edge_node_array.func, T.face_edge_array.func, T.edge_face_array.func, T.face_face_array.func,
            T.has_valid_edge_node_connectivity.func, T.has_valid_face_edge_connectivity.func, T.has_valid_edge_face_connectivity.func,
            T.has_valid_face_face_connectivity.func, T.face_dimension.func, T.edge_dimension.func, T.two_dimension.func,
            T.node_x.fget, T.face_x.fget, ugrid.UGrid.get_all_geometry_names]


def run(tier, seed=0, replay=None, procs=None, only=None):
    if replay:
        return replay_file(replay, list(cases('thorough')) + list(cases('quick')))
    cs = list(cases(tier))
    if only:
        cs = [c for c in cs if re.search(only, c.name)]
    q = tier == 'quick'
    from symx import envsweep
    want_edges = [list(e) for e in builders.mesh_edges(builders.MESHES['tqp'][1])[0]]
    return main_run(
        PROP, tier, cs, functions=functions(), seed=seed, procs=procs,
        late_checks=envsweep.late([('mesh_tables_mixed_orientation', 'a supplied edge-node table is used as given (order and orientation)',
                                    lambda v: v['edge_dimension'] == 'nedge' and v['edge_count'] == len(want_edges) and v['edge_node'] == want_edges)], only),
        bounds=dict(
            topologies=f'every mesh topology (up to renaming of nodes) with face sizes in {"(3,3) (3,4) (4,3)" if q else "(3,3) (3,4) (4,3) (4,4) (3,5) (3,3,3) (3,3,4)"}: '
                       'node ids are z3 Ints, distinct within a face, canonically labelled; non-manifold meshes (an edge in 3 faces) excluded',
            encodings='{0,1}-based x {NaN, _FillValue attribute, no fill} x {normal, transposed} (chosen by the solver) x supplied-table subsets x '
                      'edge numbering {file order, reversed} x coordinates as plain variables / xarray coordinates',
            outside='meshes with more than 3 faces in the topology part (fixed meshes of up to 7 faces in the encoding part); '
                    'numpy dtype dispatch in _to_index_array is exercised concretely on every enumerated encoding, not symbolically'),
        stubs=['none: after the solver has fixed the node ids the real numpy / numpy.ma code runs unmodified'],
        assumptions=['a valid 2-D mesh has distinct nodes within a face and at most two faces per edge'],
    )
