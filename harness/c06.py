"""C06 - cell polygons and dataset extent are faithful to the dataset's coordinates.

Same pipeline as C02, but polygon validity is decided from the symbolic corners
(strictly convex => valid, bow-tie / collinear / no area => invalid; anything
in between is outside the claim) and the extent properties are checked.
"""
import re
import warnings

import numpy
import shapely

from symx import env, geo
from symx.core import And, Iff, Implies, Not, Or, same, close, SymReal, ite, isnan
from symx.runner import Case, main_run, replay_file
from symx.snap import snapshot, unchanged
from harness import pipeline

PROP = 'C06'
import os
SOLVER = os.environ.get('C06_SOLVER', 'nlsat')


def _minmax(vals, conds, pick_min, ctx):
    """min / max of vals[k] over the k where conds[k]; (value, none_present)."""
    if not ctx.symbolic:
        sel = [float(v) for v, c in zip(vals, conds) if c]
        return ((min(sel) if pick_min else max(sel)), False) if sel else (float('nan'), True)
    import z3
    acc_v, acc_has = z3.RealVal(0), z3.BoolVal(False)
    for v, c in zip(vals, conds):
        cz = c.z if hasattr(c, 'z') else z3.BoolVal(bool(c))
        vv = SymReal.lift(v).v
        better = z3.Or(z3.Not(acc_has), (vv < acc_v) if pick_min else (vv > acc_v))
        acc_v = z3.If(z3.And(cz, better), vv, acc_v)
        acc_has = z3.Or(acc_has, cz)
    from symx.core import SymBool
    return SymReal(acc_v), SymBool(z3.Not(acc_has))


def invalid_cond(P, n):
    """Condition under which the (complete) reference cell n is certainly invalid."""
    c = P.corners(n)
    if P.conv == 'cf1d':
        return Or(same(c[0][0], c[1][0]), same(c[0][1], c[2][1]))
    from symx.core import SymBool
    return SymBool(pipeline.validity_regions(c)[1])


def body(ctx, conv, shape, bounds, as_coords, nan_cells=None, mesh_opts=None, descending=False, extent=True, bounds_first=False, coord_dtype=None, bounds_coords=False, explicit=False, rotated=False, raise_first=False):
    snap_holder = [coord_dtype, raise_first]
    pipeline.builders.BOUNDS_AS_COORDS = bounds_coords
    pipeline.EXPLICIT_NAMES = explicit
    pipeline.ROTATED_AXES = rotated
    try:
        return _body(ctx, conv, shape, bounds, as_coords, nan_cells, mesh_opts, descending, extent, bounds_first, snap_holder)
    finally:
        pipeline.builders.BOUNDS_AS_COORDS = False
        pipeline.EXPLICIT_NAMES = False
        pipeline.ROTATED_AXES = False


def _body(ctx, conv, shape, bounds, as_coords, nan_cells, mesh_opts, descending, extent, bounds_first, snap_holder):
    from emsarray.exceptions import InvalidPolygonWarning
    P = pipeline.build(ctx, conv, shape, bounds=bounds, as_coords=as_coords, nan_cells=nan_cells,
                       mesh_opts=mesh_opts, descending=descending, coord_dtype=snap_holder[0])
    cv = P.convention
    N = P.ncells
    ctx.note('config', dict(conv=conv, shape=str(shape), bounds=bounds, as_coords=as_coords))
    snap = snapshot(P.ds)
    if len(snap_holder) > 1 and snap_holder[1]:
        # a first attempt under a warning filter that turns the invalid-polygon warning into an error (a strict
        # script): it fails when a cell is invalid; asked again under the normal filter the answers are the right ones
        with warnings.catch_warnings():
            warnings.simplefilter('error', InvalidPolygonWarning)
            try:
                cv.polygons
            except InvalidPolygonWarning:
                pass
    with warnings.catch_warnings(record=True) as caught:
        warnings.simplefilter('always')
        if bounds_first:
            # the answers do not depend on the order in which they are asked for
            try:
                early_bounds = cv.bounds
            except ValueError:
                early_bounds = None     # nothing to bound: every cell is a hole (min of an empty sequence)
        polygons = cv.polygons
    n_invalid_warn = sum(1 for w in caught if issubclass(w.category, InvalidPolygonWarning))
    mask = cv.mask
    ctx.check(len(polygons) == N and len(mask) == N, 'one slot per cell')
    ctx.check(not polygons.flags.writeable, 'polygon array is read-only')

    present = [polygons[n] is not None for n in range(N)]
    dropped_invalid = []
    for n in range(N):
        hole = P.hole(n)
        if ctx.symbolic:
            # on this path the hole pattern and the validity of every built polygon are decided
            ctx.check(Implies(hole, not present[n]), 'a cell with missing coordinates has no polygon')
            if present[n]:
                ctx.check(Not(hole), 'only cells with complete coordinates get a polygon')
                ctx.check(pipeline.ring_matches(geo.poly_coords(polygons[n]), P.corners(n)),
                          'the polygon is exactly the cell the dataset describes')
            else:
                # absent although coordinates complete => it must have been dropped as invalid
                if not ctx.decide(hole):
                    ctx.check(invalid_cond(P, n), 'a complete cell is dropped only when it is invalid')
                    dropped_invalid.append(n)
        else:
            h = bool(hole)
            vr = P.valid_ref(ctx, n)
            ctx.check(present[n] == ((not h) and vr), 'polygon exists iff coordinates complete and cell valid')
            if present[n]:
                ctx.check(pipeline.ring_matches(geo.poly_coords(polygons[n]), P.corners(n)),
                          'the polygon is exactly the cell the dataset describes')
            elif not h:
                dropped_invalid.append(n)
        ctx.check(bool(mask[n]) == present[n], 'validity mask says which cells have a polygon')
    ctx.check((n_invalid_warn == 1) == bool(dropped_invalid) and n_invalid_warn <= 1,
              'self-intersecting cells are dropped with exactly one InvalidPolygonWarning')

    ctx.check(unchanged(P.ds, snap), 'building the polygons leaves the dataset as it was')
    if not extent:
        return
    # ---- extent: bounds == bounding box of the polygons that exist --------------
    if not any(present):
        return
    xs, ys, cs = [], [], []
    for n in range(N):
        if present[n]:
            for (x, y) in P.corners(n):
                xs.append(x)
                ys.append(y)
                cs.append(True)
    ex = (_minmax(xs, cs, True, ctx)[0], _minmax(ys, cs, True, ctx)[0],
          _minmax(xs, cs, False, ctx)[0], _minmax(ys, cs, False, ctx)[0])
    got = cv.bounds
    tag = 'no cell dropped as invalid' if not dropped_invalid else 'with a cell dropped as invalid'
    ctx.check(And(*[close(g, e) for g, e in zip(got, ex)]),
              f'bounds == bounding box of the existing polygons ({tag})', soft=bool(dropped_invalid))

    geom = cv.geometry
    if ctx.symbolic:
        if isinstance(geom, pipeline.SymUnion):
            ctx.check(not geom.coverage or conv in ('shoc_standard',),
                      'geometry is the union of exactly the existing polygons')      # cells given by stored corners need not tile
            ctx.check(len(geom.parts) == sum(present) and all(a is b for a, b in zip(geom.parts, [polygons[n] for n in range(N) if present[n]])),
                      'geometry is the union of exactly the existing polygons')
        elif isinstance(geom, pipeline.SymBox):
            # membership of an arbitrary point: in the box <=> in some cell rectangle
            px, py = ctx.real('px'), ctx.real('py')
            bx0, by0, bx1, by1 = geom.args
            inbox = And(_between(px, bx0, bx1), _between(py, by0, by1))
            incell = []
            contiguous = []
            for n in range(N):
                if present[n]:
                    c = P.corners(n)
                    incell.append(And(_between(px, c[0][0], c[1][0]), _between(py, c[0][1], c[2][1])))
            ny, nx = P.shape
            # stored bounds may legally leave gaps / overlaps between neighbouring cells
            xlo = [P.corners(i)[0][0] for i in range(nx)]
            xhi = [P.corners(i)[1][0] for i in range(nx)]
            ylo = [P.corners(j * nx)[0][1] for j in range(ny)]
            yhi = [P.corners(j * nx)[2][1] for j in range(ny)]
            contiguous = And(*[same(xhi[i], xlo[i + 1]) for i in range(nx - 1)],
                             *[same(yhi[j], ylo[j + 1]) for j in range(ny - 1)])
            if not dropped_invalid:
                ctx.check(Implies(contiguous, Iff(inbox, Or(*incell))),
                          'CFGrid1D.geometry == union of the cell rectangles (contiguous cell bounds)')
                if bounds == 'stored':
                    ctx.check(Iff(inbox, Or(*incell)),
                              'CFGrid1D.geometry == union of the cell rectangles (stored bounds with gaps)', soft=True)
        else:
            ctx.check(False, f'unexpected geometry object {type(geom).__name__}')
    else:
        union = shapely.unary_union([polygons[n] for n in range(N) if present[n]])
        diff = geom.symmetric_difference(union).area
        scale = max(union.area, 1e-12)
        gaps = False
        if conv == 'cf1d':
            ny, nx = P.shape
            xlo = [float(P.corners(i)[0][0]) for i in range(nx)]
            xhi = [float(P.corners(i)[1][0]) for i in range(nx)]
            ylo = [float(P.corners(j * nx)[0][1]) for j in range(ny)]
            yhi = [float(P.corners(j * nx)[2][1]) for j in range(ny)]
            gaps = any(abs(xhi[i] - xlo[i + 1]) > 1e-9 for i in range(nx - 1)) or \
                any(abs(yhi[j] - ylo[j + 1]) > 1e-9 for j in range(ny - 1))
        if conv == 'cf1d' and not dropped_invalid:
            if gaps:
                ctx.check(diff <= 1e-7 * scale, 'CFGrid1D.geometry == union of the cell rectangles (stored bounds with gaps)', soft=True)
            else:
                ctx.check(diff <= 1e-7 * scale, 'CFGrid1D.geometry == union of the cell rectangles (contiguous cell bounds)')
        elif conv != 'cf1d':
            ctx.check(diff <= 1e-7 * scale, 'geometry is the union of exactly the existing polygons')


def _between(p, a, b):
    return Or(And(a <= p, p <= b), And(b <= p, p <= a))


def body_larger(ctx, kind):
    """Concrete datasets beyond the sizes of the symbolic cases: more than 4096 / 65536 cells, many different face sizes,
    long axes. The polygons, the validity mask and the extent are compared with the independent reference geometry."""
    from harness import geomref
    v = int(ctx.int('variant', 0, 1))
    if kind == 'cf1d-65x64':
        ds = pipeline.builders.cf1d(65 + v, 64, lat=numpy.linspace(-40.0, -8.0, 65 + v), lon=numpy.linspace(110.0, 160.0, 64))
    elif kind == 'cf2d-70x60':
        jj, ii = numpy.meshgrid(numpy.arange(70.0 + v), numpy.arange(60.0), indexing='ij')
        lat, lon = -40.0 + 0.5 * jj + 0.01 * ii, 110.0 + 0.5 * ii - 0.01 * jj
        lat[5, 7] = lon[5, 7] = numpy.nan
        lat[40:43, 50:52] = lon[40:43, 50:52] = numpy.nan
        ds = pipeline.builders.cf2d(70 + v, 60, lat=lat, lon=lon)
    elif kind == 'shoc-66x63':
        ds = pipeline.builders.shoc_standard(66, 63 + v)
    elif kind == 'cf1d-257x256':
        ds = pipeline.builders.cf1d(257 + v, 256, lat=numpy.linspace(-40.0, -8.0, 257 + v), lon=numpy.linspace(110.0, 160.0, 256))
    elif kind == 'mesh-9-and-12-nodes':
        ds = pipeline.builders.ugrid('nonagon', fill=('nan', 'attr')[v], start_index=v)
    elif kind == 'mesh-fan-of-9':
        ds = pipeline.builders.ugrid('fan9', fill='none', start_index=v)
    elif kind == 'mesh-sizes-3-to-7':
        ds = pipeline.builders.ugrid('poly34567', fill=('nan', 'attr')[v], start_index=v)
    elif kind == 'mesh-spare-node-without-position':
        # a node that no face uses and whose position is missing (as left behind by some mesh generators)
        import numpy as _np
        ds = pipeline.builders.ugrid('tqpx', fill=('nan', 'attr')[v], start_index=v)
        used = {n_ for f in pipeline.builders.MESHES['tqpx'][1] for n_ in f}
        spare = [n_ for n_ in range(len(pipeline.builders.MESHES['tqpx'][0])) if n_ not in used]
        for name in ('node_x', 'node_y'):
            vals = _np.array(ds[name].values, dtype=float)
            vals[spare] = _np.nan
            ds[name] = (ds[name].dims, vals, dict(ds[name].attrs))
    elif kind == 'cf2d-three-of-four':
        # no stored bounds; one isolated missing centre and a missing corner cell: corners with exactly three centres
        import numpy as _np
        nj, ni = 5, 5
        jj, ii = _np.meshgrid(_np.arange(nj, dtype=float), _np.arange(ni, dtype=float), indexing='ij')
        lat, lon = 10.0 + jj + 0.13 * ii, 100.0 + 2 * ii - 0.21 * jj + 0.05 * ii * jj
        for (j, i) in (((2, 2),), ((2, 2), (4, 0)))[v]:
            lat[j, i] = _np.nan
            lon[j, i] = _np.nan
        ds = pipeline.builders.cf2d(nj, ni, lat=lat, lon=lon)
    elif kind == 'mesh-5000-faces':
        n = 70 + v
        nodes = [(100.0 + 0.01 * i, -30.0 + 0.01 * j) for j in range(n + 1) for i in range(n + 1)]
        faces = [[j * (n + 1) + i, j * (n + 1) + i + 1, (j + 1) * (n + 1) + i + 1, (j + 1) * (n + 1) + i] for j in range(n) for i in range(n)]
        faces[-1] = faces[-1][:3]          # one triangle: the table has fill entries
        ds = pipeline.builders.ugrid((nodes, faces), fill='nan')
    cv = ds.ems
    ref = geomref.check(ctx, ds, cv)
    have = [p for p in ref if p is not None]
    import shapely
    b = shapely.unary_union(have).bounds
    ctx.check(all(abs(float(a) - float(c)) <= 1e-9 for a, c in zip(cv.bounds, b)), 'bounds == bounding box of the polygons that exist')
    ctx.check(abs(cv.geometry.area - sum(p.area for p in have)) <= 1e-6 * sum(p.area for p in have), 'geometry == union of the cell polygons (area)')


def cases(tier):
    q = tier == 'quick'
    for kind in ('mesh-spare-node-without-position', 'cf2d-three-of-four', 'cf1d-65x64', 'cf2d-70x60', 'shoc-66x63', 'mesh-sizes-3-to-7', 'mesh-5000-faces', 'cf1d-257x256', 'mesh-9-and-12-nodes', 'mesh-fan-of-9'):
        yield Case(f'larger:{kind}', body_larger, dict(kind=kind), max_paths=4)
    PM = {m: pipeline.patches(m) for m in ('sandwich', 'all', 'rect')}
    cfgs = [
        ('cf1d', (2, 2), 'none', True, (), False), ('cf1d', (2, 3), 'stored', False, (), False),
        ('cf1d', (3, 2), 'none', False, (), True), ('cf1d', (2, 3), 'misdim', True, (), False),
        ('cf2d', (2, 3), 'misdim', True, ((0, 1),), False),
        ('cf2d', (2, 2), 'stored', True, None, False), ('cf2d', (2, 2), 'none', True, None, False),
        ('shoc_simple', (1, 2), 'stored', False, None, False),
        ('shoc_standard', (1, 2), 'none', True, None, False), ('shoc_standard', (2, 2), 'none', True, ((1, 1), (0, 0)), False),
    ]
    if not q:
        cfgs += [
            ('cf1d', (2, 4), 'none', True, (), False), ('cf1d', (4, 2), 'stored', True, (), True),
            ('cf1d', (3, 3), 'stored', False, (), False),
            ('cf2d', (2, 3), 'stored', False, ((0, 0), (1, 2)), False), ('cf2d', (2, 3), 'none', True, ((0, 1), (1, 1)), False),
            ('cf2d', (3, 3), 'none', True, ((1, 1),), False),
            ('shoc_simple', (2, 2), 'none', True, None, False),
            ('shoc_standard', (2, 2), 'none', False, None, False), ('shoc_standard', (2, 3), 'none', True, ((1, 1), (2, 3)), False),
        ]
    # bounds asked for before the polygons; one-cell-wide channels (a cell whose two opposite neighbours are missing)
    cfgs = [c + (False,) for c in cfgs]
    cfgs += [('cf2d', (1, 3), 'none', True, None, False, True), ('cf2d', (3, 1), 'none', False, None, False, True),
             ('cf1d', (2, 2), 'none', True, (), False, True), ('shoc_standard', (1, 2), 'none', True, None, False, True)]
    if not q:
        cfgs += [('cf2d', (2, 3), 'none', True, None, False, True), ('cf2d', (2, 2), 'stored', True, None, False, True),
                 ('shoc_simple', (1, 3), 'none', True, None, False, True), ('cf2d', (1, 4), 'none', True, None, False, False)]
    cfgs = [c + (False,) for c in cfgs]
    # stored bounds held as xarray coordinates
    cfgs += [('cf2d', (2, 2), 'stored', True, None, False, False, True), ('cf1d', (2, 3), 'stored', True, (), False, False, True),
             ('shoc_simple', (1, 2), 'stored', False, None, False, True, True)]
    for conv, shape, bounds, as_coords, nan_cells, desc, bf, bc in cfgs:
        nm = 'all' if nan_cells is None else len(nan_cells)
        base = f'{conv}:{shape[0]}x{shape[1]}:{bounds}:{"coords" if as_coords else "vars"}:nan{nm}:{"desc" if desc else "asc"}' + (':bounds-first' if bf else '') + (':bounds-as-coordinates' if bc else '')
        kw = dict(conv=conv, shape=shape, bounds=bounds, as_coords=as_coords, nan_cells=nan_cells, descending=desc, bounds_first=bf, bounds_coords=bc)
        if conv == 'cf1d':
            # rectangles: validity is exactly "non-zero width and height" - linear, so one pass does everything
            yield Case(base + ':validity+extent', body, dict(kw, extent=True), patches=PM['rect'], max_paths=20000, split=32)
            if bounds == 'none' and not bf:
                # the same axes stored in an integer type (see pipeline.int_coord_array)
                for dt in (('int32',) if q else ('int32', 'int16', 'int64')):
                    yield Case(base + f':{dt}:validity+extent', body, dict(kw, extent=True, coord_dtype=dt), patches=PM['rect'],
                               max_paths=20000, split=32)
        else:
            if (bounds == 'stored' or conv == 'shoc_standard') and shape[0] * shape[1] <= 4 + 2 * (conv != 'shoc_standard'):
                # (shoc_standard 2x3 = 24 symbolic node coordinates: nlsat does not finish within 60 s per query, so
                # that size gets the extent case only)
                # derived 2-D bounds (averages with a symbolic divisor) + polynomial validity conditions are
                # beyond nlsat within the time budget: validity is decided on stored bounds / node grids only
                yield Case(base + ':validity', body, dict(kw, extent=False), patches=PM['sandwich'], max_paths=20000, split=32, solver=SOLVER)
            yield Case(base + ':extent', body, dict(kw, extent=True), patches=PM['all'], max_paths=20000, split=32)
    # coordinate variables named by the caller
    for conv, shape, bounds in (('cf1d', (2, 3), 'none'), ('cf1d', (3, 2), 'stored'), ('cf2d', (2, 3), 'stored'), ('cf2d', (1, 3), 'none')):
        kw = dict(conv=conv, shape=shape, bounds=bounds, as_coords=(bounds == 'none'), nan_cells=() if conv == 'cf1d' else None, explicit=True)
        yield Case(f'{conv}:{shape[0]}x{shape[1]}:{bounds}:explicit-names:extent', body, dict(kw, extent=True),
                   patches=PM['rect' if conv == 'cf1d' else 'all'], max_paths=20000, split=32)
    for conv, shape, bounds in (('cf2d', (2, 2), 'stored'), ('shoc_simple', (1, 2), 'stored')):
        kw = dict(conv=conv, shape=shape, bounds=bounds, as_coords=True, nan_cells=None, raise_first=True)
        yield Case(f'{conv}:{shape[0]}x{shape[1]}:{bounds}:after-a-strict-first-attempt:validity', body, dict(kw, extent=False),
                   patches=PM['sandwich'], max_paths=20000, split=32, solver=SOLVER)
    # rotated-pole layout: 1-D grid_latitude / grid_longitude axes stored ahead of the true 2-D coordinates
    for conv, shape, bounds, as_coords in (('cf2d', (2, 3), 'stored', True), ('cf2d', (2, 2), 'none', False)):
        kw = dict(conv=conv, shape=shape, bounds=bounds, as_coords=as_coords, nan_cells=None, rotated=True)
        yield Case(f'{conv}:{shape[0]}x{shape[1]}:{bounds}:{"coords" if as_coords else "vars"}:rotated-axes:extent', body, dict(kw, extent=True),
                   patches=PM['all'], max_paths=20000, split=32)
    meshes = ['tq', 'tri'] if q else ['tq', 'tri', 'tqp', 'fan']
    for mesh in meshes:
        for mo in (dict(), dict(start_index=1, fill='attr'), dict(transposed=True, coords_as_coords=False),
                   dict(start_index=1, fill='attr', fill_value=0), dict(start_index=1, fill='attr', fill_value=0, dtype='uint16'),
                   dict(start_index=0, start_index_as_text=True), dict(start_index=1, fill='attr', start_index_as_text=True)):
            if mesh in ('fan', 'tri') and mo.get('fill') == 'attr':
                mo = dict(mo, fill='none')
            tag = '+'.join(f'{k}={v}' for k, v in mo.items()) or 'default'
            yield Case(f'ugrid:{mesh}:{tag}:validity', body,
                       dict(conv='ugrid', shape=mesh, bounds='none', as_coords=False, mesh_opts=mo, extent=False),
                       patches=PM['sandwich'], max_paths=5000, split=16, solver=SOLVER)
            yield Case(f'ugrid:{mesh}:{tag}:extent', body,
                       dict(conv='ugrid', shape=mesh, bounds='none', as_coords=False, mesh_opts=mo, extent=True),
                       patches=PM['all'], max_paths=5000, split=16)


def functions():
    from emsarray import utils
    from emsarray.conventions import _base, grid, arakawa_c, ugrid
    return [_base.Convention.polygons.func, _base.Convention.mask.func, _base.Convention.geometry.func,
            _base.Convention.bounds.func, utils.make_polygons_with_holes,
            grid.CFGrid.bounds.func, grid.CFGrid1D.geometry.func, grid.CFGrid1D._make_polygons, grid.CFGrid2D._make_polygons,
            grid.CFGrid1DTopology._get_or_make_bounds, grid.CFGrid2DTopology._get_or_make_bounds,
            arakawa_c.ArakawaC._make_polygons, ugrid.UGrid._make_polygons, ugrid.UGrid.bounds.func,
            ugrid.Mesh2DTopology._to_index_array, ugrid.Mesh2DTopology.face_node_array.func]


def run(tier, seed=0, replay=None, procs=None, only=None):
    if replay:
        return replay_file(replay, list(cases('thorough')) + list(cases('quick')))
    cs = list(cases(tier))
    if only:
        cs = [c for c in cs if re.search(only, c.name)]
    nconf = pipeline.conformance_validity(3)
    q = tier == 'quick'
    return main_run(
        PROP, tier, cs, functions=functions(), seed=seed, procs=procs,
        bounds=dict(
            grids=f'CF 1-D axes of length 2-{3 if q else 4} asc/desc, stored or derived bounds; CF 2-D / SHOC simple up to '
                  f'{"2x2" if q else "3x3"} stored/derived bounds with symbolic missing cells; SHOC standard node grids up to '
                  f'{"3x3" if q else "3x4"} nodes with symbolic missing nodes; meshes of 1-4 faces x 3 encodings',
            symbolic='all coordinates / bounds / nodes: Real (+ shared NaN flag per cell or node); validity derived from the '
                     'symbolic corners; an arbitrary point (px, py) for the CFGrid1D.geometry membership query',
            outside='cells that are neither strictly convex nor bow-tie/collinear/area-free (e.g. concave simple quads) are '
                    'pruned (path aborted); pentagons and larger: only the strictly convex case; IEEE rounding'),
        stubs=['shapely.polygons -> records ring', 'shapely.is_valid -> decided by sufficient conditions over the symbolic corners; '
               f'conformance: {nconf} integer triangles/quads agree with real GEOS',
               'shapely.unary_union -> records its argument; .bounds = min/max over recorded corners',
               'shapely.geometry.box -> records its arguments', 'numpy.nanmin/nanmax/nanmean/isnan/isfinite on object arrays'],
        assumptions=['floats are reals + NaN flag', 'GEOS validity agrees with the sufficient conditions (conformance-tested)'],
    )
