"""C12 - ocean floor extraction returns the deepest valid value of every water column.

Real code: operations.depth.ocean_floor, _find_ocean_floor_indexes,
normalize_depth_variables, utils.dimensions_from_coords / extract_vars and the
Convention.ocean_floor alias.  Data values carry symbolic NaN flags (the sea
floor shape), depth values are symbolic; xarray's cumsum/argmax/isel/merge run
for real on the object arrays.
"""
import itertools
import re
import warnings

import numpy
import xarray

from symx import builders
from symx.core import And, Iff, Implies, Not, Or, same, isnan, ite, SymReal, HarnessError
from symx.runner import Case, main_run, replay_file
from harness import depthcommon

PROP = 'C12'


def body(ctx, conv, nk, positive, order, dpos, two_depths, via, holes, zdtype=None, marker=None, depth_is_data_var=False):
    from emsarray.operations import depth as depth_ops
    nloc = 2
    # horizontal layout per convention
    if conv == 'plain':
        sdims, sshape = ('x',), (nloc,)
        base = xarray.Dataset()
    elif conv == 'cf1d':
        # (stored cell bounds: geometry that is made of data variables with a dimension of their own)
        base = builders.cf1d(1, nloc, lat_bounds=numpy.array([[9.5, 10.5]]), lon_bounds=numpy.array([[99.0, 101.0], [101.0, 103.0]]))
        sdims, sshape = ('y', 'x'), (1, nloc)
    elif conv == 'shoc_standard':
        base = builders.shoc_standard(1, nloc)
        sdims, sshape = builders.SHOC_DIMS['face'], (1, nloc)
    elif conv == 'shoc_simple':
        base = builders.shoc_simple(1, nloc)
        sdims, sshape = ('j', 'i'), (1, nloc)
    elif conv == 'ugrid':
        base = builders.ugrid('tq')
        sdims, sshape = ('nface',), (2,)
    else:
        raise ValueError(conv)

    # depth coordinate: symbolic, strictly monotonic in the requested storage order
    z = depthcommon.sym_values(ctx, 'z', (nk,), base=1.0)
    down = positive.lower() == 'down'
    if zdtype:
        # whole-metre depths stored in an integer type (unsigned: depths are not negative)
        levels = [2, 5, 30, 100][:nk]
        z = numpy.array(levels[::-1] if order == 'deep_first' else levels, dtype=zdtype)
        if not down:
            z = (-z.astype('int64')).astype(zdtype)
    # physical depth of level k
    phys = [(int(z[k]) if zdtype else z[k]) if down else -(int(z[k]) if zdtype else z[k]) for k in range(nk)]
    if order == 'deep_first':
        ctx.assume(And(*[phys[k] > phys[k + 1] for k in range(nk - 1)]))
    else:
        ctx.assume(And(*[phys[k] < phys[k + 1] for k in range(nk - 1)]))
    # static sea floor: one validity flag per (layer, location), shared by variables and times
    flags = numpy.empty((nk,) + sshape, dtype=object)
    for k, idx in enumerate(numpy.ndindex(*flags.shape)):
        flags[idx] = ctx.bool(f'dry{k}')
    if not holes:
        # water columns are wet from the surface down to the floor: dry layers are exactly the deepest ones
        for loc in numpy.ndindex(*sshape):
            for a in range(nk):
                for c in range(nk):
                    if a != c:
                        # if layer a is dry and c is deeper than a then c is dry
                        ctx.assume(Implies(And(flags[(a,) + loc], phys[c] > phys[a]), flags[(c,) + loc]))

    def layout(pos, with_t=True):
        dims = list(sdims)
        dims.insert(min(pos, len(dims)), 'k')
        if with_t:
            dims = ['t'] + dims
        return tuple(dims)
    sizes = dict(zip(sdims, sshape))
    sizes.update(k=nk, t=2, k2=2)

    def make_var(name, dims, depth_dim='k', fl=flags):
        shape = tuple(sizes[d] for d in dims)
        arr = numpy.empty(shape, dtype=object if ctx.symbolic else float)
        for n, idx in enumerate(numpy.ndindex(*shape)):
            sel = dict(zip(dims, idx))
            f = fl[(sel[depth_dim],) + tuple(sel[d] for d in sdims)]
            arr[idx] = ctx.real(f'{name}{n}', flag=f, hint=1000.0 + 10 * len(name) + n)
        return arr
    variables = {}
    dims_temp = layout(dpos, True)
    temp = make_var('temp', dims_temp)
    variables['temp'] = (dims_temp, temp)
    dims_salt = layout((dpos + 1) % (len(sdims) + 1), False)
    salt = make_var('salt', dims_salt)
    variables['salt'] = (dims_salt, salt)
    eta = numpy.empty((2,) + sshape, dtype=object if ctx.symbolic else float)
    for n, idx in enumerate(numpy.ndindex(*eta.shape)):
        eta[idx] = ctx.real(f'eta{n}', nan=True, hint=5.0 + n)
    variables['eta'] = (('t',) + tuple(sdims), eta)
    # (marker: the only attribute that says "depth coordinate" - one of the documented ones; the sign is then guessed)
    coords = {'zc': (('k',), z, dict(marker) if marker else {'positive': positive, 'long_name': 'depth'}),
              'time': (('t',), numpy.array([0.0, 1.0]), {'long_name': 'time'})}
    if via == 'convention':
        # decoded time coordinate, as xarray hands it over (Convention.time_coordinate looks for exactly this)
        tv = xarray.Variable(('t',), numpy.array(['2000-01-01', '2000-01-02'], dtype='datetime64[ns]'), {'long_name': 'time'})
        tv.encoding['units'] = 'days since 1990-01-01 00:00:00'
        coords['time'] = tv
    depth_names = ['zc']
    if two_depths == 'same_dim':
        # a second coordinate for the same layers with the opposite sign convention (e.g. depth and height)
        coords['height'] = (('k',), -1 * z, {'positive': 'up' if down else 'down'})
        depth_names = ['zc', 'height'] if nk % 2 else ['height', 'zc']
    elif two_depths:
        z2 = numpy.array([0.5, 3.0]) * (1 if down else -1)
        flags2 = numpy.empty((2,) + sshape, dtype=object)
        for k, idx in enumerate(numpy.ndindex(*flags2.shape)):
            flags2[idx] = ctx.bool(f'dry2_{k}')
        dims_sed = ('k2',) + tuple(sdims)
        sizes['k2'] = 2
        sed = make_var('sed', dims_sed, depth_dim='k2', fl=flags2)
        variables['sed'] = (dims_sed, sed)
        coords['zsed'] = (('k2',), z2, {'positive': positive})
        depth_names.append('zsed')
    # variables along the depth axis only (layer thickness, a profile): nothing to reduce, they go with the dimension
    variables['dz'] = (('k',), numpy.arange(nk) + 1.0)
    variables['profile'] = (('t', 'k'), numpy.arange(2 * nk).reshape(2, nk) + 0.5)
    # an integer variable on the layers, listed after the others
    code = numpy.arange(nk * int(numpy.prod(sshape)), dtype='int16').reshape((nk,) + sshape)
    variables['code'] = (('k',) + tuple(sdims), code)
    thick = make_var('thick', ('k',) + tuple(sdims))
    coords['thickness'] = (('k',) + tuple(sdims), thick, {'long_name': 'layer thickness'})
    ds = base.assign({n: xarray.Variable(*v) for n, v in variables.items()}).assign_coords(
        {n: (v if isinstance(v, xarray.Variable) else xarray.Variable(*v)) for n, v in coords.items()})
    ds['temp'].encoding.update({'_FillValue': -999.0, 'dtype': numpy.dtype('float32'), 'zlib': True})
    ctx.note('config', dict(conv=conv, nk=nk, positive=positive, order=order, dpos=dpos, two=two_depths))

    gone_dims, gone_vars = ['k'], ['zc']
    if via == 'convention' and conv in ('shoc_standard', 'shoc_simple'):
        # the SHOC conventions know their depth coordinates by name: z_centre(k_centre) / zc(k); the time coordinate of a
        # SHOC standard file is called t
        if conv == 'shoc_standard':
            ds = ds.rename({'zc': 'z_centre', 'k': 'k_centre', 'time': 't'})
            depth_names = ['z_centre']
            gone_dims, gone_vars = ['k_centre'], ['z_centre']
        if depth_is_data_var:
            # ... and it is found whether or not xarray holds it as a coordinate (decode_coords=False, reset_coords)
            ds = ds.reset_coords(depth_names)
    with warnings.catch_warnings():
        warnings.simplefilter('ignore')
        if via == 'convention':
            # the alias on the convention finds every depth coordinate and the time coordinate by itself
            from emsarray.conventions.grid import CFGrid1D
            from emsarray.conventions.shoc import ShocSimple, ShocStandard
            from emsarray.conventions.ugrid import UGrid
            cv = {'cf1d': CFGrid1D, 'shoc_standard': ShocStandard, 'shoc_simple': ShocSimple, 'ugrid': UGrid}[conv](ds)
            ctx.check({str(c.name) for c in cv.depth_coordinates} == set(depth_names), 'every depth coordinate of the dataset is found')
            out = cv.ocean_floor()
        elif via == 'iterator':
            # any iterable of coordinate names will do, also one that can be read only once
            out = depth_ops.ocean_floor(ds, (n for n in depth_names), non_spatial_variables=['time'])
        else:
            out = depth_ops.ocean_floor(ds, depth_names, non_spatial_variables=['time'])

    ctx.check(not any(d in out.dims for d in gone_dims) and not any(n in out.variables for n in gone_vars), 'depth dimension and its coordinate are removed')
    ctx.check(not any(set(gone_dims + ['k2']) & set(v.dims) for v in out.variables.values()), 'no variable is left on a depth dimension')
    ctx.check('code' in out.variables and out['code'].dtype == numpy.dtype('int16') and tuple(out['code'].dims) == tuple(sdims),
              'an integer variable on the layers is reduced like the others and stays an integer variable')
    if 'code' in out.variables and tuple(out['code'].dims) == tuple(sdims):
        oks = []
        for loc in numpy.ndindex(*sshape):
            for k in range(nk):
                deeper_all_dry = And(*[Or(flags[(c,) + loc], Not(phys[c] > phys[k])) for c in range(nk) if c != k])
                oks.append(Implies(And(Not(flags[(k,) + loc]), deeper_all_dry), out['code'].values[loc] == code[(k,) + loc]))
        ctx.check(And(*oks), 'code: the value of the deepest layer that holds data')
    ctx.check(all(out['temp'].encoding.get(k) == v for k, v in ds['temp'].encoding.items()), 'a reduced variable keeps its encoding')
    if two_depths == 'same_dim':
        ctx.check('height' not in out.variables, 'second coordinate of the depth dimension removed')
    elif two_depths:
        ctx.check('k2' not in out.dims and 'zsed' not in out.variables, 'second depth dimension and coordinate removed')

    def expect_floor(values, dims, depth_dim, fl, physd, n):
        """for each non-depth position: the value of the deepest valid layer, NaN if none"""
        oks = []
        odims = [d for d in dims if d != depth_dim]
        res = out[name_of[id(values)]]
        ctx.check(tuple(res.dims) == tuple(odims), f'{name_of[id(values)]}: other dimensions untouched, depth gone')
        for oidx in numpy.ndindex(*[sizes[d] for d in odims]):
            sel = dict(zip(odims, oidx))
            got = res.values[oidx]
            loc = tuple(sel[d] for d in sdims)
            all_dry = And(*[fl[(k,) + loc] for k in range(n)])
            oks.append(Implies(all_dry, isnan(got)))
            for k in range(n):
                s = dict(sel)
                s[depth_dim] = k
                v = values[tuple(s[d] for d in dims)]
                deeper_all_dry = And(*[Or(fl[(c,) + loc], Not(physd[c] > physd[k])) for c in range(n) if c != k])
                is_floor = And(Not(fl[(k,) + loc]), deeper_all_dry)
                oks.append(Implies(is_floor, same(got, v)))
        return And(*oks)

    name_of = {id(temp): 'temp', id(salt): 'salt', id(thick): 'thickness'}
    ctx.check('thickness' in out.variables, 'a coordinate that varies along the depth dimension and in space is reduced, not dropped')
    if 'thickness' in out.variables:
        ctx.check(expect_floor(thick, ('k',) + tuple(sdims), 'k', flags, phys, nk), 'thickness: coordinate reduced to the deepest layer that holds data')
    ctx.check(expect_floor(temp, dims_temp, 'k', flags, phys, nk), 'temp: deepest layer that holds data, at every location and time')
    ctx.check(expect_floor(salt, dims_salt, 'k', flags, phys, nk), 'salt: deepest layer that holds data')
    if two_depths and two_depths != 'same_dim':
        name_of[id(sed)] = 'sed'
        phys2 = [float(v) if down else -float(v) for v in z2]
        ctx.check(expect_floor(sed, dims_sed, 'k2', flags2, phys2, 2), 'sed: reduced along its own depth coordinate')
    # everything else untouched
    ctx.check(tuple(out['eta'].dims) == ('t',) + tuple(sdims) and
              And(*[same(a, b) for a, b in zip(out['eta'].values.ravel(), eta.ravel())]), 'variables without depth are unchanged')
    ctx.check(all(n in out.variables for n in base.variables), 'geometry variables are kept')
    for n in base.variables:
        a, b = out[n].values, base[n].values
        ctx.check(out[n].dims == base[n].dims and a.shape == b.shape and bool(numpy.all((a == b) | ((a != a) & (b != b)))),
                  'geometry variables unchanged')
    ctx.check(('time' in out.variables or 't' in out.variables) and 't' in out.dims, 'time coordinate kept')


def body_deep(ctx, nk):
    """Many layers (more than 127 / 255 / 32767 would fit in a narrow integer): the floor of each column is still its
    deepest layer that holds data.  Then the same dataset object is edited in place and asked again: the answer is
    about the dataset as it is now."""
    from emsarray.operations import depth as depth_ops
    nx = 5
    wet = [nk, max(nk - 30, 1), min(130, nk), 128, 0]
    order = int(ctx.int('deep_first', 0, 1))
    z = numpy.arange(nk, dtype=float) * 2.0 + 1.0
    vals = numpy.full((2, nk, 1, nx), numpy.nan)
    for c, w in enumerate(wet):
        vals[:, :w, 0, c] = numpy.arange(w)[None, :] * 10.0 + c + numpy.array([0.0, 0.5])[:, None]
    if order:
        z, vals = z[::-1].copy(), vals[:, ::-1].copy()
    ds = builders.cf1d(1, nx, data_vars={'temp': (('t', 'k', 'y', 'x'), vals.copy())})
    tv = xarray.Variable(('t',), numpy.array(['2000-01-01', '2000-01-02'], dtype='datetime64[ns]'), {'long_name': 'time'})
    tv.encoding['units'] = 'days since 1990-01-01 00:00:00'
    ds = ds.assign_coords(zc=(('k',), z, {'positive': 'down', 'long_name': 'depth'}), time=tv)
    want = numpy.array([[(w - 1) * 10.0 + c + dt if w else numpy.nan for c, w in enumerate(wet)] for dt in (0.0, 0.5)])
    out = depth_ops.ocean_floor(ds, ['zc'], non_spatial_variables=['time'])
    got = out['temp'].values.reshape(2, nx)
    ctx.check(bool(numpy.array_equal(got, want, equal_nan=True)), 'temp: deepest layer that holds data, at every location and time')
    # through the convention, twice, with an in-place edit in between
    first = ds.ems.ocean_floor()
    ctx.check(bool(numpy.array_equal(first['temp'].values.reshape(2, nx), want, equal_nan=True)), 'temp: deepest layer that holds data, at every location and time')
    ds['temp'].values[:, :, 0, 0] += 1000.0
    ds['extra'] = (('k', 'y', 'x'), vals[0] * 2.0)
    second = ds.ems.ocean_floor()
    want2 = want.copy()
    want2[:, 0] += 1000.0
    ctx.check('extra' in second.variables and bool(numpy.array_equal(second['temp'].values.reshape(2, nx), want2, equal_nan=True))
              and bool(numpy.array_equal(second['extra'].values.reshape(nx), want[0] * 2.0, equal_nan=True)),
              'asked again after the dataset was edited in place, the answer is about the dataset as it is now')


def body_wide(ctx, ny, nx, nk):
    """Many columns (a leading spatial dimension longer than any block size) and a staircase sea floor: every column
    gives the value of its own deepest layer that holds data."""
    from emsarray.operations import depth as depth_ops
    order = int(ctx.int('deep_first', 0, 1))
    # 0..nk wet layers, every count occurs; the last rows / columns are among the deepest
    wet = (nk - ((ny - 1 - numpy.arange(ny)[:, None]) * 3 + numpy.arange(nx)[None, :])) % (nk + 1)
    vals = numpy.full((nk, ny, nx), numpy.nan)
    for k in range(nk):
        vals[k][wet > k] = 100.0 * k + (numpy.arange(ny)[:, None] % 7 + numpy.arange(nx)[None, :] / 16.0)[wet > k]
    z = numpy.arange(nk, dtype=float) * 2.0 + 1.0
    want = numpy.where(wet > 0, 100.0 * (wet - 1) + (numpy.arange(ny)[:, None] % 7 + numpy.arange(nx)[None, :] / 16.0), numpy.nan)
    if order:
        z, vals = z[::-1].copy(), vals[::-1].copy()
    ds = xarray.Dataset({'temp': (('k', 'y', 'x'), vals), 'salt': (('y', 'x', 'k'), numpy.moveaxis(vals, 0, -1) + 0.25),
                         'row': (('k', 'x'), vals[:, ny - 1, :] + 0.5)},
                        coords={'zc': (('k',), z, {'positive': 'down'})})
    out = depth_ops.ocean_floor(ds, ['zc'])
    ctx.check(tuple(out['row'].dims) == ('x',) and bool(numpy.array_equal(out['row'].values, want[ny - 1] + 0.5, equal_nan=True)),
              'row: deepest layer that holds data')
    ctx.check(tuple(out['temp'].dims) == ('y', 'x') and bool(numpy.array_equal(out['temp'].values, want, equal_nan=True)),
              'temp: deepest layer that holds data, at every location and time')
    ctx.check(tuple(out['salt'].dims) == ('y', 'x') and bool(numpy.array_equal(out['salt'].values, want + 0.25, equal_nan=True)),
              'salt: deepest layer that holds data')


def body_values(ctx, fill):
    """Particular values at the sea floor: whatever number is stored in the deepest layer that holds data is the answer -
    zero, negative zero, a number equal to the fill value remembered in the encoding, numbers beyond single precision."""
    from emsarray.operations import depth as depth_ops
    order = int(ctx.int('deep_first', 0, 1))
    specials = [0.0, -0.0, -999.0, 1e35, 1e39, -1e39, 1e300, 5e-324, float(2 ** 53 + 1), -32768.0, 9.969209968386869e36, 1.0]
    nk, n = 3, len(specials)
    vals = numpy.full((nk, 2, n), numpy.nan)
    vals[0] = 7.5                                   # surface layer everywhere
    vals[1, 0, :] = numpy.array(specials)           # row 0: two wet layers, the special value at the floor
    vals[1, 1, :] = 3.25
    vals[2, 1, :] = numpy.array(specials)           # row 1: three wet layers, the special value at the floor
    want = numpy.stack([numpy.array(specials), numpy.array(specials)])
    z = numpy.array([1.0, 3.0, 5.0])
    if order:
        z, vals = z[::-1].copy(), vals[::-1].copy()
    ds = xarray.Dataset({'temp': (('k', 'y', 'x'), vals)}, coords={'zc': (('k',), z, {'positive': 'down'})})
    if fill is not None:
        where, value = fill
        getattr(ds['temp'], where)['_FillValue'] = value
        if where == 'encoding':
            ds['temp'].encoding['missing_value'] = value
    out = depth_ops.ocean_floor(ds, ['zc'])
    got = out['temp'].values
    ok = got.shape == want.shape and all((g == w and numpy.signbit(g) == numpy.signbit(w)) for g, w in zip(got.ravel().tolist(), want.ravel().tolist()))
    ctx.check(ok, 'temp: deepest layer that holds data, at every location and time')


def cases(tier):
    for k, fill in enumerate((None, ('encoding', 0.0), ('encoding', -999.0), ('encoding', 1e35), ('encoding', -32768.0), ('encoding', 9.969209968386869e36), ('encoding', 1.0))):
        yield Case(f'values:fill{k}', body_values, dict(fill=fill), max_paths=4)
    q = tier == 'quick'
    for ny, nx, nk in ((257, 2, 3), (300, 5, 9), (3, 3, 9), (2, 260, 17), (259, 3, 4), (2, 257, 3), (1027, 2, 10), (3, 66000, 2)):
        yield Case(f'wide:{ny}x{nx}:nk{nk}', body_wide, dict(ny=ny, nx=nx, nk=nk), max_paths=4)
    for nk in ((160,) if q else (160, 300, 33000)):
        yield Case(f'deep:nk{nk}', body_deep, dict(nk=nk), max_paths=4)
    combos = []
    for positive in ('down', 'up'):
        for order in ('deep_first', 'shallow_first'):
            combos.append((positive, order))
    k = 0
    for conv in ('plain', 'cf1d', 'shoc_standard', 'ugrid'):
        for (positive, order) in combos:
            for dpos in ((0, 1) if q else (0, 1, 2)):
                k += 1
                nk = 2 if (q and k % 2) else 3
                if not q and k % 4 == 0:
                    nk = 4
                two = (k % 3 == 0)
                if k % 7 == 3:
                    two = 'same_dim'
                holes = (k % 5 == 0) and nk <= 3
                yield Case(f'{conv}:{positive}:{order}:dpos{dpos}:nk{nk}:two{two if isinstance(two, str) else int(two)}:holes{int(holes)}', body,
                           dict(conv=conv, nk=nk, positive=positive, order=order, dpos=dpos, two_depths=two, via='function', holes=holes),
                           patches=depthcommon.patches, max_paths=20000, split=16)
    for zdtype, positive in (('uint16', 'down'), ('uint8', 'down'), ('int16', 'up')):
        for order in ('deep_first', 'shallow_first'):
            yield Case(f'plain:{positive}:{order}:dpos0:nk3:two0:holes0:{zdtype}-depths', body,
                       dict(conv='plain', nk=3, positive=positive, order=order, dpos=0, two_depths=False, via='function', holes=False, zdtype=zdtype),
                       patches=depthcommon.patches, max_paths=20000, split=16)
    for k, marker in enumerate(({'coordinate_type': 'Z'}, {'axis': 'Z'}, {'standard_name': 'depth'}, {'cartesian_axis': 'Z'})):
        conv = ('cf1d', 'ugrid')[k % 2]
        yield Case(f'{conv}:down:shallow_first:dpos0:nk3:two0:holes0:convention:marker-{list(marker)[0]}', body,
                   dict(conv=conv, nk=3, positive='down', order='shallow_first', dpos=0, two_depths=False, via='convention', holes=False,
                        zdtype='float64', marker=marker), patches=depthcommon.patches, max_paths=20000, split=16)
    # SHOC conventions (depth coordinates known by name); the depth coordinate held as a plain variable; no positive attribute
    for conv, positive, order, extra in (('shoc_simple', 'up', 'deep_first', dict()), ('shoc_simple', 'down', 'shallow_first', dict(depth_is_data_var=True)),
                                         ('shoc_standard', 'up', 'shallow_first', dict(depth_is_data_var=True)), ('shoc_standard', 'up', 'deep_first', dict()),
                                         ('shoc_standard', 'down', 'shallow_first', dict(zdtype='float64', marker={'long_name': 'Z coordinate'}))):
        tag = '+'.join(extra) or 'plain'
        yield Case(f'{conv}:{positive}:{order}:dpos0:nk3:two0:holes0:convention:{tag}', body,
                   dict(conv=conv, nk=3, positive=positive, order=order, dpos=0, two_depths=False, via='convention', holes=False, **extra),
                   patches=depthcommon.patches, max_paths=20000, split=16)
    for conv, two, positive in (('cf1d', True, 'down'), ('ugrid', 'same_dim', 'up'), ('ugrid', True, 'up'), ('cf1d', False, 'up')):
        # (SHOC conventions look their depth coordinates up by their fixed names: not exercised through the alias here)
        if q and two == 'same_dim':
            continue
        yield Case(f'{conv}:{positive}:deep_first:dpos1:nk2:two{two if isinstance(two, str) else int(two)}:holes0:convention', body,
                   dict(conv=conv, nk=2, positive=positive, order='deep_first', dpos=1, two_depths=two, via='convention', holes=False),
                   patches=depthcommon.patches, max_paths=20000, split=16)
    for conv, two in (('plain', False), ('cf1d', True)):
        yield Case(f'{conv}:down:shallow_first:dpos0:nk2:two{int(two)}:holes0:iterator', body,
                   dict(conv=conv, nk=2, positive='down', order='shallow_first', dpos=0, two_depths=two, via='iterator', holes=False),
                   patches=depthcommon.patches, max_paths=20000, split=16)
    yield Case('plain:DOWN:shallow_first:dpos0:nk3:two0:holes0', body,
               dict(conv='plain', nk=3, positive='DOWN', order='shallow_first', dpos=0, two_depths=False, via='function', holes=False),
               patches=depthcommon.patches, max_paths=20000, split=16)


def functions():
    from emsarray.operations import depth
    from emsarray import utils
    return [depth.ocean_floor, depth._find_ocean_floor_indexes, depth.normalize_depth_variables,
            utils.dimensions_from_coords, utils.extract_vars]


def run(tier, seed=0, replay=None, procs=None, only=None):
    if replay:
        return replay_file(replay, list(cases('thorough')) + list(cases('quick')))
    cs = list(cases(tier))
    if only:
        cs = [c for c in cs if re.search(only, c.name)]
    q = tier == 'quick'
    return main_run(
        PROP, tier, cs, functions=functions(), seed=seed, procs=procs,
        bounds=dict(
            columns=f'{"2-3" if q else "2-4"} layers x 2 horizontal locations x 2 times; depth dimension first/middle/last; '
                    'a second depth coordinate with its own variable in a third of the cases',
            orientation='positive up/down x deep-to-shallow / shallow-to-deep storage',
            symbolic='sea-floor shape: one dry flag per (layer, location) - all shapes with the wet layers on top (and, in '
                     'some cases, arbitrary holes); data values and depth values: Reals',
            outside='sea floors that change over time; more than 4 layers / 2 locations'),
        stubs=['xarray.core.duck_array_ops.pandas_isnull: recognises the NaN flag of symbolic reals (forks)'],
        assumptions=['xarray cumsum/argmax/isel/merge treat object arrays like float arrays (every path is replayed on floats)'],
    )
