"""Shared by C02/C04/C05/C06/C15/C19: datasets whose coordinates are symbolic,
the reference geometry written independently from the convention documents,
and the environment patches for the polygon pipeline.
"""
import itertools

import numpy
import shapely
import xarray
import z3

from symx import builders, env, geo
from symx.core import (
    And, HarnessError, Iff, Implies, Not, Or, PathAbort, SymBool, SymReal, close, ctx as cur_ctx,
    isnan, ite, same,
)


# ---------------------------------------------------------------------------
# symbolic coordinate arrays

def coord_array(ctx, name, shape, flags=None, nominal=None):
    """Array of reals named name_k; flags: same-shaped array of shared NaN flags, or None.
    nominal: preferred witness values (a valid, skewed, all-distinct geometry)."""
    arr = numpy.empty(shape, dtype=object if ctx.symbolic else float)
    for k, idx in enumerate(numpy.ndindex(*shape)):
        hint = None if nominal is None else float(numpy.asarray(nominal, dtype=float)[idx])
        if flags is None:
            arr[idx] = ctx.real(f'{name}{k}', hint=hint)
        else:
            arr[idx] = ctx.real(f'{name}{k}', flag=flags[idx], hint=hint)
    return arr


def flag_array(ctx, name, shape, allowed=None):
    """Array of NaN flags; positions not in `allowed` are fixed False."""
    arr = numpy.empty(shape, dtype=object if ctx.symbolic else bool)
    for k, idx in enumerate(numpy.ndindex(*shape)):
        if allowed is None or idx in allowed:
            arr[idx] = ctx.bool(f'{name}{k}')
        else:
            arr[idx] = SymBool(False) if ctx.symbolic else False
    return arr


class Pipe:
    """dataset + convention + independent reference description of every cell."""

    def __init__(self):
        self.ds = None
        self.convention = None
        self.conv = None
        self.shape = None          # face grid shape
        self.ncells = 0
        self.native = None         # n -> reference native index (face kind)
        self.corners = None        # n -> list of (x, y) reference corners
        self.hole = None           # n -> condition: the cell has no polygon because of missing coordinates
        self.centre = None         # n -> (x, y) reference face centre or None if derived from geometry
        self.extent_corners = None  # list of (x, y, present-condition) used for bounds

    def valid_ref(self, ctx, n):
        """Validity of the reference cell: the symbolic claim is made for valid
        cells (contract: is_valid -> True); in replay the real GEOS verdict on the
        reference ring is used so that degenerate witnesses are judged correctly."""
        if ctx.symbolic:
            return True
        pts = [(float(x), float(y)) for x, y in self.corners(n)]
        if any(numpy.isnan(v) for p in pts for v in p):
            return False
        return bool(shapely.Polygon(pts).is_valid)


def _mid1d(values):
    """CF 1-D: cell bounds are the midpoints between neighbouring coordinate values;
    the first and last cell extend half a gap beyond the first and last value."""
    n = len(values)
    lo, hi = [], []
    for i in range(n):
        lo.append((values[i - 1] + values[i]) / 2 if i > 0 else values[0] - (values[1] - values[0]) / 2)
        hi.append((values[i] + values[i + 1]) / 2 if i < n - 1 else values[-1] + (values[-1] - values[-2]) / 2)
    return lo, hi


def int_coord_array(ctx, name, n, nominal, dtype):
    """Coordinate values stored in an integer type (whole-degree axes): symbolic Ints; the replay builds a real
    array of that dtype.  Object arrays carry no numeric dtype, so what numpy does *because* of the dtype is seen by
    the replayed witness of each path only, not by the solver."""
    arr = numpy.empty((n,), dtype=object if ctx.symbolic else dtype)
    for k in range(n):
        arr[k] = ctx.int(f'{name}{k}', -20000, 20000, hint=int(nominal[k]))
    return arr


# True: the coordinate variables carry nothing that identifies them (neutral names, projected units) and the caller
# names them when constructing the convention: Convention(dataset, latitude=..., longitude=...)
EXPLICIT_NAMES = False


# True: a rotated-pole file - the grid dimensions have 1-D axes of their own (standard names grid_latitude /
# grid_longitude, units degrees) stored ahead of the true 2-D latitude / longitude
ROTATED_AXES = False


def _named(P, cls):
    if ROTATED_AXES:
        import xarray
        ydim, xdim = P.ds['lat'].dims if P.ds['lat'].ndim == 2 else (P.ds['lat'].dims[0], P.ds['lon'].dims[0])
        axes = {'rlat': ((ydim,), numpy.arange(P.ds.sizes[ydim]) * 0.5 - 3.0, {'standard_name': 'grid_latitude', 'units': 'degrees', 'long_name': 'latitude in rotated pole grid'}),
                'rlon': ((xdim,), numpy.arange(P.ds.sizes[xdim]) * 0.5 + 7.0, {'standard_name': 'grid_longitude', 'units': 'degrees', 'long_name': 'longitude in rotated pole grid'})}
        first = xarray.Dataset({k: xarray.Variable(*v) for k, v in axes.items()})
        rest = P.ds.reset_coords()
        ds = xarray.Dataset({**first.variables, **{k: v for k, v in rest.variables.items()}}, attrs=P.ds.attrs)
        P.ds = ds.set_coords([c for c in P.ds.coords if c in ds.variables])
    if not EXPLICIT_NAMES:
        return cls(P.ds)
    ds = P.ds.rename({'lat': 'gy', 'lon': 'gx'})
    for name, sn in (('gy', 'projection_y_coordinate'), ('gx', 'projection_x_coordinate')):
        ds[name].attrs.update(units='m', standard_name=sn)
    P.ds = ds
    return cls(ds, latitude='gy', longitude='gx')


def build(ctx, conv, shape, *, bounds='none', as_coords=True, nan_cells=None, data=None, mesh_opts=None,
          dims=None, descending=False, coord_dtype=None):
    """Construct the dataset for `conv`.  bounds: 'none' | 'stored'.
    nan_cells: set of positions allowed to be missing (None = all, () = none)."""
    from emsarray.conventions.grid import CFGrid1D, CFGrid2D
    from emsarray.conventions.shoc import ShocSimple, ShocStandard
    from emsarray.conventions.ugrid import UGrid
    P = Pipe()
    P.conv = conv
    data_vars = dict(data or {})

    if conv == 'cf1d':
        ny, nx = shape
        nlat = numpy.array([10 + j + 0.125 * j * j for j in range(ny)])
        nlon = numpy.array([100 + 2 * i + 0.25 * i * i for i in range(nx)])
        if descending:
            nlat, nlon = nlat[::-1].copy(), nlon[::-1].copy()
        if coord_dtype:
            # odd spacings: the half-cell midpoints are not whole numbers
            nlat = numpy.array([-12 + 3 * j + j * j for j in range(ny)])
            nlon = numpy.array([146 - i - 2 * i * i for i in range(nx)])
            if descending:
                nlat, nlon = nlat[::-1].copy(), nlon[::-1].copy()
            lat = int_coord_array(ctx, 'lat', ny, nlat, coord_dtype)
            lon = int_coord_array(ctx, 'lon', nx, nlon, coord_dtype)
        else:
            lat = coord_array(ctx, 'lat', (ny,), nominal=nlat)
            lon = coord_array(ctx, 'lon', (nx,), nominal=nlon)
        kw = {}
        if bounds == 'stored':
            latb = coord_array(ctx, 'latb', (ny, 2), nominal=numpy.stack([nlat - 0.375, nlat + 0.5], axis=-1))
            lonb = coord_array(ctx, 'lonb', (nx, 2), nominal=numpy.stack([nlon - 0.75, nlon + 0.875], axis=-1))
            kw = dict(lat_bounds=latb, lon_bounds=lonb)
            ylo, yhi = list(latb[:, 0]), list(latb[:, 1])
            xlo, xhi = list(lonb[:, 0]), list(lonb[:, 1])
        elif bounds == 'misdim':
            # bounds stored as (bnds, n): not a valid CF bounds layout for this coordinate -> ignored, bounds derived
            latb = coord_array(ctx, 'latb', (2, ny), nominal=numpy.stack([nlat - 0.375, nlat + 0.5], axis=0))
            lonb = coord_array(ctx, 'lonb', (2, nx), nominal=numpy.stack([nlon - 0.75, nlon + 0.875], axis=0))
            kw = dict(lat_bounds=latb, lon_bounds=lonb, bounds_dims=(('bnds', dims[0] if dims else 'y'), ('bnds', dims[1] if dims else 'x')))
            ylo, yhi = _mid1d(list(lat))
            xlo, xhi = _mid1d(list(lon))
        else:
            ylo, yhi = _mid1d(list(lat))
            xlo, xhi = _mid1d(list(lon))
        ydim, xdim = dims or ('y', 'x')
        P.ds = builders.cf1d(ny, nx, lat=lat, lon=lon, ydim=ydim, xdim=xdim, as_coords=as_coords, data_vars=data_vars, **kw)
        P.convention = _named(P, CFGrid1D)
        P.shape = (ny, nx)
        P.native = lambda n: (n // nx, n % nx)
        P.corners = lambda n: [(xlo[n % nx], ylo[n // nx]), (xhi[n % nx], ylo[n // nx]),
                               (xhi[n % nx], yhi[n // nx]), (xlo[n % nx], yhi[n // nx])]
        P.hole = lambda n: False
        P.centre = lambda n: (lon[n % nx], lat[n // nx])
        P.grid_dims = {'face': (ydim, xdim)}

    elif conv in ('cf2d', 'shoc_simple'):
        ny, nx = shape
        allowed = None if nan_cells is None else set(nan_cells)
        cflag = flag_array(ctx, 'cnan', (ny, nx), allowed)
        jj, ii = numpy.meshgrid(numpy.arange(ny, dtype=float), numpy.arange(nx, dtype=float), indexing='ij')
        nlat, nlon = 10.0 + jj + 0.25 * ii, 100.0 + 2.0 * ii - 0.5 * jj
        lat = coord_array(ctx, 'lat', (ny, nx), cflag, nominal=nlat)
        lon = coord_array(ctx, 'lon', (ny, nx), cflag, nominal=nlon)
        # nominal corners: the parallelogram spanned by half the lattice vectors (2, .25) and (-.5, 1)
        off = [(-1, -1), (1, -1), (1, 1), (-1, 1)]
        kw = {}
        if bounds == 'stored':
            bflag = flag_array(ctx, 'bnan', (ny, nx), allowed)
            latb = numpy.empty((ny, nx, 4), dtype=lat.dtype)
            lonb = numpy.empty((ny, nx, 4), dtype=lat.dtype)
            for j in range(ny):
                for i in range(nx):
                    for c in range(4):
                        a, b = off[c]
                        # (nominal cells are 1/16 larger than the lattice: stored corners of neighbours need not coincide,
                        #  witnesses have slightly overlapping cells)
                        latb[j, i, c] = ctx.real(f'latb{j}_{i}_{c}', flag=bflag[j, i],
                                                 hint=float(nlat[j, i] + (a * 0.125 + b * 0.5) * 1.0625))
                        lonb[j, i, c] = ctx.real(f'lonb{j}_{i}_{c}', flag=bflag[j, i],
                                                 hint=float(nlon[j, i] + (a * 1.0 - b * 0.25) * 1.0625))
            kw = dict(lat_bounds=latb, lon_bounds=lonb)
            P.corners = lambda n: [(lonb[n // nx, n % nx, c], latb[n // nx, n % nx, c]) for c in range(4)]
            P.hole = lambda n: bflag[n // nx, n % nx]
        elif bounds == 'misdim':
            # bounds stored with the horizontal dimensions transposed relative to the coordinates: (x, y, 4).
            # That is not the layout of this grid, so the variable is ignored (with a warning) and bounds are derived.
            tb_lat = numpy.empty((nx, ny, 4), dtype=lat.dtype)
            tb_lon = numpy.empty((nx, ny, 4), dtype=lat.dtype)
            for i in range(nx):
                for j in range(ny):
                    for c in range(4):
                        a, b = off[c]
                        tb_lat[i, j, c] = ctx.real(f'latb{i}_{j}_{c}', hint=float(nlat[j, i] + a * 0.125 + b * 0.5))
                        tb_lon[i, j, c] = ctx.real(f'lonb{i}_{j}_{c}', hint=float(nlon[j, i] + a * 1.0 - b * 0.25))
            yd, xd = (dims or (('y', 'x') if conv == 'cf2d' else ('j', 'i')))
            kw = dict(lat_bounds=tb_lat, lon_bounds=tb_lon, bounds_dims=(xd, yd, 'four'))
            gx, gy, ghole = _derive_2d(ctx, lon, lat, cflag)
            P.corners = lambda n: [(gx[n // nx, n % nx], gy[n // nx, n % nx]),
                                   (gx[n // nx, n % nx + 1], gy[n // nx, n % nx + 1]),
                                   (gx[n // nx + 1, n % nx + 1], gy[n // nx + 1, n % nx + 1]),
                                   (gx[n // nx + 1, n % nx], gy[n // nx + 1, n % nx])]
            P.hole = lambda n: Or(cflag[n // nx, n % nx],
                                  ghole[n // nx, n % nx], ghole[n // nx, n % nx + 1],
                                  ghole[n // nx + 1, n % nx + 1], ghole[n // nx + 1, n % nx])
        else:
            gx, gy, ghole = _derive_2d(ctx, lon, lat, cflag)
            P.corners = lambda n: [(gx[n // nx, n % nx], gy[n // nx, n % nx]),
                                   (gx[n // nx, n % nx + 1], gy[n // nx, n % nx + 1]),
                                   (gx[n // nx + 1, n % nx + 1], gy[n // nx + 1, n % nx + 1]),
                                   (gx[n // nx + 1, n % nx], gy[n // nx + 1, n % nx])]
            P.hole = lambda n: Or(cflag[n // nx, n % nx],
                                  ghole[n // nx, n % nx], ghole[n // nx, n % nx + 1],
                                  ghole[n // nx + 1, n % nx + 1], ghole[n // nx + 1, n % nx])
        if conv == 'cf2d':
            ydim, xdim = dims or ('y', 'x')
            P.ds = builders.cf2d(ny, nx, lat=lat, lon=lon, ydim=ydim, xdim=xdim, as_coords=as_coords, data_vars=data_vars, **kw)
            P.convention = _named(P, CFGrid2D)
        else:
            ydim, xdim = 'j', 'i'
            P.ds = builders.shoc_simple(ny, nx, lat=lat, lon=lon, as_coords=as_coords, data_vars=data_vars, **kw)
            P.convention = ShocSimple(P.ds)
        P.shape = (ny, nx)
        P.native = lambda n: (n // nx, n % nx)
        P.centre = lambda n: (lon[n // nx, n % nx], lat[n // nx, n % nx])
        P.grid_dims = {'face': (ydim, xdim)}

    elif conv == 'shoc_standard':
        ny, nx = shape
        allowed = None if nan_cells is None else set(nan_cells)
        nflag = flag_array(ctx, 'nnan', (ny + 1, nx + 1), allowed)
        jj, ii = numpy.meshgrid(numpy.arange(ny + 1, dtype=float), numpy.arange(nx + 1, dtype=float), indexing='ij')
        nnx, nny = 100.0 + 2.0 * ii + 0.5 * jj, 10.0 + jj - 0.25 * ii
        node_x = coord_array(ctx, 'nx', (ny + 1, nx + 1), nflag, nominal=nnx)
        node_y = coord_array(ctx, 'ny', (ny + 1, nx + 1), nflag, nominal=nny)
        fflag = flag_array(ctx, 'fnan', (ny, nx), set() if nan_cells == () else None)
        face_x = coord_array(ctx, 'fx', (ny, nx), fflag, nominal=(nnx[:-1, :-1] + nnx[1:, 1:]) / 2 + 0.0625)
        face_y = coord_array(ctx, 'fy', (ny, nx), fflag, nominal=(nny[:-1, :-1] + nny[1:, 1:]) / 2 + 0.0625)
        P.ds = builders.shoc_standard(ny, nx, node_x=_plain(node_x), node_y=_plain(node_y), face_x=face_x, face_y=face_y,
                                      as_coords=as_coords, data_vars=data_vars, x_transposed=tuple((mesh_opts or {}).get('x_transposed', ())),
                                      **_shoc_edge_coords(ctx, ny, nx))
        P.convention = ShocStandard(P.ds)
        P.shape = (ny, nx)
        kind = next(k for k in P.convention.grid_kinds if k.value == 'face')
        P.native = lambda n: (kind, n // nx, n % nx)
        P.corners = lambda n: [(node_x[n // nx, n % nx], node_y[n // nx, n % nx]),
                               (node_x[n // nx, n % nx + 1], node_y[n // nx, n % nx + 1]),
                               (node_x[n // nx + 1, n % nx + 1], node_y[n // nx + 1, n % nx + 1]),
                               (node_x[n // nx + 1, n % nx], node_y[n // nx + 1, n % nx])]
        P.hole = lambda n: Or(nflag[n // nx, n % nx], nflag[n // nx, n % nx + 1],
                              nflag[n // nx + 1, n % nx + 1], nflag[n // nx + 1, n % nx])
        P.centre = lambda n: (face_x[n // nx, n % nx], face_y[n // nx, n % nx])
        P.grid_dims = {k: builders.SHOC_DIMS[k] for k in builders.SHOC_DIMS}

    elif conv == 'ugrid':
        mesh = shape
        nodes, faces = builders.MESHES[mesh]
        opts = dict(mesh_opts or {})
        with_centres = opts.pop('face_centres', False)
        node_x = coord_array(ctx, 'nx', (len(nodes),), nominal=[100 + 2 * p[0] + 0.125 * p[1] for p in nodes])
        node_y = coord_array(ctx, 'ny', (len(nodes),), nominal=[10 + p[1] + 0.0625 * p[0] for p in nodes])
        kw = {}
        if with_centres:
            fx = coord_array(ctx, 'fx', (len(faces),), nominal=[100 + 2 * numpy.mean([nodes[v][0] for v in f]) for f in faces])
            fy = coord_array(ctx, 'fy', (len(faces),), nominal=[10 + numpy.mean([nodes[v][1] for v in f]) for f in faces])
            kw['face_xy'] = (fx, fy)
        P.ds = builders.ugrid(mesh, node_x=node_x, node_y=node_y, data_vars=data_vars, **kw, **opts)
        P.convention = UGrid(P.ds)
        P.shape = (len(faces),)
        kind = next(k for k in P.convention.grid_kinds if k.value == 'face')
        P.native = lambda n: (kind, n)
        P.corners = lambda n: [(node_x[v], node_y[v]) for v in faces[n]]
        P.hole = lambda n: False
        P.centre = (lambda n: (fx[n], fy[n])) if with_centres else None
        P.grid_dims = {'face': ('nface',), 'node': ('nnode',), 'edge': ('nedge',)}
    else:
        raise ValueError(conv)
    P.ncells = int(numpy.prod(P.shape))
    return P


def _plain(a):
    return a


def _shoc_edge_coords(ctx, ny, nx):
    return {}


def _derive_2d(ctx, lon, lat, cflag):
    """Reference for CF 2-D grids without stored bounds (documented in
    CFGrid2DTopology): cell corners are the average of the (up to four)
    surrounding cell centres that exist; a centre that has missing neighbours on
    both sides along one axis is not used.  Returns corner grids (ny+1, nx+1)
    for x and y and a 'corner missing' condition grid."""
    ny, nx = lon.shape

    def missing(j, i):
        if 0 <= j < ny and 0 <= i < nx:
            return cflag[j, i]
        return False
    usable = numpy.empty((ny, nx), dtype=object)
    for j in range(ny):
        for i in range(nx):
            usable[j, i] = Not(Or(cflag[j, i], And(missing(j - 1, i), missing(j + 1, i)),
                                  And(missing(j, i - 1), missing(j, i + 1))))
    gx = numpy.empty((ny + 1, nx + 1), dtype=object)
    gy = numpy.empty((ny + 1, nx + 1), dtype=object)
    gh = numpy.empty((ny + 1, nx + 1), dtype=object)
    for J in range(ny + 1):
        for I in range(nx + 1):
            cells = [(j, i) for j in (J - 1, J) for i in (I - 1, I) if 0 <= j < ny and 0 <= i < nx]
            gx[J, I] = _mean_where([lon[c] for c in cells], [usable[c] for c in cells], ctx)
            gy[J, I] = _mean_where([lat[c] for c in cells], [usable[c] for c in cells], ctx)
            gh[J, I] = Not(Or(*[usable[c] for c in cells]))
    return gx, gy, gh


def _mean_where(vals, conds, ctx):
    """mean of vals[k] over the k with conds[k]; irrelevant (0) when none holds."""
    if not ctx.symbolic:
        sel = [float(v) for v, c in zip(vals, conds) if c]
        return sum(sel) / len(sel) if sel else float('nan')
    total = z3.RealVal(0)
    count = z3.RealVal(0)
    for v, c in zip(vals, conds):
        cz = c.z if isinstance(c, SymBool) else z3.BoolVal(bool(c))
        total = total + z3.If(cz, v.v, 0)
        count = count + z3.If(cz, 1, 0)
    # division by a symbolic count: enumerate the (<= 4) possible counts
    expr = z3.RealVal(0)
    for k in range(len(vals), 0, -1):
        expr = z3.If(count == k, total / k, expr)
    return SymReal(expr, count == 0)


# ---------------------------------------------------------------------------
# ring comparison

def _dedupe_ring(pts):
    out = []
    for p in pts:
        p = (float(p[0]), float(p[1]))
        if not out or abs(out[-1][0] - p[0]) > 1e-12 or abs(out[-1][1] - p[1]) > 1e-12:
            out.append(p)
    while len(out) > 1 and abs(out[0][0] - out[-1][0]) <= 1e-12 and abs(out[0][1] - out[-1][1]) <= 1e-12:
        out.pop()
    return out

def ring_matches(got, ref, exact_order=False):
    """The polygon ring `got` is the cell `ref`: same corners in the same cyclic
    order (any starting corner, either direction)."""
    if not any(isinstance(v, SymReal) for pt in list(got) + list(ref) for v in pt):
        # real shapely closes rings implicitly: compare modulo repeated consecutive corners
        got, ref = _dedupe_ring(got), _dedupe_ring(ref)
    if len(got) != len(ref):
        return False
    n = len(ref)
    if n == 0:
        return True
    alts = []
    shifts = [0] if exact_order else range(n)
    for s in shifts:
        for direction in ((1,) if exact_order else (1, -1)):
            alts.append(And(*[And(close(got[k][0], ref[(s + direction * k) % n][0]),
                                  close(got[k][1], ref[(s + direction * k) % n][1])) for k in range(n)]))
    return Or(*alts)


# ---------------------------------------------------------------------------
# validity contract (sandwich between two sufficient conditions)

def _orient(a, b, c):
    return (b[0] - a[0]) * (c[1] - a[1]) - (b[1] - a[1]) * (c[0] - a[0])


def _zv(x):
    if isinstance(x, SymReal):
        return x.v
    import fractions
    return fractions.Fraction(x)


def _and(*xs):
    if any(isinstance(x, z3.ExprRef) for x in xs):
        return z3.And(*[x if isinstance(x, z3.ExprRef) else z3.BoolVal(bool(x)) for x in xs])
    return all(xs)


def _or(*xs):
    if any(isinstance(x, z3.ExprRef) for x in xs):
        return z3.Or(*[x if isinstance(x, z3.ExprRef) else z3.BoolVal(bool(x)) for x in xs])
    return any(xs)


def validity_regions(coords):
    """(surely_valid, surely_invalid) conditions over a ring of corners (z3 terms for
    symbolic corners, plain booleans for numbers).
    surely_valid: strictly convex, consistently oriented.
    surely_invalid: triangle with collinear corners; quad whose opposite edges properly
    cross (bow-tie) or whose four corner turns are all zero (no area)."""
    pts = [(_zv(x), _zv(y)) for x, y in coords]
    n = len(pts)
    turns = [_orient(pts[k], pts[(k + 1) % n], pts[(k + 2) % n]) for k in range(n)]
    valid = _or(_and(*[t > 0 for t in turns]), _and(*[t < 0 for t in turns]))
    if n == 3:
        invalid = turns[0] == 0
    elif n == 4:
        def cross(a, b, c, d):
            o1, o2, o3, o4 = _orient(a, b, c), _orient(a, b, d), _orient(c, d, a), _orient(c, d, b)
            return _and(_or(_and(o1 > 0, o2 < 0), _and(o1 < 0, o2 > 0)),
                        _or(_and(o3 > 0, o4 < 0), _and(o3 < 0, o4 > 0)))
        invalid = _or(cross(pts[0], pts[1], pts[2], pts[3]), cross(pts[1], pts[2], pts[3], pts[0]),
                      _and(*[t == 0 for t in turns]))
    else:
        invalid = False
    if isinstance(valid, z3.ExprRef) and not isinstance(invalid, z3.ExprRef):
        invalid = z3.BoolVal(bool(invalid))
    return valid, invalid


def _same_term(a, b):
    if isinstance(a, SymReal) and isinstance(b, SymReal):
        return z3.eq(z3.simplify(a.v), z3.simplify(b.v))
    return False


def _is_rect_pattern(coords):
    if len(coords) != 4:
        return False
    (x0, y0), (x1, y1), (x2, y2), (x3, y3) = coords
    return (_same_term(y0, y1) and _same_term(x1, x2) and _same_term(y2, y3) and _same_term(x3, x0))


def make_is_valid(mode):
    """shapely.is_valid contract.  mode 'all': every polygon is valid (C02 family,
    validity is C06's subject).  mode 'sandwich': decided from the symbolic corners;
    paths where neither sufficient condition holds are outside the claim."""
    def is_valid(polygons, **kw):
        arr = numpy.asarray(polygons, dtype=object)
        out = numpy.zeros(arr.shape, dtype=bool)
        for k, p in enumerate(arr.reshape(-1)):
            if p is None:
                out.reshape(-1)[k] = False
            elif isinstance(p, geo.SymPoly):
                if mode == 'all':
                    out.reshape(-1)[k] = True
                elif mode == 'rect' and _is_rect_pattern(p.coords):
                    # axis-aligned rectangle (x0,y0),(x1,y0),(x1,y1),(x0,y1): every corner turn is
                    # +-(x1-x0)*(y1-y0), so GEOS validity is exactly "both sides non-zero" (linear)
                    c = cur_ctx()
                    (x0, y0), (x1, _), (_, y1), _ = p.coords
                    out.reshape(-1)[k] = c.decide(z3.And(_zv(x0) != _zv(x1), _zv(y0) != _zv(y1)))
                else:
                    c = cur_ctx()
                    c.nonlinear = True
                    valid, invalid = validity_regions(p.coords)
                    if c.decide(valid):
                        out.reshape(-1)[k] = True
                    elif c.decide(invalid):
                        out.reshape(-1)[k] = False
                    else:
                        raise PathAbort('polygon neither surely valid nor surely invalid: outside the claim')
            else:
                out.reshape(-1)[k] = bool(shapely.is_valid(p))
        return out
    return is_valid


class RecordingTree:
    """STRtree constructor contract: remembers the array it was built from."""
    instances = []

    def __init__(self, geoms, *a, **k):
        self.geometries = numpy.asarray(geoms, dtype=object)
        RecordingTree.instances.append(self)

    def query(self, *a, **k):
        raise HarnessError('RecordingTree.query: use StubTree for queries')


class SymUnion:
    """shapely.unary_union contract: the union of exactly the geometries given.
    coverage=True: built by a coverage union, which is the union only when the parts form a valid coverage (match edge
    to edge, no overlaps) - not something arbitrary stored bounds guarantee."""
    def __init__(self, geoms, coverage=False):
        self.parts = list(geoms)
        self.coverage = coverage

    @property
    def bounds(self):
        xs, ys = [], []
        for p in self.parts:
            for (x, y) in geo.poly_coords(p):
                xs.append(x)
                ys.append(y)
        return (env._nan_reduce(xs, lambda v, acc: v < acc), env._nan_reduce(ys, lambda v, acc: v < acc),
                env._nan_reduce(xs, lambda v, acc: v > acc), env._nan_reduce(ys, lambda v, acc: v > acc))


class SymBox:
    """shapely.geometry.box contract: the axis-aligned rectangle of its arguments."""
    def __init__(self, minx, miny, maxx, maxy, ccw=True):
        self.args = (minx, miny, maxx, maxy)


def patches(valid_mode='all'):
    def make():
        import emsarray.conventions._base as base
        import emsarray.conventions.grid as grid
        import emsarray.conventions.ugrid as ugrid
        import emsarray.conventions.arakawa_c as arakawa
        import emsarray.utils as utils
        RecordingTree.instances = []
        np = env.numpy_proxy()
        return env.patched(
            (utils, 'numpy', np),
            (utils, 'shapely', env.Proxy(shapely, dict(polygons=geo.shapely_polygons))),
            (base, 'numpy', np),
            (base, 'int', env.sym_int),
            (base, 'shapely', env.Proxy(shapely, dict(is_valid=make_is_valid(valid_mode),
                                                      unary_union=lambda g, **k: SymUnion(g),
                                                      coverage_union_all=lambda g, **k: SymUnion(g, coverage=True),
                                                      union_all=lambda g, **k: SymUnion(g)))),
            (base, 'STRtree', RecordingTree),
            (grid, 'numpy', np),
            (grid, 'box', SymBox),
            (arakawa, 'numpy', np),
            (ugrid, 'numpy', np),
            (ugrid, 'shapely', env.Proxy(shapely, dict(polygons=geo.shapely_polygons))),
        )
    return make


def conformance_validity(limit=3):
    """The validity sandwich agrees with real GEOS on all quads/triangles with
    integer corners in [0, limit)^2."""
    pts = list(itertools.product(range(limit), repeat=2))
    n = 0
    s = z3.Solver()
    for k in (3, 4):
        for ring in itertools.product(pts, repeat=k):
            v, iv = validity_regions(ring)
            if not (v or iv):
                continue
            real = bool(shapely.is_valid(shapely.Polygon(ring))) if len(set(ring)) >= 1 else False
            if v and not real:
                raise HarnessError(f'validity contract: {ring} classified surely-valid but GEOS says invalid')
            if iv and real:
                raise HarnessError(f'validity contract: {ring} classified surely-invalid but GEOS says valid')
            n += 1
    return n
