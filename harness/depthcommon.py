"""Shared by C12 / C13: datasets with a depth axis, the xarray isnull patch."""
import numpy
import xarray

from symx import env
from symx.core import SymBool, SymReal, is_sym, HarnessError


def pandas_isnull_patch():
    """xarray.core.duck_array_ops.pandas_isnull answers "not null" for unknown
    Python objects; teach it the NaN flag of symbolic reals (forks)."""
    import xarray.core.duck_array_ops as dao
    real = dao.pandas_isnull

    def pandas_isnull(data):
        if isinstance(data, numpy.ndarray) and data.dtype == object and any(is_sym(x) for x in data.flat):
            return env.np_isnan(data)
        return real(data)
    return (dao, 'pandas_isnull', pandas_isnull)


def patches():
    return env.patched(pandas_isnull_patch())


def sym_values(ctx, name, shape, nan=False, flags=None, base=100.0):
    arr = numpy.empty(shape, dtype=object if ctx.symbolic else float)
    for k, idx in enumerate(numpy.ndindex(*shape)):
        if flags is not None:
            arr[idx] = ctx.real(f'{name}{k}', flag=flags(idx), hint=base + k)
        else:
            arr[idx] = ctx.real(f'{name}{k}', nan=nan, hint=base + k)
    return arr
