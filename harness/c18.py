"""C18 - transects cover exactly the part of the path inside the model, in path order.

Symbolic part: which cells the path meets (STRtree contract), for every met
cell the kind of its intersection with the path (line piece, two pieces, a
piece and a touching point, a point only, nothing) and the distance along the
path of both ends of every piece (z3 Reals); all data values.  GEOS
(polygon.intersection, line.project) and PROJ distances are contracts.
Replay part: real polylines over real grids and a mesh with a concave face,
checked with an independent geometric oracle (validated on witnesses only).
"""
import re
import sys
import types

import numpy
import shapely
import xarray
import z3

from symx import builders, env, geo
from symx.core import And, HarnessError, Implies, Not, Or, SymBool, SymReal, same, isnan
from symx.runner import Case, main_run, replay_file

PROP = 'C18'
LENGTH = 1000.0      # length of the (single segment) abstract path in metres


def _cfunits_standin():
    """The optional cfunits import needs the udunits2 system library, absent here (see the property's hook note)."""
    if 'cfunits' not in sys.modules:
        m = types.ModuleType('cfunits')

        class Units:
            def __init__(self, u):
                self.u = u

            def formatted(self):
                return str(self.u)
        m.Units = Units
        sys.modules['cfunits'] = m


# ---- abstract geometry ---------------------------------------------------------------------------

class APoint:
    def __init__(self, dist=None, tag=''):
        self.dist = dist          # distance along the path in metres (symbolic)
        self.tag = tag
        self.coords = [self]

    x = property(lambda self: 0.0)
    y = property(lambda self: 0.0)


class ALine:
    """A piece of the path inside a cell: two ends with distances along the path."""
    def __init__(self, a, b):
        self.ends = (APoint(a, 'a'), APoint(b, 'b'))
        self.coords = [self.ends[0], self.ends[1]]


class AMultiLine:
    def __init__(self, geoms):
        self.geoms = list(geoms)


class ACollection:
    def __init__(self, geoms):
        self.geoms = list(geoms)


class APoly:
    def __init__(self, n, result):
        self.n, self.result = n, result

    def intersection(self, line):
        return self.result


class APath:
    """The transect path: project() gives the normalised distance of a point along it."""
    def __init__(self):
        self.coords = [(0.0, 0.0), (1.0, 0.0)]

    def project(self, point, normalized=False):
        d = point.dist
        return d / LENGTH if normalized else d


class ACrs:
    def __init__(self, at):
        self.at = at

    def project_geometry(self, point, src_crs=None):
        return ('projected', point, self.at)


class AOrigin:
    def distance(self, projected):
        _, point, at = projected
        d = point.dist - at
        return d          # the point lies on the path at or after the vertex it is measured from


def _shapely_proxy():
    def point(arg):
        if isinstance(arg, APoint):
            return arg
        return shapely.Point(arg)
    return env.Proxy(shapely, dict(Point=point, LineString=ALine, MultiLineString=AMultiLine, GeometryCollection=ACollection))


def _fromiter(it, dtype=None, count=-1, **kw):
    items = list(it)
    if any(isinstance(v, SymReal) for row in items for v in (row if isinstance(row, (list, tuple)) else [row])):
        arr = numpy.empty((len(items), 2), dtype=object)
        for k, row in enumerate(items):
            arr[k, 0], arr[k, 1] = row
        return arr
    return numpy.fromiter(items, dtype=dtype, count=len(items) if count == -1 else count, **kw)


def _patches():
    _cfunits_standin()
    import emsarray.transect as T
    return env.patched((T, 'shapely', _shapely_proxy()), (T, 'ORIGIN', AOrigin()),
                       (T, 'numpy', env.Proxy(numpy, dict(fromiter=_fromiter))))


def body_segments(ctx, ncells_hit, nkinds=5, extra='t'):
    _cfunits_standin()
    import emsarray.transect as T
    if not ctx.symbolic:
        return concrete_suite(ctx)
    # a real dataset supplies indexes, depth and data; its geometry is replaced by abstract polygons
    nk = 2
    shape = (2, 3)
    vals = numpy.empty((nk,) + shape + (2,), dtype=object)
    for k, idx in enumerate(numpy.ndindex(*vals.shape)):
        vals[idx] = ctx.real(f'v{k}', nan=True)
    # (extra: the name of the variable's other dimension - 'index' collides with the name ravel gives its linear dimension)
    ds = builders.cf1d(2, 3, data_vars={'temp': (('k', 'y', 'x', extra), vals)})
    ds = ds.assign_coords(zc=(('k',), numpy.array([1.0, 3.0]), {'positive': 'down', 'long_name': 'depth', 'units': 'm'}))
    cv = ds.ems
    N = 6
    # which cells the path meets, and how
    kinds = {}
    polys = numpy.empty(N, dtype=object)
    pieces = {}
    hit_vars = {}
    for n in range(N):
        if n >= ncells_hit + 1:
            hit_vars[n] = SymBool(False)
            polys[n] = APoly(n, ACollection([]))
            continue
        hit_vars[n] = ctx.bool(f'hit{n}')
        kind = [0, 3, 1, 2, 4][int(ctx.int(f'kind{n}', 0, nkinds - 1))]     # 0 line, 1 two lines, 2 line + touching point, 3 point only, 4 empty collection

        def dist(tag):
            d = ctx.real(f'd{n}_{tag}')
            ctx.assume(And(d >= 0, d <= LENGTH))
            return d
        if kind == 0:
            ln = [ALine(dist('a'), dist('b'))]
            res = ln[0]
        elif kind == 1:
            ln = [ALine(dist('a'), dist('b')), ALine(dist('c'), dist('e'))]
            res = AMultiLine(ln)
        elif kind == 2:
            ln = [ALine(dist('a'), dist('b'))]
            res = ACollection([APoint(dist('p')), ln[0]])
        elif kind == 3:
            ln = []
            res = APoint(dist('p'))
        else:
            ln = []
            res = ACollection([])
        pieces[n] = ln
        polys[n] = APoly(n, res)
    # cells do not overlap: two pieces of the path are disjoint (they may share an end point), or - when the path runs
    # along an edge shared by two cells - cover the same stretch
    allp = [p for n in pieces for p in pieces[n]]
    for a in range(len(allp)):
        for b in range(a + 1, len(allp)):
            pa, pb = allp[a], allp[b]
            a0, a1, b0, b1 = pa.ends[0].dist, pa.ends[1].dist, pb.ends[0].dist, pb.ends[1].dist
            amin, amax = (SymReal(z3.If(a0.v <= a1.v, a0.v, a1.v)), SymReal(z3.If(a0.v <= a1.v, a1.v, a0.v)))
            bmin, bmax = (SymReal(z3.If(b0.v <= b1.v, b0.v, b1.v)), SymReal(z3.If(b0.v <= b1.v, b1.v, b0.v)))
            ctx.assume(Or(amax <= bmin, bmax <= amin, And(same(amin, bmin), same(amax, bmax))))
    tree = geo.StubTree(polys, hit_vars, order='reverse')
    cv.__dict__['strtree'] = tree
    cv.__dict__['polygons'] = polys
    tr = T.Transect.__new__(T.Transect)
    tr.dataset, tr.convention, tr.line = ds, cv, APath()
    tr.depth = ds['zc']
    tr.__dict__['points'] = [
        T.TransectPoint(point=APoint(SymReal(z3.RealVal(0))), crs=ACrs(0.0), distance_metres=0, distance_normalised=0),
        T.TransectPoint(point=APoint(SymReal(z3.RealVal(int(LENGTH)))), crs=ACrs(LENGTH), distance_metres=LENGTH, distance_normalised=1),
    ]
    segs = tr.segments
    ctx.note('spatial queries', list(tree.queries))      # how often the index is consulted is not part of the property
    hit = [n for n in range(N) if n <= ncells_hit and tree.queries and bool(hit_vars[n])]
    expect = [(n, p) for n in hit for p in pieces[n]]
    ctx.check(len(segs) == len(expect), 'one segment per line piece inside a met cell; touching points give none')
    # every piece appears exactly once, with its own cell
    used = set()
    for s in segs:
        cands = [k for k, (n, p) in enumerate(expect) if k not in used and s.intersection is p]
        ctx.check(len(cands) == 1, 'each segment is one of the line pieces')
        if not cands:
            return
        k = cands[0]
        used.add(k)
        n, p = expect[k]
        ctx.check(int(s.linear_index) == n and s.polygon is polys[n] and tuple(s.index) == tuple(cv.wind_index(n)),
                  "a segment names the linear index, native index and polygon of its cell")
        a, b = p.ends[0].dist, p.ends[1].dist
        ctx.check(s.start_distance <= s.end_distance, 'start is never after end')
        ctx.check(Or(And(same(s.start_distance, a), same(s.end_distance, b)), And(same(s.start_distance, b), same(s.end_distance, a))),
                  "start / end are the distances of the piece's two ends along the path")
        ctx.check(Or(And(s.start_point is p.ends[0], s.end_point is p.ends[1], a <= b), And(s.start_point is p.ends[1], s.end_point is p.ends[0], b <= a)),
                  'start / end points are ordered like their distances')
    for s1, s2 in zip(segs, segs[1:]):
        ctx.check(Or(s1.start_distance < s2.start_distance, And(same(s1.start_distance, s2.start_distance), s1.end_distance <= s2.end_distance)),
                  'segments are listed by increasing distance from the start')
    # the transect dataset and the prepared data follow the same order
    td = tr.transect_dataset
    ctx.check([int(v) for v in td['linear_index'].values] == [int(s.linear_index) for s in segs], "linear_index lists the segments' cells in path order")
    db = td['distance_bounds'].values if len(segs) else numpy.zeros((0, 2))
    if len(segs):
        prepared = tr.prepare_data_array_for_transect(ds['temp'])
        ctx.check(prepared.dims[-2:] == ('k', prepared.dims[-1]) and prepared.dims[0] == extra, 'depth and index are the last two dimensions, others first')
        pv = prepared.values
        oks = []
        for si, s in enumerate(segs):
            j, i = divmod(int(s.linear_index), 3)
            for k in range(nk):
                for t in range(2):
                    oks.append(same(pv[t, k, si], vals[k, j, i, t]))
        ctx.check(And(*oks), "prepared data holds, for each segment, the values of that segment's cell at every depth")


# ---- real geometry (replay) ----------------------------------------------------------------------

def concrete_suite(ctx):
    """Real polylines over real datasets with an independent geometric oracle."""
    _cfunits_standin()
    import emsarray.transect as T
    datasets = []
    lat = numpy.array([10.0, 11.0, 12.0])
    lon = numpy.array([100.0, 101.0, 102.0, 103.0])
    data = numpy.arange(2 * 3 * 4, dtype=float).reshape(2, 3, 4)
    data[1, 0, 0] = numpy.nan
    ds1 = builders.cf1d(3, 4, lat=lat, lon=lon, data_vars={'temp': (('k', 'y', 'x'), data)})
    ds1 = ds1.assign_coords(zc=(('k',), numpy.array([1.0, 3.0]), {'positive': 'down', 'long_name': 'depth', 'units': 'm'}))
    lines1 = [
        [(99.7, 10.2), (103.3, 11.9)],                         # starts and ends outside
        [(100.2, 10.2), (102.9, 10.4), (102.2, 11.8)],          # several vertices, inside
        [(103.4, 12.4), (99.6, 9.6)],                          # reversed direction, through cell corners
        [(100.5, 9.0), (100.5, 13.0)],                         # along a shared cell edge
        [(99.0, 10.5), (104.0, 10.5)],                         # along a cell boundary row
        [(90.0, 0.0), (95.0, 1.0)],                            # misses the model
        [(101.0, 10.0), (99.0, 12.0)],                         # touches corners
        [(99.7, 10.2), (103.3, 11.9)],                         # entirely inside the model, many cells
        [(100.2, 12.3), (102.8, 9.8)],                         # entirely inside, other direction
    ]
    datasets.append((ds1, 'temp', lines1))
    # a mesh with a concave (L-shaped) face, a hole between faces, and a triangle
    nodes = [(0, 0), (4, 0), (4, 1), (1, 1), (1, 4), (0, 4), (2, 2), (4, 2), (4, 4), (2, 4), (6, 0), (6, 1)]
    faces = [[0, 1, 2, 3, 4, 5], [6, 7, 8, 9], [1, 10, 11, 2]]
    dm = builders.ugrid((nodes, faces), fill='nan', data_vars={'temp': (('k', 'nface'), numpy.arange(6.0).reshape(2, 3))})
    dm = dm.assign_coords(zc=(('k',), numpy.array([1.0, 3.0]), {'positive': 'down', 'long_name': 'depth', 'units': 'm'}))
    linesm = [
        [(-1, 0.5), (7, 0.5)],                                 # through the L and the quad
        [(0.5, 5), (0.5, -1)],                                 # down the L's vertical arm
        [(-1, 3), (5, 3)],                                     # leaves the L, crosses the gap, enters the square
        [(0.5, 3.5), (3.5, 0.5)],                              # leaves and re-enters the concave cell
        [(3, 3), (3, 3.5)],                                    # entirely inside one cell
    ]
    datasets.append((dm, 'temp', linesm))
    # the same grid with its latitude axis stored from north to south
    ds1d = builders.cf1d(3, 4, lat=lat[::-1].copy(), lon=lon, data_vars={'temp': (('k', 'y', 'x'), data[:, ::-1, :].copy())})
    ds1d = ds1d.assign_coords(zc=(('k',), numpy.array([1.0, 3.0]), {'positive': 'down', 'long_name': 'depth', 'units': 'm'}))
    datasets.append((ds1d, 'temp', lines1[:4] + lines1[7:]))
    # paths with many vertices (11, 12, 21, 41) zig-zagging over a wider grid; every leg crosses cells of its own
    lon12 = 100.0 + numpy.arange(12.0)
    data12 = numpy.arange(2 * 3 * 12, dtype=float).reshape(2, 3, 12)
    ds12 = builders.cf1d(3, 12, lat=lat, lon=lon12, data_vars={'temp': (('k', 'y', 'x'), data12)})
    ds12 = ds12.assign_coords(zc=(('k',), numpy.array([1.0, 3.0]), {'positive': 'down', 'long_name': 'depth', 'units': 'm'}))
    lines12 = []
    for nv in (11, 12, 21, 41):
        xs = numpy.linspace(99.8, 111.3, nv)
        lines12.append([(float(x), 9.83 + 2.41 * (k % 2) + 0.013 * k) for k, x in enumerate(xs)])
    lines12.append([(float(x), 10.2 + 0.07 * k) for k, x in enumerate(numpy.linspace(111.2, 99.9, 23))])
    datasets.append((ds12, 'temp', lines12))
    # paths that stay in the cell with linear index 0 (or only clip its corner)
    lines1.extend([[(99.8, 10.1), (100.3, 10.3)], [(99.4, 9.9), (99.9, 9.4)], [(99.7, 10.2), (100.2, 10.4), (99.8, 9.8)]])
    linesm.extend([[(0.2, 0.2), (0.8, 0.8)], [(-0.5, 0.5), (0.5, -0.5)]])
    datasets[2][2].extend([[(99.8, 12.1), (100.3, 12.3)], [(99.4, 12.1), (99.9, 12.6)]])
    # a grid of 0.001 degree cells at 150 E on the equator (where the projection offset of the known finding
    # vanishes): pieces a thousandth of a degree long are pieces all the same
    latf = -0.001 + 0.001 * numpy.arange(3.0)
    lonf = 150.0 + 0.001 * numpy.arange(20.0)
    dsf = builders.cf1d(3, 20, lat=latf, lon=lonf, data_vars={'temp': (('k', 'y', 'x'), numpy.arange(2 * 3 * 20, dtype=float).reshape(2, 3, 20))})
    dsf = dsf.assign_coords(zc=(('k',), numpy.array([1.0, 3.0]), {'positive': 'down', 'long_name': 'depth', 'units': 'm'}))
    datasets.append((dsf, 'temp', [[(149.9997, -0.0004), (150.0193, -0.0004)],
                                   [(149.9997, -0.0008), (150.0193, -0.0006)],
                                   [(150.0002, -0.0013), (150.0101, 0.0008), (150.0004, -0.0001)],
                                   [(149.9994, -0.0014), (149.9996, -0.0016)],
                                   [(150.0082, -0.0012), (150.0082, 0.0013)],
                                   [(150.00049, -0.0012), (150.00051, -0.00051)]]))
    deferred = []      # reported after everything else has been checked
    from harness import geomref as _geomref
    for ds, var, lines in datasets:
        cv = ds.ems
        _geomref.check(ctx, ds, cv)
        polys = cv.polygons
        for coords in lines:
            line = shapely.LineString(coords)
            tr = T.Transect(ds, line, depth='zc')
            segs = tr.segments
            inside = shapely.unary_union([p for p in polys if p is not None]).intersection(line)
            total = sum(s.intersection.length for s in segs)
            # cells do not overlap, but a path running exactly along a shared edge is inside both neighbours
            on_edges = sum(polys[a].intersection(polys[b]).intersection(line).length
                           for a in range(len(polys)) for b in range(a + 1, len(polys)) if polys[a] is not None and polys[b] is not None)
            ctx.check(abs(total - inside.length - on_edges) <= 1e-9 * max(1.0, inside.length),
                      'segment lengths add up to the length of the path inside the model')
            for s in segs:
                n = int(s.linear_index)
                ctx.check(polys[n] is not None and s.polygon is polys[n] and tuple(s.index) == tuple(cv.wind_index(n)),
                          "a segment names the linear index, native index and polygon of its cell")
                ctx.check(s.intersection.difference(polys[n].buffer(1e-9)).length <= 1e-9, "each segment lies within its cell's polygon")
                ctx.check(s.intersection.geom_type == 'LineString' and s.intersection.length > 0, 'segments are line pieces, never points')
                ctx.check(s.start_distance <= s.end_distance + 1e-6, 'start is never after end')
                ctx.check(line.project(s.start_point) <= line.project(s.end_point) + 1e-12, 'start / end points are ordered along the path')
            # distances in metres, as measured by the library itself
            if segs and abs(inside.length - line.length) <= 1e-12 and on_edges <= 1e-12:
                total_m = tr.points[-1].distance_metres
                covered = sum(s.end_distance - s.start_distance for s in segs)
                # (paths of a few hundred kilometres: the projection offset of the known finding - up to 24 km - stays
                #  within these margins; on shorter paths it swamps them and only the exact statement below is made)
                if total_m >= 3.0e5:
                    ctx.check(abs(covered - total_m) <= 0.02 * total_m and abs(segs[0].start_distance) <= 0.05 * total_m
                              and abs(segs[-1].end_distance - total_m) <= 0.05 * total_m,
                              'metre distances: the segments span the path from its start to its end (within 2-5 percent)')
                if not (abs(covered - total_m) <= 1e-6 * total_m and abs(segs[0].start_distance) <= 1e-6 * total_m):
                    deferred.append('metre distances: a path inside the model starts at distance 0 and segment lengths add up exactly')
            keys = [(s.start_distance, s.end_distance) for s in segs]
            ctx.check(keys == sorted(keys), 'segments are listed by increasing distance from the start')
            proj = [line.project(s.start_point) for s in segs]
            ctx.check(all(a <= b + 1e-9 for a, b in zip(proj, proj[1:])), 'segments follow the path geometrically')
            td = tr.transect_dataset
            ctx.check([int(v) for v in td['linear_index'].values] == [int(s.linear_index) for s in segs], "linear_index lists the segments' cells in path order")
            if segs:
                prepared = tr.prepare_data_array_for_transect(ds[var])
                flat = cv.ravel(ds[var]).values
                ok = prepared.dims[0] == 'k' and prepared.shape == (2, len(segs))
                ok = ok and all(same(prepared.values[k, si], flat[k, int(s.linear_index)]) for si, s in enumerate(segs) for k in range(2))
                ctx.check(ok, "prepared data holds, for each segment, the values of that segment's cell at every depth")
            else:
                ctx.check(len(td['linear_index']) == 0, 'a path that misses the model gives an empty transect')
    # metre distances of a bent path at high latitude, where a degree of longitude is half a degree of latitude: each
    # segment far from the path's vertices (the known projection offset of this environment acts near them, see
    # DESIGN section 6) is as long as the geodesic length of its piece of the path, within 6 percent
    import pyproj
    geod = pyproj.Geod(ellps='WGS84')
    lat60, lon60 = numpy.arange(58.0, 67.0), numpy.arange(100.0, 114.0)
    ds60 = builders.cf1d(len(lat60), len(lon60), lat=lat60, lon=lon60,
                         data_vars={'temp': (('k', 'y', 'x'), numpy.zeros((2, len(lat60), len(lon60))))})
    ds60 = ds60.assign_coords(zc=(('k',), numpy.array([1.0, 3.0]), {'positive': 'down', 'long_name': 'depth', 'units': 'm'}))
    bent = shapely.LineString([(100.3, 59.4), (112.6, 59.7), (112.4, 65.6)])
    tr60 = T.Transect(ds60, bent, depth='zc')
    far, oks = 0, []
    for sg in tr60.segments:
        mid = sg.intersection.interpolate(0.5, normalized=True)
        near = min(geod.inv(mid.x, mid.y, vx, vy)[2] for vx, vy in bent.coords)
        if near < 150e3:
            continue
        far += 1
        true_len = geod.geometry_length(sg.intersection)
        got_len = sg.end_distance - sg.start_distance
        oks.append(abs(got_len - true_len) <= 0.06 * true_len)
    ctx.check(far >= 6, 'harness: enough segments far from the vertices of the bent path')
    ctx.check(all(oks), 'metre distances: away from the path vertices every segment is as long as its piece of the path (geodesic, within 6 percent)')
    # variables stored in other dimension orders and memory layouts: (x, y, depth), and (depth, y, x) held column-major
    rdata = numpy.arange(4 * 3 * 2, dtype=float).reshape(4, 3, 2) + 300
    fdata = numpy.asfortranarray(numpy.arange(2 * 3 * 4, dtype=float).reshape(2, 3, 4) + 700)
    ds5 = ds1.assign(trev=(('x', 'y', 'k'), rdata), tfort=(('k', 'y', 'x'), fdata))
    tr5 = T.Transect(ds5, shapely.LineString(lines1[1]), depth='zc')
    seg5 = tr5.segments
    p_rev, p_fort = tr5.prepare_data_array_for_transect(ds5['trev']), tr5.prepare_data_array_for_transect(ds5['tfort'])
    ctx.check(p_rev.dims[0] == 'k' and p_rev.shape == (2, len(seg5)) and all(
        same(p_rev.values[k, si], rdata[int(sg.linear_index) % 4, int(sg.linear_index) // 4, k]) for si, sg in enumerate(seg5) for k in range(2)),
        "prepared data holds, for each segment, the values of that segment's cell at every depth (variable stored (x, y, depth))")
    ctx.check(p_fort.shape == (2, len(seg5)) and all(
        same(p_fort.values[k, si], fdata[k, int(sg.linear_index) // 4, int(sg.linear_index) % 4]) for si, sg in enumerate(seg5) for k in range(2)),
        "prepared data holds, for each segment, the values of that segment's cell at every depth (column-major array)")
    # a curvilinear grid whose stored bounds have their horizontal dimensions the other way round (ignored, cells derived)
    jj, ii = numpy.meshgrid(numpy.arange(3.0), numpy.arange(4.0), indexing='ij')
    clat, clon = 10.0 + jj + 0.1 * ii, 100.0 + ii - 0.1 * jj
    off = [(-1, -1), (1, -1), (1, 1), (-1, 1)]
    blon = numpy.stack([clon + a * 0.5 - b * 0.05 for a, b in off], axis=-1).transpose(1, 0, 2).copy()
    blat = numpy.stack([clat + a * 0.05 + b * 0.5 for a, b in off], axis=-1).transpose(1, 0, 2).copy()
    ds6 = builders.cf2d(3, 4, lat=clat, lon=clon, lat_bounds=blat, lon_bounds=blon, bounds_dims=('x', 'y', 'four'),
                        data_vars={'temp': (('k', 'y', 'x'), numpy.arange(24.0).reshape(2, 3, 4))})
    ds6 = ds6.assign_coords(zc=(('k',), numpy.array([1.0, 3.0]), {'positive': 'down', 'long_name': 'depth', 'units': 'm'}))
    ref6 = _geomref.check(ctx, ds6, ds6.ems)
    tr6 = T.Transect(ds6, shapely.LineString([(99.8, 10.2), (103.1, 12.1)]), depth='zc')
    p6 = tr6.prepare_data_array_for_transect(ds6['temp'])
    for si, sg in enumerate(tr6.segments):
        n = int(sg.linear_index)
        mid = sg.intersection.interpolate(0.5, normalized=True)
        ctx.check(ref6[n] is not None and ref6[n].buffer(1e-9).contains(mid) and float(p6.values[0, si]) == float(n),
                  "a segment names the linear index, native index and polygon of its cell")
    # a long path through a fine grid: more than a thousand cells, each named once, in order
    nlong = 1200
    dsl = builders.cf1d(2, nlong, lat=numpy.array([10.0, 10.5]), lon=100.0 + numpy.arange(nlong) * 0.01,
                        data_vars={'temp': (('k', 'y', 'x'), numpy.arange(2 * 2 * nlong, dtype=float).reshape(2, 2, nlong))})
    dsl = dsl.assign_coords(zc=(('k',), numpy.array([1.0, 3.0]), {'positive': 'down', 'long_name': 'depth', 'units': 'm'}))
    trl = T.Transect(dsl, shapely.LineString([(99.9, 10.1), (100.0 + nlong * 0.01 + 0.1, 10.1)]), depth='zc')
    segl = trl.segments
    pl = dsl.ems.polygons
    ctx.check([int(sg.linear_index) for sg in segl] == list(range(nlong)), 'segments are listed by increasing distance from the start (a path through 1200 cells)')
    ctx.check(all(sg.polygon is pl[int(sg.linear_index)] for sg in segl), "a segment names the linear index, native index and polygon of its cell")
    prep = trl.prepare_data_array_for_transect(dsl['temp'])
    ctx.check(prep.shape == (2, len(segl)) and bool((prep.values[0] == numpy.arange(nlong)[:len(segl)]).all()),
              "prepared data holds, for each segment, the values of that segment's cell at every depth")
    # a path whose vertices carry heights (a LineString with z values): the transect is about where the path runs on the map
    flat_line = shapely.LineString(lines1[1])
    high_line = shapely.LineString([(x, y, z) for (x, y), z in zip(lines1[1], (0.0, 5000.0, -300.0))])
    sa, sb = T.Transect(ds1, flat_line, depth='zc').segments, T.Transect(ds1, high_line, depth='zc').segments
    ctx.check([int(s.linear_index) for s in sa] == [int(s.linear_index) for s in sb]
              and all(abs(a.start_distance - b.start_distance) <= 1e-6 * max(1.0, abs(a.start_distance)) and
                      abs(a.end_distance - b.end_distance) <= 1e-6 * max(1.0, abs(a.end_distance)) for a, b in zip(sa, sb)),
              'a path with z values gives the segments of the same path without them')
    # a transect along a depth coordinate that is not the dataset's default one
    wdata = numpy.arange(3 * 3 * 4, dtype=float).reshape(3, 3, 4) + 500
    ds2 = ds1.assign(w=(('kw', 'y', 'x'), wdata)).assign_coords(
        zw=(('kw',), numpy.array([0.0, 2.0, 4.0]), {'positive': 'down', 'long_name': 'depth of layer faces', 'units': 'm'}))
    tr = T.Transect(ds2, shapely.LineString(lines1[1]), depth='zw')
    segs = tr.segments
    prepared = tr.prepare_data_array_for_transect(ds2['w'])
    flat = ds2.ems.ravel(ds2['w']).values
    ctx.check(prepared.dims[0] == 'kw' and prepared.shape == (3, len(segs))
              and all(same(prepared.values[k, si], flat[k, int(s.linear_index)]) for si, s in enumerate(segs) for k in range(3)),
              "prepared data holds, for each segment, the values of that segment's cell at every depth (transect built on a second depth coordinate)")
    # a variable whose surface dimensions are stored the other way round (depth, x, y)
    tdata = numpy.arange(2 * 4 * 3, dtype=float).reshape(2, 4, 3) + 900
    ds3 = ds1.assign(tflip=(('k', 'x', 'y'), tdata))
    tr = T.Transect(ds3, shapely.LineString(lines1[1]), depth='zc')
    segs = tr.segments
    prepared = tr.prepare_data_array_for_transect(ds3['tflip'])
    ctx.check(prepared.dims[0] == 'k' and prepared.shape == (2, len(segs)) and all(
        same(prepared.values[k, si], tdata[k, int(s.linear_index) % 4, int(s.linear_index) // 4]) for si, s in enumerate(segs) for k in range(2)),
        "prepared data holds, for each segment, the values of that segment's cell at every depth (surface dimensions stored x, y)")
    # a grid with a missing cell before a self-intersecting one: the path is cut into the cells that really exist
    from harness import geomref
    jj, ii = numpy.meshgrid(numpy.arange(2, dtype=float), numpy.arange(4, dtype=float), indexing='ij')
    lat2, lon2 = 10.0 + jj, 100.0 + ii
    lonb = numpy.stack([lon2 - .5, lon2 + .5, lon2 + .5, lon2 - .5], axis=-1)
    latb = numpy.stack([lat2 - .5, lat2 - .5, lat2 + .5, lat2 + .5], axis=-1)
    lonb[0, 1] = numpy.nan
    latb[0, 1] = numpy.nan
    lonb[1, 2] = lonb[1, 2][[0, 2, 1, 3]]
    latb[1, 2] = latb[1, 2][[0, 2, 1, 3]]
    ds4 = builders.cf2d(2, 4, lat=lat2, lon=lon2, lat_bounds=latb, lon_bounds=lonb,
                        data_vars={'temp': (('k', 'y', 'x'), numpy.arange(16.0).reshape(2, 2, 4))})
    ds4 = ds4.assign_coords(zc=(('k',), numpy.array([1.0, 3.0]), {'positive': 'down', 'long_name': 'depth', 'units': 'm'}))
    ref = geomref.check(ctx, ds4, ds4.ems)
    line = shapely.LineString([(99.6, 11.1), (101.4, 10.9)])           # along the second row: cells 4 and 5, short of the twisted cell 6
    tr = T.Transect(ds4, line, depth='zc')
    inside = shapely.unary_union([p for p in ref if p is not None]).intersection(line)
    ctx.check(abs(sum(s.intersection.length for s in tr.segments) - inside.length) <= 1e-9 and [int(s.linear_index) for s in tr.segments] == [4, 5],
              'segment lengths add up to the length of the path inside the model (grid with a missing and a twisted cell)')
    for label in deferred[:1]:
        ctx.check(False, label)


def body_real(ctx):
    return concrete_suite(ctx)


def cases(tier):
    q = tier == 'quick'
    for n, kinds in ([(0, 5), (1, 2)] if q else [(0, 5), (1, 3), (2, 2)]):
        yield Case(f'segments:cells{n + 1}:kinds{kinds}', body_segments, dict(ncells_hit=n, nkinds=kinds), patches=_patches,
                   max_paths=400000, split=64, validate=False)
    yield Case('segments:cells1:kinds3:extra-dimension-called-index', body_segments, dict(ncells_hit=0, nkinds=3, extra='index'),
               patches=_patches, max_paths=400000, split=64, validate=False)
    yield Case('real-geometry', body_real, max_paths=5, validate=True)


def functions():
    _cfunits_standin()
    import emsarray.transect as T
    return [T.Transect.segments.func, T.Transect._intersect_polygon, T.Transect.distance_along_line, T.Transect.transect_dataset.func,
            T.Transect.prepare_data_array_for_transect]


def run(tier, seed=0, replay=None, procs=None, only=None):
    if replay:
        return replay_file(replay, list(cases('thorough')) + list(cases('quick')))
    cs = list(cases(tier))
    if only:
        cs = [c for c in cs if re.search(only, c.name)]
    q = tier == 'quick'
    return main_run(
        PROP, tier, cs, functions=functions(), seed=seed, procs=procs,
        bounds=dict(
            abstract=f'a straight path meeting up to {2 if q else 3} cells; per cell the intersection is one piece, two pieces, a piece plus a '
                     'touching point, a point only or nothing; the along-path distance of every piece end is any Real in [0, L]; '
                     'hits reported in non-sorted order; pieces are pairwise disjoint or identical (cells do not overlap)',
            real='7 polylines over a 3x4 CF 1-D grid and 5 over a mesh with an L-shaped (concave) face, a gap and a quad: start / end '
                 'inside / outside, several vertices, through corners, along shared edges, leaving and re-entering a cell, missing the model',
            outside='that a piece lies within its polygon and that lengths add up are facts about GEOS / PROJ: checked on the real '
                    'polylines only (witnesses), not for all inputs; multi-vertex paths in the abstract part'),
        stubs=['polygon.intersection(path) -> an abstract LineString / MultiLineString / GeometryCollection / Point chosen by the solver',
               'path.project(point, normalized) and crs.project_geometry(...).distance(origin) -> the symbolic along-path distance of the point',
               'STRtree.query -> the symbolic hit set', 'cfunits -> stand-in module (needs a system library that is absent; only used for axis labels)'],
        assumptions=['GEOS intersection returns pieces of the path inside the polygon; PROJ distances are monotone along the path'],
    )
