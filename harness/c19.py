"""C19 - plot artists pair every value with its own cell.

Symbolic: data values (Real + NaN flag), hole pattern, coordinates.  The real
make_poly_collection / make_quiver / polygons_to_collection run on the symbolic
polygon array; the matplotlib constructors (PolyCollection, Quiver) record their
arguments.  In replay real matplotlib artists are built and inspected.
"""
import re

import numpy

from symx import env, geo
from symx.core import And, Iff, Not, Or, same, close, isnan, ite, SymReal
from symx.runner import Case, main_run, replay_file
from harness import pipeline

PROP = 'C19'


class RecCollection:
    def __init__(self, verts=None, closed=True, **kwargs):
        self.verts, self.closed, self.kwargs = list(verts), closed, kwargs


class RecQuiver:
    def __init__(self, axes, *args, **kwargs):
        self.axes, self.args, self.kwargs = axes, args, kwargs


def _patches(valid='all'):
    base = pipeline.patches(valid)

    def make():
        import contextlib
        import emsarray.plot as plot
        import matplotlib.quiver as mq

        @contextlib.contextmanager
        def both():
            with base(), env.patched((plot, 'PolyCollection', RecCollection), (mq, 'Quiver', RecQuiver)):
                yield
        return both()
    return make


def _short_lived_plots():
    """Other datasets plotted and dropped earlier in the same process (real artists, concrete data)."""
    import gc
    from symx import builders
    for rep in range(2):
        for shape in ((2, 3), (3, 2), (2, 4)):
            d = builders.cf1d(*shape, lat=numpy.arange(shape[0]) * 1.5 + rep, lon=numpy.arange(shape[1]) * 2.5 - rep,
                              data_vars={'temp': (('y', 'x'), numpy.zeros(shape))})
            try:
                d.ems.make_poly_collection('temp')
            except Exception:
                pass
            del d
            gc.collect()


def body(ctx, conv, shape, bounds, layout, nan_cells=None, mesh_opts=None, mode='name', coord_dtype=None, lon_transposed=False, after_others=False, explicit=False):
    import xarray
    if after_others and not ctx.symbolic:
        _short_lived_plots()
    probe = {'cf1d': ('y', 'x'), 'cf2d': ('y', 'x'), 'shoc_simple': ('j', 'i'), 'shoc_standard': ('j_centre', 'i_centre'), 'ugrid': ('nface',)}[conv]
    gshape = shape if conv != 'ugrid' else (len(pipeline.builders.MESHES[shape][1]),)
    ddims = list(probe) if layout == 'plain' else list(probe)[::-1]
    sizes = dict(zip(probe, gshape))
    dshape = tuple(sizes[d] for d in ddims)

    def sym(name, base):
        a = numpy.empty(dshape, dtype=object if ctx.symbolic else float)
        for k, idx in enumerate(numpy.ndindex(*dshape)):
            a[idx] = ctx.real(f'{name}{k}', nan=True, hint=base + k)
        return a
    temp, u, v = sym('t', 10.0), sym('u', 100.0), sym('v', 200.0)
    data = {'temp': (tuple(ddims), temp), 'u': (tuple(ddims), u), 'v': (tuple(ddims), v),
            'deep': (('k',) + tuple(ddims), numpy.zeros((2,) + dshape)),
            # a leftover dimension is a leftover dimension, also when a single layer / time step is left in it
            'single': (tuple(ddims) + ('one',), numpy.zeros(dshape + (1,)))}
    # a variable on another grid of the same dataset (more elements than there are faces)
    other_grid = None
    if conv == 'shoc_standard':
        other_grid = ('j_node', 'i_node'), (gshape[0] + 1, gshape[1] + 1)
    elif conv == 'ugrid':
        other_grid = ('nnode',), (len(pipeline.builders.MESHES[shape][0]),)
    if other_grid is not None:
        data['elsewhere'] = (other_grid[0], numpy.arange(int(numpy.prod(other_grid[1])), dtype=float).reshape(other_grid[1]))
    pipeline.EXPLICIT_NAMES = explicit
    try:
        P = pipeline.build(ctx, conv, shape, bounds=bounds, nan_cells=nan_cells, data=data, mesh_opts=mesh_opts, coord_dtype=coord_dtype)
    finally:
        pipeline.EXPLICIT_NAMES = False
    cv, ds = P.convention, P.ds
    if lon_transposed:
        # the longitude variable stored (x, y) next to a latitude stored (y, x): the grid is (y, x) all the same
        lonv = ds['lon']
        was_coord = 'lon' in ds.coords
        ds = ds.drop_vars('lon').assign(lon=(lonv.dims[::-1], lonv.values.T, dict(lonv.attrs)))
        ds = ds.set_coords('lon') if was_coord else ds
        P.ds = ds
        cv = type(cv)(ds)
    polygons = cv.polygons
    N = P.ncells
    present = [n for n in range(N) if polygons[n] is not None]
    ctx.note('config', dict(conv=conv, shape=str(shape), layout=layout, present=present, mode=mode))
    # which cells have geometry, and what it is, comes from the dataset (reference written from the convention
    # documents), not from the code under test
    from harness.c06 import invalid_cond
    for n in range(N):
        has = polygons[n] is not None
        label = 'the cells with geometry are exactly the complete, valid cells of the dataset'
        if ctx.symbolic:
            # (as in C06: validity is decided from the symbolic corners; a complete cell may be absent only when invalid)
            ctx.check(Not(P.hole(n)) if has else True, label)
            if not has and not ctx.decide(P.hole(n)):
                ctx.check(invalid_cond(P, n), label)
        else:
            ctx.check(has == ((not bool(P.hole(n))) and P.valid_ref(ctx, n)), label)
        if polygons[n] is not None:
            ctx.check(pipeline.ring_matches(geo.poly_coords(polygons[n]), P.corners(n)), "a cell's outline is built from its own coordinates")
    if not present:
        ctx.check(True, 'a dataset without a single cell geometry is outside the claim')
        return

    def value_at(arr, n):
        sel = dict(zip(probe, numpy.unravel_index(n, gshape)))
        return arr[tuple(int(sel[d]) for d in ddims)]

    def inspect(coll):
        if ctx.symbolic:
            return [[tuple(p) for p in numpy.asarray(vv, dtype=object)] for vv in coll.verts], coll.kwargs.get('array'), coll.kwargs.get('clim'), coll.kwargs
        verts = [[tuple(p) for p in path.vertices] for path in coll.get_paths()]
        return verts, (None if coll.get_array() is None else numpy.asarray(coll.get_array())), coll.get_clim(), {}

    if mode in ('name', 'array'):
        # (array: values derived from a dataset variable - same name, same dimensions, other numbers; what is plotted
        # is the array that was handed over)
        scale = 1 if mode == 'name' else 2
        arg = 'temp' if mode == 'name' else ds['temp'] * 2 + 1
        if mode == 'array':
            ctx.check(arg.name == 'temp' and arg.dims == ds['temp'].dims, 'harness: the derived array keeps name and dimensions')
            _plain = value_at

            def value_at(arr, n, _plain=_plain):
                return _plain(arr, n) * 2 + 1
        coll = cv.make_poly_collection(arg)
        verts, array, clim, kw = inspect(coll)
        ctx.check(len(verts) == len(present), 'one patch per cell that has geometry, none for holes')
        for k, n in enumerate(present):
            ring = verts[k]
            ref = geo.poly_coords(polygons[n])
            ctx.check(pipeline.ring_matches(ring[:-1] if len(ring) == len(ref) + 1 else ring, ref), "patch k is the outline of the k-th cell with geometry, in linear order")
        ctx.check(array is not None and len(array) == len(present), 'one value per patch')
        ctx.check(And(*[same(array[k], value_at(temp, n)) for k, n in enumerate(present)]), "patch k carries that cell's own value")
        # default colour limits span exactly the plotted values
        vals = [value_at(temp, n) for n in present]
        if present:
            lo, hi = clim
            finite = [Not(isnan(x)) for x in vals]
            ctx.check(And(*[Or(isnan(x), And(lo <= x, x <= hi)) for x in vals]), 'default colour limits contain every plotted value')
            ctx.check(Or(And(*[isnan(x) for x in vals]), Or(*[And(Not(isnan(x)), close(x, lo)) for x in vals])), 'lower colour limit is a plotted value')
            ctx.check(Or(And(*[isnan(x) for x in vals]), Or(*[And(Not(isnan(x)), close(x, hi)) for x in vals])), 'upper colour limit is a plotted value')
        if ctx.symbolic:
            ctx.check(kw.get('transform') is cv.data_crs and coll.closed is False, 'default transform is the data CRS')
    elif mode == 'overrides':
        if ctx.symbolic:
            marker = object()
        else:
            import matplotlib.transforms
            marker = matplotlib.transforms.Affine2D().scale(2.0)
        arr = numpy.arange(len(present), dtype=float)
        coll = cv.make_poly_collection(array=arr, clim=(-5.0, 5.0), transform=marker)
        verts, array, clim, kw = inspect(coll)
        ctx.check(len(verts) == len(present), 'one patch per cell that has geometry')
        ctx.check(array is not None and list(array) == list(arr) and tuple(clim) == (-5.0, 5.0), 'user supplied array and clim pass through')
        if ctx.symbolic:
            ctx.check(kw.get('transform') is marker, 'user supplied transform passes through')
        else:
            ctx.check(coll.get_transform() is marker, 'user supplied transform passes through')
        # limits given by the caller are the limits, also when one of them is zero
        for given in ((0.0, 4.0), (-3.0, 0.0), (0, 0.5)):
            c2 = cv.make_poly_collection('temp', clim=given)
            _, _, clim2, _ = inspect(c2)
            ctx.check(And(same(clim2[0], float(given[0])), same(clim2[1], float(given[1]))), 'user supplied colour limits pass through, zero included')
        try:
            cv.make_poly_collection('temp', array=arr)
            ctx.check(False, 'data_array together with array is refused with TypeError')
        except TypeError:
            ctx.check(True, 'data_array together with array is refused with TypeError')
        try:
            cv.make_poly_collection('deep')
            ctx.check(False, 'a variable with leftover dimensions is refused with ValueError')
        except ValueError:
            ctx.check(True, 'a variable with leftover dimensions is refused with ValueError')
        try:
            cv.make_poly_collection('single')
            ctx.check(False, 'a variable with a leftover dimension of length one is refused with ValueError')
        except ValueError:
            ctx.check(True, 'a variable with a leftover dimension of length one is refused with ValueError')
        if other_grid is not None:
            # its values belong to nodes, not to cells: painting them on the cell polygons would pair values with the
            # wrong places, so anything but a refusal is wrong (which exception is raised is not prescribed)
            try:
                cv.make_poly_collection('elsewhere')
                refused = False
            except Exception:
                refused = True
            ctx.check(refused, 'a variable that is not defined on the cells is refused instead of being painted on them')
    elif mode == 'quiver':
        if P.centre is None and ctx.symbolic:
            ctx.check(True, 'face centres from centroids are checked in replay only')
            return
        if ctx.symbolic:
            tmark = object()
            q = cv.make_quiver('axes', 'u', ds['v'], transform=tmark)
            x, y, uu, vv = q.args
            ctx.check(q.kwargs.get('transform') is tmark, 'user supplied transform passes through to the quiver')
            q0 = cv.make_quiver('axes', 'u', ds['v'])
            ctx.check(q0.kwargs.get('transform') is cv.data_crs, 'default quiver transform is the data CRS')
        else:
            import matplotlib
            import matplotlib.pyplot as plt
            fig = plt.figure()
            ax = fig.add_subplot()
            q = cv.make_quiver(ax, 'u', ds['v'], transform=ax.transData)
            x, y, uu, vv = q.X, q.Y, q.U, q.V
            ctx.check(q.get_transform() is ax.transData or q.transform is ax.transData, 'user supplied transform passes through to the quiver')
            plt.close(fig)
        ctx.check(len(x) == N and len(uu) == N, 'one arrow slot per cell in linear order')
        oks = []
        for n in range(N):
            if P.centre is not None:
                cx, cy = P.centre(n)
                oks.append(And(same(x[n], cx), same(y[n], cy)))
            if ctx.symbolic:
                oks.append(And(same(uu[n], value_at(u, n)), same(vv[n], value_at(v, n))))
            else:
                # matplotlib masks invalid components
                a, b = value_at(u, n), value_at(v, n)
                ga = float(numpy.ma.filled(uu, numpy.nan)[n]) if not numpy.ma.is_masked(uu[n]) else float('nan')
                gb = float(numpy.ma.filled(vv, numpy.nan)[n]) if not numpy.ma.is_masked(vv[n]) else float('nan')
                oks.append((numpy.isnan(ga) or numpy.isnan(a) or ga == a) and (numpy.isnan(gb) or numpy.isnan(b) or gb == b) and
                           (numpy.isnan(a) or numpy.isnan(b) or (ga == a and gb == b)))
        ctx.check(And(*oks), 'arrows sit at the face centres with the components of the same cell')
        try:
            cv.make_quiver('axes' if ctx.symbolic else None, 'deep', 'deep')
            ctx.check(False, 'vector components with leftover dimensions are refused')
        except ValueError:
            ctx.check(True, 'vector components with leftover dimensions are refused')
        except Exception:
            ctx.check(not ctx.symbolic, 'vector components with leftover dimensions are refused')
        try:
            cv.make_quiver('axes' if ctx.symbolic else None, 'single', 'single')
            ctx.check(False, 'vector components with a leftover dimension of length one are refused')
        except ValueError:
            ctx.check(True, 'vector components with a leftover dimension of length one are refused')
        except Exception:
            ctx.check(not ctx.symbolic, 'vector components with a leftover dimension of length one are refused')


def body_animate(ctx, conv, offset=0.0):
    """The animated collection (plot.animate_on_figure) shares the guarantees: one patch per cell with geometry, each
    frame pairs every patch with its own cell's value, default colour limits span exactly the plotted values of all
    frames.  Concrete data (real matplotlib artists are needed), with out-of-range values stored in the hole cells."""
    import xarray
    from matplotlib.figure import Figure
    from emsarray import plot
    from symx import builders
    ny, nx, nt = 2, 3, 3
    jj, ii = numpy.meshgrid(numpy.arange(ny, dtype=float), numpy.arange(nx, dtype=float), indexing='ij')
    lat, lon = 10.0 + jj, 100.0 + ii
    lonb = numpy.stack([lon - .5, lon + .5, lon + .5, lon - .5], axis=-1)
    latb = numpy.stack([lat - .5, lat - .5, lat + .5, lat + .5], axis=-1)
    holes = [(0, 1), (1, 2)]
    for (j, i) in holes:
        lonb[j, i] = numpy.nan
        latb[j, i] = numpy.nan
    # (offset: values the size of epoch seconds - neighbouring cells differ in the tenth significant digit)
    vals = numpy.arange(nt * ny * nx, dtype=float).reshape(nt, ny, nx) * 1.5 + 3.0 + offset
    for (j, i) in holes:
        vals[:, j, i] = [-999.0, 999.0, 12345.0]         # sentinel values the model left in cells that are never drawn
    build = builders.cf2d if conv == 'cf2d' else builders.shoc_simple
    yd, xd = ('y', 'x') if conv == 'cf2d' else ('j', 'i')
    ds = build(ny, nx, lat=lat, lon=lon, lat_bounds=latb, lon_bounds=lonb, data_vars={'temp': (('time', yd, xd), vals, {'units': 'degC'})})
    ds = ds.assign_coords(time=(('time',), numpy.array(['2020-01-01', '2020-01-02', '2020-01-03'], dtype='datetime64[ns]')))
    cv = ds.ems
    present = [n for n, p in enumerate(cv.polygons) if p is not None]
    ctx.check(present == [0, 2, 3, 4], 'harness: the two hole cells have no geometry')
    figure = Figure()
    anim = plot.animate_on_figure(figure, cv, coordinate=ds['time'], scalar=ds['temp'], coast=False, gridlines=False)
    colls = [c for ax in figure.axes for c in ax.collections if hasattr(c, 'get_paths') and len(c.get_paths()) == len(present)]
    ctx.check(len(colls) >= 1, 'one patch per cell that has geometry, none for holes')
    if not colls:
        return
    coll = colls[0]
    drawn = vals.reshape(nt, -1)[:, present]
    lo, hi = coll.get_clim()
    ctx.check(lo == drawn.min() and hi == drawn.max(), 'default colour limits span exactly the plotted values (all frames), not the values of cells that are never drawn')
    for frame in range(nt):
        anim._func(frame)
        arr = numpy.asarray(coll.get_array())
        ctx.check(arr.shape == (len(present),) and bool((arr == drawn[frame]).all()), "each frame gives every patch its own cell's value")
    verts = [[tuple(p) for p in path.vertices] for path in coll.get_paths()]
    ctx.check(all(pipeline.ring_matches(v[:-1] if len(v) == 5 else v, geo.poly_coords(cv.polygons[n])) for v, n in zip(verts, present)),
              'patch k is the outline of the k-th cell with geometry, in linear order')


def body_large(ctx, conv):
    """Concrete datasets beyond the sizes of the symbolic cases (more than 2**16 cells, faces with up to twelve nodes):
    patches against independent reference polygons, values, default limits, arrows."""
    from harness import geomref
    from symx import builders
    if conv == 'cf1d-huge':
        nj, ni = 260, 257
        ds = builders.cf1d(nj, ni, lat=numpy.linspace(-44.0, -10.0, nj), lon=numpy.linspace(110.0, 158.0, ni))
        dims = ('y', 'x')
    elif conv == 'cf2d-bowtie0':
        nj, ni = 2, 3
        jj, ii = numpy.meshgrid(numpy.arange(nj, dtype=float), numpy.arange(ni, dtype=float), indexing='ij')
        lat, lon = 10.0 + jj, 100.0 + ii
        lonb = numpy.stack([lon - .5, lon + .5, lon + .5, lon - .5], axis=-1)
        latb = numpy.stack([lat - .5, lat - .5, lat + .5, lat + .5], axis=-1)
        lonb[0, 0] = lonb[0, 0][[0, 2, 1, 3]]
        latb[0, 0] = latb[0, 0][[0, 2, 1, 3]]
        ds = builders.cf2d(nj, ni, lat=lat, lon=lon, lat_bounds=latb, lon_bounds=lonb)
        dims = tuple(ds['lat'].dims)
    elif conv == 'mesh-bowtie0':
        ds = builders.ugrid(([(0, 0), (1, 0), (1, 1), (0, 1), (2, 0), (2, 1), (3, 0), (3, 1)], [[0, 2, 1, 3], [1, 4, 5, 2], [4, 6, 7, 5]]))
        dims = ('nface',)
    elif conv == 'cf2d-nan-wrap':
        # no stored bounds; centres missing in the second and in the last row of one column, and in the first and the
        # second-last column of one row: the cells between them and the border keep their own centres
        nj, ni = 5, 6
        jj, ii = numpy.meshgrid(numpy.arange(nj, dtype=float), numpy.arange(ni, dtype=float), indexing='ij')
        lat, lon = 10.0 + jj + 0.1 * ii, 100.0 + 2 * ii - 0.2 * jj
        for (j, i) in ((1, 2), (4, 2), (2, 4), (2, 0)):
            lat[j, i] = numpy.nan
            lon[j, i] = numpy.nan
        ds = builders.cf2d(nj, ni, lat=lat, lon=lon)
        dims = tuple(ds['lat'].dims)
    elif conv == 'shoc-20k':
        nj, ni = 130, 154
        ds = builders.shoc_standard(nj, ni)
        dims = ('j_centre', 'i_centre')
    else:
        ds = builders.ugrid(conv[5:])
        dims = ('nface',)
    cv = ds.ems
    ref = geomref.check(ctx, ds, cv)
    shape = tuple(ds.sizes[d] for d in dims)
    N = int(numpy.prod(shape))
    ctx.check(len(ref) == N, 'harness: one reference polygon per cell')
    vals = (numpy.arange(N, dtype=float) * 0.5 - 7.0).reshape(shape)
    ds['temp'] = (dims, vals)
    ds['u'] = (dims, vals + 1.0)
    ds['v'] = (dims, -vals)
    present = [n for n in range(N) if ref[n] is not None]
    coll = cv.make_poly_collection('temp')
    paths = coll.get_paths()
    ctx.check(len(paths) == len(present), 'one patch per cell that has geometry, none for holes')
    bad = []
    for k, n in enumerate(present[:len(paths)]):
        ring = [tuple(float(c) for c in p) for p in paths[k].vertices]
        want = [tuple(float(c) for c in p) for p in ref[n].exterior.coords]
        if not pipeline.ring_matches(ring[:-1] if len(ring) == len(want) else ring, want[:-1]):
            bad.append(n)
    ctx.check(not bad, f"patch k is the outline of the k-th cell with geometry, in linear order (first bad: {bad[:3]})")
    arr = numpy.asarray(coll.get_array())
    ctx.check(len(arr) == len(present) and bool(numpy.array_equal(arr, vals.ravel()[present])), "patch k carries that cell's own value")
    lo, hi = coll.get_clim()
    ctx.check(float(lo) == float(vals.ravel()[present].min()) and float(hi) == float(vals.ravel()[present].max()), 'default colour limits span the plotted values')
    import matplotlib.pyplot as plt
    fig = plt.figure()
    try:
        ax = fig.add_subplot()
        q = cv.make_quiver(ax, 'u', ds['v'], transform=ax.transData)
        ctx.check(len(q.X) == N and len(q.U) == N, 'one arrow slot per cell in linear order')
        cx = numpy.array([ref[n].centroid.x if ref[n] is not None else numpy.nan for n in range(N)])
        cy = numpy.array([ref[n].centroid.y if ref[n] is not None else numpy.nan for n in range(N)])
        if len(q.X) == N:
            tol = 1e-6 if conv.startswith('mesh-') or conv == 'cf1d-huge' else None
            if tol is not None:
                ctx.check(bool(numpy.allclose(numpy.asarray(q.X, dtype=float), cx, atol=tol, equal_nan=True) and numpy.allclose(numpy.asarray(q.Y, dtype=float), cy, atol=tol, equal_nan=True)),
                          'arrows sit at the face centres')
            ctx.check(bool(numpy.array_equal(numpy.ma.filled(q.U, numpy.nan), (vals + 1.0).ravel()) and numpy.array_equal(numpy.ma.filled(q.V, numpy.nan), (-vals).ravel())),
                      'arrows carry the components of the same cell')
    finally:
        plt.close(fig)


def cases(tier):
    for conv in ('cf2d-bowtie0', 'mesh-bowtie0', 'cf2d-nan-wrap', 'mesh-nonagon', 'mesh-fan9', 'mesh-poly34567', 'cf1d-huge', 'shoc-20k'):
        yield Case(f'large:{conv}', body_large, dict(conv=conv), max_paths=3)
    q = tier == 'quick'
    for conv in ('cf2d', 'shoc_simple'):
        yield Case(f'animate:{conv}', body_animate, dict(conv=conv), max_paths=3)
    yield Case('animate:cf2d:large-magnitude', body_animate, dict(conv='cf2d', offset=1.7e9), max_paths=3)
    cfgs = [('cf1d', (2, 3), 'none', ()), ('cf2d', (2, 2), 'stored', None), ('shoc_standard', (1, 2), 'none', None), ('shoc_simple', (2, 2), 'none', ((0, 0), (1, 1)))]
    if not q:
        cfgs += [('cf2d', (2, 3), 'stored', ((0, 1), (1, 2), (1, 0))), ('shoc_standard', (2, 2), 'none', ((0, 0), (1, 1), (2, 2))), ('cf1d', (3, 2), 'stored', ())]
    for conv, shape, bounds, nan_cells in cfgs:
        for layout in ('plain', 'transposed'):
            for mode in ('name', 'array', 'overrides', 'quiver'):
                if layout == 'transposed' and mode in ('overrides',):
                    continue
                nm = 'all' if nan_cells is None else len(nan_cells)
                yield Case(f'{conv}:{shape[0]}x{shape[1]}:{bounds}:nan{nm}:{layout}:{mode}', body,
                           dict(conv=conv, shape=shape, bounds=bounds, layout=layout, nan_cells=nan_cells, mode=mode),
                           patches=_patches(), max_paths=5000, split=8)
    for conv, shape, bounds, nan_cells in (('cf1d', (2, 3), 'none', ()), ('cf1d', (3, 2), 'none', ())):
        yield Case(f'{conv}:{shape[0]}x{shape[1]}:{bounds}:plain:name:after-other-datasets', body,
                   dict(conv=conv, shape=shape, bounds=bounds, layout='plain', nan_cells=nan_cells, mode='name', after_others=True),
                   patches=_patches(), max_paths=5000, split=8)
    # coordinate variables named by the caller
    for mode in ('name', 'quiver'):
        yield Case(f'cf1d:2x3:none:nan0:plain:{mode}:explicit-names', body,
                   dict(conv='cf1d', shape=(2, 3), bounds='none', layout='plain', nan_cells=(), mode=mode, explicit=True), patches=_patches(), max_paths=5000, split=8)
    yield Case('cf2d:2x3:stored:nan0:plain:quiver:longitude-stored-transposed', body,
               dict(conv='cf2d', shape=(2, 3), bounds='stored', layout='plain', nan_cells=(), mode='quiver', lon_transposed=True),
               patches=_patches(), max_paths=5000, split=8)
    # whole-degree axes stored in an integer type (see pipeline.int_coord_array: witness strength)
    for mode in ('name', 'quiver'):
        yield Case(f'cf1d:2x3:none:nan0:plain:{mode}:int32-coordinates', body,
                   dict(conv='cf1d', shape=(2, 3), bounds='none', layout='plain', nan_cells=(), mode=mode, coord_dtype='int32'),
                   patches=_patches(), max_paths=5000, split=8)
    for mesh in (['tqp'] if q else ['tqp', 'fan']):
        for mode in ('name', 'overrides', 'quiver'):
            yield Case(f'ugrid:{mesh}:{mode}', body, dict(conv='ugrid', shape=mesh, bounds='none', layout='plain',
                                                         mesh_opts=dict(face_centres=True), mode=mode), patches=_patches(), max_paths=100)
            yield Case(f'ugrid:{mesh}:nocentres:{mode}', body, dict(conv='ugrid', shape=mesh, bounds='none', layout='plain', mode=mode),
                       patches=_patches(), max_paths=100)


    # one-based integer tables whose fill value is kept as an attribute (0, -1, a large number): built in memory
    for fv in (0, -1, 999999):
        yield Case(f'ugrid:tqp:one-based:fill{fv}:name', body,
                   dict(conv='ugrid', shape='tqp', bounds='none', layout='plain', mode='name', mesh_opts=dict(start_index=1, fill='attr', fill_value=fv)),
                   patches=_patches(), max_paths=100)
    # grids whose cells may be self-intersecting (dropped with a warning) *and* missing: the dropped cell's slot is found in
    # the full array, not among the cells that exist
    for conv, shape in ((('cf2d', (1, 3)),) if q else (('cf2d', (1, 3)), ('shoc_simple', (2, 2)))):
        for mode in ('name',):
            yield Case(f'{conv}:{shape[0]}x{shape[1]}:stored:nanall:plain:{mode}:symbolic-validity', body,
                       dict(conv=conv, shape=shape, bounds='stored', layout='plain', nan_cells=None, mode=mode),
                       patches=_patches('sandwich'), max_paths=5000, split=16, solver='nlsat')
    # bounds variables whose horizontal dimensions are the other way round are not valid bounds: ignored, cells derived
    for mode in ('name', 'quiver'):
        yield Case(f'cf2d:2x3:misdim:nan1:plain:{mode}', body,
                   dict(conv='cf2d', shape=(2, 3), bounds='misdim', layout='plain', nan_cells=((0, 1),), mode=mode),
                   patches=_patches(), max_paths=5000, split=8)
    # meshes whose faces may be self-intersecting (dropped with a warning: a cell without geometry in the middle of a
    # mesh): validity decided from the symbolic node coordinates as in C06
    for mesh in (['tq'] if q else ['tq', 'tqp']):
        for mode in ('name', 'quiver'):
            yield Case(f'ugrid:{mesh}:symbolic-validity:{mode}', body, dict(conv='ugrid', shape=mesh, bounds='none', layout='plain',
                                                                          mesh_opts=dict(face_centres=True), mode=mode),
                       patches=_patches('sandwich'), max_paths=2000, split=8, solver='nlsat')


def functions():
    from emsarray.conventions import _base
    from emsarray import plot
    mpc = _base.Convention.make_poly_collection
    return [getattr(mpc, '__wrapped__', mpc), _base.Convention.make_quiver, plot.polygons_to_collection]


def run(tier, seed=0, replay=None, procs=None, only=None):
    if replay:
        return replay_file(replay, list(cases('thorough')) + list(cases('quick')))
    cs = list(cases(tier))
    if only:
        cs = [c for c in cs if re.search(only, c.name)]
    return main_run(
        PROP, tier, cs, functions=functions(), seed=seed, procs=procs,
        bounds=dict(
            datasets='CF 1-D 2x3, CF 2-D / SHOC simple 2x2 (symbolic missing cells), SHOC standard 1x2 / 2x2 (symbolic missing nodes), meshes '
                     'tqp / fan with and without stored face centres; variables in plain and transposed dimension order, by name or as arrays',
            symbolic='data values and vector components: Real + NaN flag; coordinates: Real; hole pattern: NaN flags',
            outside='datasets in which no cell at all has geometry; rendering; animate_on_figure; face centres computed from centroids (GEOS) are checked in replay only'),
        stubs=['matplotlib PolyCollection / Quiver constructors -> record their arguments (replay builds the real artists)',
               'numpy.nanmin / nanmax on object arrays -> NaN-skipping ite chains', 'polygon pipeline stubs as in C02'],
        assumptions=['floats are reals + NaN flag'],
    )
